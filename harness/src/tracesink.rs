//! A call-tracing `TreeSink` wrapper and a replayer for the recorded traces.
//!
//! `TraceSink<S>` forwards every `TreeSink` call to an inner sink `S` and records it as one
//! text line.  Handles are numbered by first occurrence: the Document is 0, every
//! `create_element` / `create_comment` / `create_pi` result gets the next number, and the first
//! `get_template_contents` of a template gives its contents the next number (later calls
//! report the same number).  Text and doctype nodes never get a number (the sink never hands
//! them out).  This is the numbering `coq/Dom/DomSpec.v` (`handle`, `sinkop`) uses.
//!
//! # Line format (tokens separated by one space)
//!
//! ```text
//! STR    := "…"   printable ASCII 0x21..0x7E literally except " and \ ; everything else
//!                 (space included) as \u{HEX}          e.g. "a\u{20}b"
//! OPTSTR := STR | -
//! QNAME  := OPTSTR(prefix) STR(namespace) STR(local)
//! ATTRS  := N { QNAME STR(value) }*N
//! CHILD  := n H | t STR
//! FLAGS  := - | any of the letters t (template) m (mathml_annotation_xml_integration_point)
//!               d (had_duplicate_attributes)
//!
//! create_element H QNAME FLAGS ATTRS
//! create_comment H STR
//! create_pi H STR(target) STR(data)
//! append H(parent) CHILD
//! append_before_sibling H(sibling) CHILD
//! append_based_on_parent_node H(element) H(prev_element) CHILD
//! append_doctype_to_document STR(name) STR(public) STR(system)
//! add_attrs_if_missing H ATTRS
//! remove_from_parent H
//! reparent_children H(node) H(new_parent)
//! get_template_contents H(target) H(result)
//! mark_script_already_started H
//! pop H
//! set_quirks_mode Quirks|LimitedQuirks|NoQuirks
//! set_current_line N
//! associate_with_form H(target) H(form) H(element) H|-(prev_element)
//! maybe_clone_an_option_into_selectedcontent H
//! parse_error STR
//! -- only when `record_queries` is set:
//! elem_name H
//! is_mathml_annotation_xml_integration_point H
//! same_node H H
//! get_document
//! allow_declarative_shadow_roots H
//! attach_declarative_shadow H(location) H(template) ATTRS
//! ```
//! A whole trace on one line is the op lines joined with `" ; "`.
use html5ever::tendril::StrTendril;
use markup5ever::interface::tree_builder::{ElementFlags, NodeOrText, QuirksMode, TreeSink};
use markup5ever::{Attribute, LocalName, Namespace, Prefix, QualName};
use std::borrow::Cow;
use std::cell::{Cell, RefCell};
use std::collections::HashMap;
use std::fmt::Write as _;

// ------------------------------------------------------------------ strings
pub fn esc(s: &str) -> String {
    let mut o = String::with_capacity(s.len() + 2);
    o.push('"');
    for c in s.chars() {
        let u = c as u32;
        if (0x21..=0x7e).contains(&u) && c != '"' && c != '\\' {
            o.push(c);
        } else {
            write!(o, "\\u{{{:x}}}", u).unwrap();
        }
    }
    o.push('"');
    o
}

pub fn unesc(tok: &str) -> Result<String, String> {
    let b = tok.as_bytes();
    if b.len() < 2 || b[0] != b'"' || b[b.len() - 1] != b'"' {
        return Err(format!("not a string token: {}", tok));
    }
    let inner = &tok[1..tok.len() - 1];
    let mut o = String::new();
    let mut it = inner.chars();
    while let Some(c) = it.next() {
        if c != '\\' {
            o.push(c);
            continue;
        }
        if it.next() != Some('u') || it.next() != Some('{') {
            return Err(format!("bad escape in {}", tok));
        }
        let mut v: u32 = 0;
        loop {
            match it.next() {
                Some('}') => break,
                Some(h) => v = v * 16 + h.to_digit(16).ok_or_else(|| format!("bad hex in {}", tok))?,
                None => return Err(format!("unterminated escape in {}", tok)),
            }
        }
        o.push(char::from_u32(v).ok_or_else(|| format!("not a scalar value in {}", tok))?);
    }
    Ok(o)
}

fn esc_opt(s: Option<&str>) -> String {
    match s {
        Some(s) => esc(s),
        None => "-".into(),
    }
}

pub fn fmt_qname(q: &QualName) -> String {
    format!("{} {} {}", esc_opt(q.prefix.as_ref().map(|p| &**p)), esc(&q.ns), esc(&q.local))
}

pub fn fmt_attrs<'a, I: Iterator<Item = (&'a QualName, &'a str)>>(attrs: I) -> String {
    let v: Vec<String> = attrs.map(|(n, v)| format!("{} {}", fmt_qname(n), esc(v))).collect();
    if v.is_empty() {
        "0".into()
    } else {
        format!("{} {}", v.len(), v.join(" "))
    }
}

fn fmt_attr_vec(attrs: &[Attribute]) -> String {
    fmt_attrs(attrs.iter().map(|a| (&a.name, &a.value[..])))
}

pub fn quirks_name(q: QuirksMode) -> &'static str {
    match q {
        QuirksMode::Quirks => "Quirks",
        QuirksMode::LimitedQuirks => "LimitedQuirks",
        QuirksMode::NoQuirks => "NoQuirks",
    }
}

// ------------------------------------------------------------------ the wrapper
/// A handle of the inner sink together with its trace number.
pub struct Traced<H> {
    pub id: usize,
    pub inner: H,
}

impl<H: Clone> Clone for Traced<H> {
    fn clone(&self) -> Self {
        Traced { id: self.id, inner: self.inner.clone() }
    }
}

pub struct TraceSink<S: TreeSink> {
    pub inner: S,
    /// the recorded calls, one line each
    pub log: RefCell<Vec<String>>,
    /// also record the pure queries (elem_name, same_node, ...)
    pub record_queries: bool,
    /// keep a clone of every numbered handle (index = number); keeps the nodes alive
    pub keep_handles: bool,
    pub handles: RefCell<Vec<S::Handle>>,
    next_id: Cell<usize>,
    tmpl: RefCell<HashMap<usize, usize>>,
}

/// What `finish` returns.
pub struct TraceOutput<S: TreeSink> {
    pub output: S::Output,
    pub log: Vec<String>,
    pub handles: Vec<S::Handle>,
}

impl<S: TreeSink> TraceSink<S> {
    pub fn new(inner: S) -> Self {
        let doc = inner.get_document();
        let t = TraceSink {
            inner,
            log: RefCell::new(Vec::new()),
            record_queries: false,
            keep_handles: true,
            handles: RefCell::new(Vec::new()),
            next_id: Cell::new(1),
            tmpl: RefCell::new(HashMap::new()),
        };
        t.handles.borrow_mut().push(doc);
        t
    }

    pub fn with_queries(mut self, on: bool) -> Self {
        self.record_queries = on;
        self
    }

    /// `false`: do not hold on to the handles (only the Document stays in `handles`)
    pub fn with_kept_handles(mut self, on: bool) -> Self {
        self.keep_handles = on;
        self
    }

    fn rec(&self, line: String) {
        self.log.borrow_mut().push(line);
    }

    fn fresh(&self, inner: S::Handle) -> Traced<S::Handle> {
        let id = self.next_id.get();
        self.next_id.set(id + 1);
        if self.keep_handles {
            self.handles.borrow_mut().push(inner.clone());
        }
        Traced { id, inner }
    }

    fn child(&self, c: &NodeOrText<Traced<S::Handle>>) -> String {
        match c {
            NodeOrText::AppendNode(n) => format!("n {}", n.id),
            NodeOrText::AppendText(t) => format!("t {}", esc(t)),
        }
    }

    fn unwrap_child(c: NodeOrText<Traced<S::Handle>>) -> NodeOrText<S::Handle> {
        match c {
            NodeOrText::AppendNode(n) => NodeOrText::AppendNode(n.inner),
            NodeOrText::AppendText(t) => NodeOrText::AppendText(t),
        }
    }

    /// the whole trace on one line
    pub fn trace_line(&self) -> String {
        self.log.borrow().join(" ; ")
    }
}

impl<S: TreeSink> TreeSink for TraceSink<S> {
    type Handle = Traced<S::Handle>;
    type Output = TraceOutput<S>;
    type ElemName<'a>
        = S::ElemName<'a>
    where
        Self: 'a;

    fn finish(self) -> TraceOutput<S> {
        TraceOutput {
            output: self.inner.finish(),
            log: self.log.into_inner(),
            handles: self.handles.into_inner(),
        }
    }

    fn parse_error(&self, msg: Cow<'static, str>) {
        self.rec(format!("parse_error {}", esc(&msg)));
        self.inner.parse_error(msg)
    }

    fn get_document(&self) -> Self::Handle {
        if self.record_queries {
            self.rec("get_document".into());
        }
        Traced { id: 0, inner: self.inner.get_document() }
    }

    fn elem_name<'a>(&'a self, target: &'a Self::Handle) -> Self::ElemName<'a> {
        if self.record_queries {
            self.rec(format!("elem_name {}", target.id));
        }
        self.inner.elem_name(&target.inner)
    }

    fn create_element(&self, name: QualName, attrs: Vec<Attribute>, flags: ElementFlags) -> Self::Handle {
        let mut f = String::new();
        if flags.template {
            f.push('t');
        }
        if flags.mathml_annotation_xml_integration_point {
            f.push('m');
        }
        if flags.had_duplicate_attributes {
            f.push('d');
        }
        if f.is_empty() {
            f.push('-');
        }
        let line = format!("{} {} {}", fmt_qname(&name), f, fmt_attr_vec(&attrs));
        let h = self.fresh(self.inner.create_element(name, attrs, flags));
        self.rec(format!("create_element {} {}", h.id, line));
        h
    }

    fn create_comment(&self, text: StrTendril) -> Self::Handle {
        let line = esc(&text);
        let h = self.fresh(self.inner.create_comment(text));
        self.rec(format!("create_comment {} {}", h.id, line));
        h
    }

    fn create_pi(&self, target: StrTendril, data: StrTendril) -> Self::Handle {
        let line = format!("{} {}", esc(&target), esc(&data));
        let h = self.fresh(self.inner.create_pi(target, data));
        self.rec(format!("create_pi {} {}", h.id, line));
        h
    }

    fn append(&self, parent: &Self::Handle, child: NodeOrText<Self::Handle>) {
        self.rec(format!("append {} {}", parent.id, self.child(&child)));
        self.inner.append(&parent.inner, Self::unwrap_child(child))
    }

    fn append_based_on_parent_node(
        &self,
        element: &Self::Handle,
        prev_element: &Self::Handle,
        child: NodeOrText<Self::Handle>,
    ) {
        self.rec(format!(
            "append_based_on_parent_node {} {} {}",
            element.id,
            prev_element.id,
            self.child(&child)
        ));
        self.inner
            .append_based_on_parent_node(&element.inner, &prev_element.inner, Self::unwrap_child(child))
    }

    fn append_doctype_to_document(&self, name: StrTendril, public_id: StrTendril, system_id: StrTendril) {
        self.rec(format!(
            "append_doctype_to_document {} {} {}",
            esc(&name),
            esc(&public_id),
            esc(&system_id)
        ));
        self.inner.append_doctype_to_document(name, public_id, system_id)
    }

    fn mark_script_already_started(&self, node: &Self::Handle) {
        self.rec(format!("mark_script_already_started {}", node.id));
        self.inner.mark_script_already_started(&node.inner)
    }

    fn pop(&self, node: &Self::Handle) {
        self.rec(format!("pop {}", node.id));
        self.inner.pop(&node.inner)
    }

    fn get_template_contents(&self, target: &Self::Handle) -> Self::Handle {
        let inner = self.inner.get_template_contents(&target.inner);
        let known = self.tmpl.borrow().get(&target.id).copied();
        let h = match known {
            Some(id) => Traced { id, inner },
            None => {
                let h = self.fresh(inner);
                self.tmpl.borrow_mut().insert(target.id, h.id);
                h
            },
        };
        self.rec(format!("get_template_contents {} {}", target.id, h.id));
        h
    }

    fn same_node(&self, x: &Self::Handle, y: &Self::Handle) -> bool {
        if self.record_queries {
            self.rec(format!("same_node {} {}", x.id, y.id));
        }
        self.inner.same_node(&x.inner, &y.inner)
    }

    fn set_quirks_mode(&self, mode: QuirksMode) {
        self.rec(format!("set_quirks_mode {}", quirks_name(mode)));
        self.inner.set_quirks_mode(mode)
    }

    fn append_before_sibling(&self, sibling: &Self::Handle, new_node: NodeOrText<Self::Handle>) {
        self.rec(format!("append_before_sibling {} {}", sibling.id, self.child(&new_node)));
        self.inner
            .append_before_sibling(&sibling.inner, Self::unwrap_child(new_node))
    }

    fn add_attrs_if_missing(&self, target: &Self::Handle, attrs: Vec<Attribute>) {
        self.rec(format!("add_attrs_if_missing {} {}", target.id, fmt_attr_vec(&attrs)));
        self.inner.add_attrs_if_missing(&target.inner, attrs)
    }

    fn associate_with_form(
        &self,
        target: &Self::Handle,
        form: &Self::Handle,
        nodes: (&Self::Handle, Option<&Self::Handle>),
    ) {
        self.rec(format!(
            "associate_with_form {} {} {} {}",
            target.id,
            form.id,
            nodes.0.id,
            match nodes.1 {
                Some(n) => n.id.to_string(),
                None => "-".into(),
            }
        ));
        self.inner
            .associate_with_form(&target.inner, &form.inner, (&nodes.0.inner, nodes.1.map(|n| &n.inner)))
    }

    fn remove_from_parent(&self, target: &Self::Handle) {
        self.rec(format!("remove_from_parent {}", target.id));
        self.inner.remove_from_parent(&target.inner)
    }

    fn reparent_children(&self, node: &Self::Handle, new_parent: &Self::Handle) {
        self.rec(format!("reparent_children {} {}", node.id, new_parent.id));
        self.inner.reparent_children(&node.inner, &new_parent.inner)
    }

    fn is_mathml_annotation_xml_integration_point(&self, handle: &Self::Handle) -> bool {
        if self.record_queries {
            self.rec(format!("is_mathml_annotation_xml_integration_point {}", handle.id));
        }
        self.inner.is_mathml_annotation_xml_integration_point(&handle.inner)
    }

    fn set_current_line(&self, line_number: u64) {
        self.rec(format!("set_current_line {}", line_number));
        self.inner.set_current_line(line_number)
    }

    fn allow_declarative_shadow_roots(&self, intended_parent: &Self::Handle) -> bool {
        if self.record_queries {
            self.rec(format!("allow_declarative_shadow_roots {}", intended_parent.id));
        }
        self.inner.allow_declarative_shadow_roots(&intended_parent.inner)
    }

    fn attach_declarative_shadow(
        &self,
        location: &Self::Handle,
        template: &Self::Handle,
        attrs: &[Attribute],
    ) -> bool {
        if self.record_queries {
            self.rec(format!(
                "attach_declarative_shadow {} {} {}",
                location.id,
                template.id,
                fmt_attr_vec(attrs)
            ));
        }
        self.inner
            .attach_declarative_shadow(&location.inner, &template.inner, attrs)
    }

    fn maybe_clone_an_option_into_selectedcontent(&self, option: &Self::Handle) {
        self.rec(format!("maybe_clone_an_option_into_selectedcontent {}", option.id));
        self.inner.maybe_clone_an_option_into_selectedcontent(&option.inner)
    }
}

// ------------------------------------------------------------------ parsed operations
#[derive(Clone, Debug, PartialEq)]
pub struct QN {
    pub prefix: Option<String>,
    pub ns: String,
    pub local: String,
}

impl QN {
    pub fn to_qualname(&self) -> QualName {
        QualName::new(
            self.prefix.as_ref().map(|p| Prefix::from(&p[..])),
            Namespace::from(&self.ns[..]),
            LocalName::from(&self.local[..]),
        )
    }
}

#[derive(Clone, Debug, PartialEq)]
pub enum Child {
    Node(usize),
    Text(String),
}

#[derive(Clone, Debug, PartialEq)]
pub enum Op {
    CreateElement { h: usize, name: QN, template: bool, mathml_ip: bool, had_dup: bool, attrs: Vec<(QN, String)> },
    CreateComment { h: usize, text: String },
    CreatePi { h: usize, target: String, data: String },
    Append { parent: usize, child: Child },
    AppendBeforeSibling { sibling: usize, child: Child },
    AppendBasedOnParentNode { element: usize, prev_element: usize, child: Child },
    AppendDoctype { name: String, public_id: String, system_id: String },
    AddAttrsIfMissing { target: usize, attrs: Vec<(QN, String)> },
    RemoveFromParent { target: usize },
    ReparentChildren { node: usize, new_parent: usize },
    GetTemplateContents { target: usize, result: usize },
    MarkScriptAlreadyStarted { h: usize },
    Pop { h: usize },
    SetQuirksMode { mode: QuirksMode },
    SetCurrentLine { line: u64 },
    AssociateWithForm { target: usize, form: usize, element: usize, prev_element: Option<usize> },
    MaybeCloneOption { h: usize },
    ParseError { msg: String },
    ElemName { h: usize },
    IsMathmlIp { h: usize },
    SameNode { x: usize, y: usize },
    GetDocument,
    AllowDeclarativeShadowRoots { h: usize },
    AttachDeclarativeShadow { location: usize, template: usize, attrs: Vec<(QN, String)> },
    /// harness marker (`#dump`): not a sink call
    Dump,
}

struct Toks<'a> {
    t: std::str::SplitWhitespace<'a>,
}

impl<'a> Toks<'a> {
    fn next(&mut self) -> Result<&'a str, String> {
        self.t.next().ok_or_else(|| "missing token".to_string())
    }
    fn num(&mut self) -> Result<usize, String> {
        let t = self.next()?;
        t.parse::<usize>().map_err(|_| format!("not a number: {}", t))
    }
    fn s(&mut self) -> Result<String, String> {
        unesc(self.next()?)
    }
    fn opt_s(&mut self) -> Result<Option<String>, String> {
        let t = self.next()?;
        if t == "-" {
            Ok(None)
        } else {
            unesc(t).map(Some)
        }
    }
    fn qn(&mut self) -> Result<QN, String> {
        Ok(QN { prefix: self.opt_s()?, ns: self.s()?, local: self.s()? })
    }
    fn attrs(&mut self) -> Result<Vec<(QN, String)>, String> {
        let n = self.num()?;
        let mut v = Vec::with_capacity(n);
        for _ in 0..n {
            let q = self.qn()?;
            v.push((q, self.s()?));
        }
        Ok(v)
    }
    fn child(&mut self) -> Result<Child, String> {
        match self.next()? {
            "n" => Ok(Child::Node(self.num()?)),
            "t" => Ok(Child::Text(self.s()?)),
            x => Err(format!("bad child kind {}", x)),
        }
    }
}

pub fn parse_op(line: &str) -> Result<Op, String> {
    let mut t = Toks { t: line.split_whitespace() };
    let op = match t.next()? {
        "create_element" => {
            let h = t.num()?;
            let name = t.qn()?;
            let f = t.next()?;
            let attrs = t.attrs()?;
            Op::CreateElement {
                h,
                name,
                template: f.contains('t'),
                mathml_ip: f.contains('m'),
                had_dup: f.contains('d'),
                attrs,
            }
        },
        "create_comment" => Op::CreateComment { h: t.num()?, text: t.s()? },
        "create_pi" => Op::CreatePi { h: t.num()?, target: t.s()?, data: t.s()? },
        "append" => Op::Append { parent: t.num()?, child: t.child()? },
        "append_before_sibling" => Op::AppendBeforeSibling { sibling: t.num()?, child: t.child()? },
        "append_based_on_parent_node" => {
            Op::AppendBasedOnParentNode { element: t.num()?, prev_element: t.num()?, child: t.child()? }
        },
        "append_doctype_to_document" => {
            Op::AppendDoctype { name: t.s()?, public_id: t.s()?, system_id: t.s()? }
        },
        "add_attrs_if_missing" => Op::AddAttrsIfMissing { target: t.num()?, attrs: t.attrs()? },
        "remove_from_parent" => Op::RemoveFromParent { target: t.num()? },
        "reparent_children" => Op::ReparentChildren { node: t.num()?, new_parent: t.num()? },
        "get_template_contents" => Op::GetTemplateContents { target: t.num()?, result: t.num()? },
        "mark_script_already_started" => Op::MarkScriptAlreadyStarted { h: t.num()? },
        "pop" => Op::Pop { h: t.num()? },
        "set_quirks_mode" => Op::SetQuirksMode {
            mode: match t.next()? {
                "Quirks" => QuirksMode::Quirks,
                "LimitedQuirks" => QuirksMode::LimitedQuirks,
                "NoQuirks" => QuirksMode::NoQuirks,
                x => return Err(format!("bad quirks mode {}", x)),
            },
        },
        "set_current_line" => Op::SetCurrentLine { line: t.num()? as u64 },
        "associate_with_form" => {
            let target = t.num()?;
            let form = t.num()?;
            let element = t.num()?;
            let p = t.next()?;
            Op::AssociateWithForm {
                target,
                form,
                element,
                prev_element: if p == "-" { None } else { Some(p.parse().map_err(|_| "bad handle".to_string())?) },
            }
        },
        "maybe_clone_an_option_into_selectedcontent" => Op::MaybeCloneOption { h: t.num()? },
        "parse_error" => Op::ParseError { msg: t.s()? },
        "elem_name" => Op::ElemName { h: t.num()? },
        "is_mathml_annotation_xml_integration_point" => Op::IsMathmlIp { h: t.num()? },
        "same_node" => Op::SameNode { x: t.num()?, y: t.num()? },
        "get_document" => Op::GetDocument,
        "allow_declarative_shadow_roots" => Op::AllowDeclarativeShadowRoots { h: t.num()? },
        "attach_declarative_shadow" => {
            Op::AttachDeclarativeShadow { location: t.num()?, template: t.num()?, attrs: t.attrs()? }
        },
        "#dump" => Op::Dump,
        x => return Err(format!("unknown op {}", x)),
    };
    if t.t.next().is_some() {
        return Err(format!("trailing tokens in: {}", line));
    }
    Ok(op)
}

/// ops of a one-line trace (`" ; "` separated)
pub fn parse_trace(line: &str) -> Result<Vec<Op>, String> {
    line.split(" ; ")
        .map(|s| s.trim())
        .filter(|s| !s.is_empty())
        .map(parse_op)
        .collect()
}

fn mk_attrs(attrs: &[(QN, String)]) -> Vec<Attribute> {
    attrs
        .iter()
        .map(|(q, v)| Attribute { name: q.to_qualname(), value: StrTendril::from(&v[..]) })
        .collect()
}

/// Replays recorded operations into any sink.  `handles[i]` is the handle numbered `i`.
pub struct Replayer<'a, S: TreeSink> {
    pub sink: &'a S,
    pub handles: Vec<S::Handle>,
}

impl<'a, S: TreeSink> Replayer<'a, S> {
    pub fn new(sink: &'a S) -> Self {
        let doc = sink.get_document();
        Replayer { sink, handles: vec![doc] }
    }

    fn h(&self, i: usize) -> Result<&S::Handle, String> {
        self.handles.get(i).ok_or_else(|| format!("unknown handle {}", i))
    }

    fn child(&self, c: &Child) -> Result<NodeOrText<S::Handle>, String> {
        Ok(match c {
            Child::Node(n) => NodeOrText::AppendNode(self.h(*n)?.clone()),
            Child::Text(t) => NodeOrText::AppendText(StrTendril::from(&t[..])),
        })
    }

    /// performs one operation; `Err` = the trace itself is malformed (unknown handle)
    pub fn step(&mut self, op: &Op) -> Result<(), String> {
        match op {
            Op::CreateElement { name, template, mathml_ip, had_dup, attrs, .. } => {
                let mut flags = ElementFlags::default();
                flags.template = *template;
                flags.mathml_annotation_xml_integration_point = *mathml_ip;
                flags.had_duplicate_attributes = *had_dup;
                let h = self.sink.create_element(name.to_qualname(), mk_attrs(attrs), flags);
                self.handles.push(h);
            },
            Op::CreateComment { text, .. } => {
                let h = self.sink.create_comment(StrTendril::from(&text[..]));
                self.handles.push(h);
            },
            Op::CreatePi { target, data, .. } => {
                let h = self.sink.create_pi(StrTendril::from(&target[..]), StrTendril::from(&data[..]));
                self.handles.push(h);
            },
            Op::Append { parent, child } => {
                let c = self.child(child)?;
                self.sink.append(self.h(*parent)?, c)
            },
            Op::AppendBeforeSibling { sibling, child } => {
                let c = self.child(child)?;
                self.sink.append_before_sibling(self.h(*sibling)?, c)
            },
            Op::AppendBasedOnParentNode { element, prev_element, child } => {
                let c = self.child(child)?;
                self.sink
                    .append_based_on_parent_node(self.h(*element)?, self.h(*prev_element)?, c)
            },
            Op::AppendDoctype { name, public_id, system_id } => self.sink.append_doctype_to_document(
                StrTendril::from(&name[..]),
                StrTendril::from(&public_id[..]),
                StrTendril::from(&system_id[..]),
            ),
            Op::AddAttrsIfMissing { target, attrs } => {
                self.sink.add_attrs_if_missing(self.h(*target)?, mk_attrs(attrs))
            },
            Op::RemoveFromParent { target } => self.sink.remove_from_parent(self.h(*target)?),
            Op::ReparentChildren { node, new_parent } => {
                self.sink.reparent_children(self.h(*node)?, self.h(*new_parent)?)
            },
            Op::GetTemplateContents { target, result } => {
                let c = self.sink.get_template_contents(self.h(*target)?);
                if *result == self.handles.len() {
                    self.handles.push(c);
                }
            },
            Op::MarkScriptAlreadyStarted { h } => self.sink.mark_script_already_started(self.h(*h)?),
            Op::Pop { h } => self.sink.pop(self.h(*h)?),
            Op::SetQuirksMode { mode } => self.sink.set_quirks_mode(*mode),
            Op::SetCurrentLine { line } => self.sink.set_current_line(*line),
            Op::AssociateWithForm { target, form, element, prev_element } => {
                let p = match prev_element {
                    Some(p) => Some(self.h(*p)?),
                    None => None,
                };
                self.sink
                    .associate_with_form(self.h(*target)?, self.h(*form)?, (self.h(*element)?, p))
            },
            Op::MaybeCloneOption { h } => self.sink.maybe_clone_an_option_into_selectedcontent(self.h(*h)?),
            Op::ParseError { msg } => self.sink.parse_error(Cow::Owned(msg.clone())),
            Op::ElemName { h } => {
                let _ = self.sink.elem_name(self.h(*h)?);
            },
            Op::IsMathmlIp { h } => {
                let _ = self.sink.is_mathml_annotation_xml_integration_point(self.h(*h)?);
            },
            Op::SameNode { x, y } => {
                let _ = self.sink.same_node(self.h(*x)?, self.h(*y)?);
            },
            Op::GetDocument => {
                let _ = self.sink.get_document();
            },
            Op::AllowDeclarativeShadowRoots { h } => {
                let _ = self.sink.allow_declarative_shadow_roots(self.h(*h)?);
            },
            Op::AttachDeclarativeShadow { location, template, attrs } => {
                let _ = self
                    .sink
                    .attach_declarative_shadow(self.h(*location)?, self.h(*template)?, &mk_attrs(attrs));
            },
            Op::Dump => {},
        }
        Ok(())
    }
}
