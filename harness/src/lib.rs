//! shared helpers for the verification harness binaries
pub mod tracesink;
pub mod treedump;
