//! shared helpers for the verification harness binaries
