//! shared helpers for the verification harness binaries
pub mod monitor;
pub mod tracesink;
pub mod treedump;
