//! canonical text dump of an RcDom tree (used by the tree-level metamorphic oracles)
use markup5ever_rcdom::{Handle, NodeData};

fn cps(s: &str) -> String {
    if s.is_empty() {
        return "_".into();
    }
    s.chars().map(|c| (c as u32).to_string()).collect::<Vec<_>>().join(".")
}

pub fn dump_node(h: &Handle, out: &mut String) {
    // iterative to survive very deep trees
    enum W {
        Open(Handle),
        Close,
    }
    // (template contents are walked on the same explicit stack: a parse may nest templates as deeply as the input likes)
    let mut stack = vec![W::Open(h.clone())];
    while let Some(w) = stack.pop() {
        match w {
            W::Close => out.push(')'),
            W::Open(h) => {
                let mut tmpl: Option<Handle> = None;
                match &h.data {
                    NodeData::Document => out.push_str("(doc"),
                    NodeData::Doctype { name, public_id, system_id } => {
                        out.push_str(&format!("(doctype {} {} {}", cps(name), cps(public_id), cps(system_id)))
                    },
                    NodeData::Text { contents } => out.push_str(&format!("(t {}", cps(&contents.borrow()))),
                    NodeData::Comment { contents } => out.push_str(&format!("(c {}", cps(contents))),
                    NodeData::ProcessingInstruction { target, contents } => {
                        out.push_str(&format!("(pi {} {}", cps(target), cps(contents)))
                    },
                    NodeData::Element { name, attrs, template_contents, mathml_annotation_xml_integration_point, .. } => {
                        out.push_str(&format!(
                            "(el {}|{}|{}",
                            name.prefix.as_ref().map(|p| cps(p)).unwrap_or("-".into()),
                            cps(&name.ns),
                            cps(&name.local)
                        ));
                        if *mathml_annotation_xml_integration_point {
                            out.push_str(" ip");
                        }
                        for a in attrs.borrow().iter() {
                            out.push_str(&format!(
                                " [{}|{}|{}={}]",
                                a.name.prefix.as_ref().map(|p| cps(p)).unwrap_or("-".into()),
                                cps(&a.name.ns),
                                cps(&a.name.local),
                                cps(&a.value)
                            ));
                        }
                        if let Some(t) = template_contents.borrow().as_ref() {
                            out.push_str(" (tmpl");
                            tmpl = Some(t.clone());
                        }
                    },
                }
                stack.push(W::Close);
                let ch = h.children.borrow();
                for c in ch.iter().rev() {
                    stack.push(W::Open(c.clone()));
                }
                if let Some(t) = tmpl {
                    // the contents come first: "(el .. (tmpl c1 c2) child1 ..)"
                    stack.push(W::Close);
                    for c in t.children.borrow().iter().rev() {
                        stack.push(W::Open(c.clone()));
                    }
                }
                if !ch.is_empty() {
                    // children separated by a space
                }
            },
        }
        if let Some(W::Open(_)) = stack.last() {
            out.push(' ');
        }
    }
}

pub fn dump(h: &Handle) -> String {
    let mut s = String::new();
    dump_node(h, &mut s);
    s
}
