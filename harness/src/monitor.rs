//! An arena DOM sink that never panics, notices breaches of the TreeSink calling contract on
//! its own (cross-check for the Coq monitor of C05) and simulates a garbage collector (C18).
//!
//! `ArenaSink` keeps every node in a `Vec`; a handle is an `Rc` holding the arena index (and,
//! for elements, the name, so that `elem_name` can lend it out).  Every node records parent,
//! children and - for `template` elements - the contents fragment (and the fragment its owner).
//!
//! Garbage collection is simulated by `collect(traced)`: all nodes that are not connected
//! (parent / children / template contents, in both directions) to one of the traced nodes are
//! marked *collected*.  Every later `TreeSink` call that is handed a collected node is
//! recorded in `gc_findings` (a real collector would have freed the node: use after free).
//!
//! Handle numbers (`hid`) follow the rule of `tracesink.rs`: Document 0, every
//! create_element / create_comment / create_pi result the next number, the first
//! get_template_contents of a template names its contents with the next number.
use crate::tracesink::{esc, fmt_attrs, fmt_qname};
use html5ever::tendril::StrTendril;
use markup5ever::interface::tree_builder::{ElementFlags, NodeOrText, QuirksMode, TreeSink};
use markup5ever::{Attribute, ExpandedName, QualName};
use std::borrow::Cow;
use std::cell::{Cell, RefCell};
use std::rc::Rc;

pub struct ARef {
    pub idx: usize,
    pub name: Option<QualName>,
}
pub type AHandle = Rc<ARef>;

#[derive(Clone, Debug)]
pub enum AData {
    Document,
    /// template contents
    Fragment,
    Doctype(String, String, String),
    Text(String),
    Comment(String),
    Pi(String, String),
    Element { name: QualName, attrs: Vec<(QualName, String)>, mathml_ip: bool },
}

#[derive(Clone, Debug)]
pub struct ANode {
    pub data: AData,
    pub parent: Option<usize>,
    pub children: Vec<usize>,
    /// template element -> its contents fragment
    pub tmpl: Option<usize>,
    /// contents fragment -> its template element
    pub owner: Option<usize>,
    /// trace number, if the sink ever handed this node out
    pub hid: Option<usize>,
    pub collected: bool,
}

pub struct ArenaSink {
    pub nodes: RefCell<Vec<ANode>>,
    next_hid: Cell<usize>,
    calls: Cell<usize>,
    /// contract breaches noticed by the sink itself: "<call#>:<what>"
    pub breaches: RefCell<Vec<String>>,
    /// collected nodes handed to the sink: "<call#>:<op>:h<hid>"
    pub gc_findings: RefCell<Vec<String>>,
    pub quirks: Cell<QuirksMode>,
    /// number of nodes collected at each suspension point
    pub collected_at: RefCell<Vec<usize>>,
    /// number of nodes that survive each suspension point only because of a traced handle other than the
    /// Document (they are not connected to the Document): where tracing actually mattered
    pub rescued_at: RefCell<Vec<usize>>,
    dummy: QualName,
}

pub struct ArenaOut {
    pub nodes: Vec<ANode>,
    pub breaches: Vec<String>,
    pub gc_findings: Vec<String>,
    pub collected_at: Vec<usize>,
    pub rescued_at: Vec<usize>,
    pub quirks: QuirksMode,
}

impl Default for ArenaSink {
    fn default() -> Self {
        let doc = ANode {
            data: AData::Document,
            parent: None,
            children: vec![],
            tmpl: None,
            owner: None,
            hid: Some(0),
            collected: false,
        };
        ArenaSink {
            nodes: RefCell::new(vec![doc]),
            next_hid: Cell::new(1),
            calls: Cell::new(0),
            breaches: RefCell::new(vec![]),
            gc_findings: RefCell::new(vec![]),
            quirks: Cell::new(QuirksMode::NoQuirks),
            collected_at: RefCell::new(vec![]),
            rescued_at: RefCell::new(vec![]),
            dummy: QualName::new(None, "".into(), "".into()),
        }
    }
}

impl ArenaSink {
    fn tick(&self) -> usize {
        let c = self.calls.get();
        self.calls.set(c + 1);
        c
    }

    fn breach(&self, what: &str) {
        self.breaches.borrow_mut().push(format!("{}:{}", self.calls.get().saturating_sub(1), what));
    }

    /// a handle is handed to the sink by operation `op`
    fn touch(&self, op: &str, h: &AHandle) {
        let n = self.nodes.borrow();
        if n[h.idx].collected {
            let hid = n[h.idx].hid.map(|x| x.to_string()).unwrap_or("-".into());
            self.gc_findings
                .borrow_mut()
                .push(format!("{}:{}:h{}", self.calls.get().saturating_sub(1), op, hid));
        }
    }

    fn new_node(&self, data: AData, name: Option<QualName>, numbered: bool) -> AHandle {
        let mut n = self.nodes.borrow_mut();
        let idx = n.len();
        let hid = if numbered {
            let h = self.next_hid.get();
            self.next_hid.set(h + 1);
            Some(h)
        } else {
            None
        };
        n.push(ANode { data, parent: None, children: vec![], tmpl: None, owner: None, hid, collected: false });
        Rc::new(ARef { idx, name })
    }

    fn is_element(&self, i: usize) -> bool {
        matches!(self.nodes.borrow()[i].data, AData::Element { .. })
    }

    fn is_container(&self, i: usize) -> bool {
        matches!(self.nodes.borrow()[i].data, AData::Element { .. } | AData::Document | AData::Fragment)
    }

    /// is `a` the node `n` or one of its ancestors?
    fn anc_or_self(&self, a: usize, n: usize) -> bool {
        let nodes = self.nodes.borrow();
        let mut cur = Some(n);
        let mut fuel = nodes.len() + 1;
        while let Some(c) = cur {
            if c == a {
                return true;
            }
            if fuel == 0 {
                return true;
            }
            fuel -= 1;
            cur = nodes[c].parent;
        }
        false
    }

    fn detach(&self, c: usize) {
        let mut n = self.nodes.borrow_mut();
        if let Some(p) = n[c].parent.take() {
            n[p].children.retain(|&x| x != c);
        }
    }

    fn dup_attrs(attrs: &[Attribute]) -> bool {
        for (i, a) in attrs.iter().enumerate() {
            if attrs[..i].iter().any(|b| b.name == a.name) {
                return true;
            }
        }
        false
    }

    /// checks common to the three insertion methods; returns false when the insertion must be skipped
    fn child_ok(&self, op: &str, parent: usize, child: &NodeOrText<AHandle>, may_have_parent: bool) -> bool {
        if let NodeOrText::AppendNode(c) = child {
            self.touch(op, c);
            let (has_parent, created) = {
                let n = self.nodes.borrow();
                (
                    n[c.idx].parent.is_some(),
                    matches!(n[c.idx].data, AData::Element { .. } | AData::Comment(_) | AData::Pi(..)),
                )
            };
            if !created {
                self.breach(&format!("{}-child-kind", op));
                return false;
            }
            if has_parent && !may_have_parent {
                self.breach(&format!("{}-child-has-parent", op));
            }
            if self.anc_or_self(c.idx, parent) {
                self.breach(&format!("{}-cycle", op));
                return false;
            }
        }
        true
    }

    fn do_append(&self, op: &str, parent: usize, child: NodeOrText<AHandle>) {
        if !self.is_container(parent) {
            self.breach(&format!("{}-parent-not-container", op));
            return;
        }
        if !self.child_ok(op, parent, &child, false) {
            return;
        }
        match child {
            NodeOrText::AppendText(t) => {
                let last = self.nodes.borrow()[parent].children.last().copied();
                if let Some(l) = last {
                    if let AData::Text(ref mut s) = self.nodes.borrow_mut()[l].data {
                        s.push_str(&t);
                        return;
                    }
                }
                let h = self.new_node(AData::Text(t.to_string()), None, false);
                let mut n = self.nodes.borrow_mut();
                n[h.idx].parent = Some(parent);
                n[parent].children.push(h.idx);
            },
            NodeOrText::AppendNode(c) => {
                self.detach(c.idx);
                let mut n = self.nodes.borrow_mut();
                n[c.idx].parent = Some(parent);
                n[parent].children.push(c.idx);
            },
        }
    }

    fn do_before(&self, op: &str, sibling: usize, child: NodeOrText<AHandle>) {
        if matches!(self.nodes.borrow()[sibling].data, AData::Text(_)) {
            self.breach(&format!("{}-sibling-is-text", op));
        }
        let Some(parent) = self.nodes.borrow()[sibling].parent else {
            self.breach(&format!("{}-sibling-without-parent", op));
            return;
        };
        // reading decision (as DomSpec.before_ok): html5ever never relies on "new_node may have an old
        // parent"; a parented child is reported for all three insertion methods
        if !self.child_ok(op, parent, &child, false) {
            return;
        }
        match child {
            NodeOrText::AppendText(t) => {
                let (i, prev) = {
                    let n = self.nodes.borrow();
                    let i = n[parent].children.iter().position(|&x| x == sibling).unwrap();
                    (i, if i > 0 { Some(n[parent].children[i - 1]) } else { None })
                };
                if let Some(p) = prev {
                    if let AData::Text(ref mut s) = self.nodes.borrow_mut()[p].data {
                        s.push_str(&t);
                        return;
                    }
                }
                let h = self.new_node(AData::Text(t.to_string()), None, false);
                let mut n = self.nodes.borrow_mut();
                n[h.idx].parent = Some(parent);
                n[parent].children.insert(i, h.idx);
            },
            NodeOrText::AppendNode(c) => {
                if c.idx == sibling {
                    self.breach(&format!("{}-before-itself", op));
                    return;
                }
                self.detach(c.idx);
                let mut n = self.nodes.borrow_mut();
                let i = n[parent].children.iter().position(|&x| x == sibling).unwrap();
                n[c.idx].parent = Some(parent);
                n[parent].children.insert(i, c.idx);
            },
        }
    }

    /// GC at a suspension point: everything not connected to a traced node is collected.
    /// Returns the number of nodes newly collected.
    pub fn collect(&self, traced: &[usize]) -> usize {
        let mut n = self.nodes.borrow_mut();
        fn component(n: &[ANode], roots: &[usize]) -> Vec<bool> {
            let mut seen = vec![false; n.len()];
            let mut stack: Vec<usize> = vec![];
            for &t in roots {
                if !seen[t] {
                    seen[t] = true;
                    stack.push(t);
                }
            }
            while let Some(x) = stack.pop() {
                let mut nb: Vec<usize> = n[x].children.clone();
                nb.extend(n[x].parent);
                nb.extend(n[x].tmpl);
                nb.extend(n[x].owner);
                for y in nb {
                    if !seen[y] {
                        seen[y] = true;
                        stack.push(y);
                    }
                }
            }
            seen
        }
        let seen = component(&n, traced);
        let doc_only = component(&n, &[0]);
        let rescued = (0..n.len()).filter(|&i| seen[i] && !doc_only[i] && !n[i].collected).count();
        self.rescued_at.borrow_mut().push(rescued);
        let mut k = 0;
        for (i, nd) in n.iter_mut().enumerate() {
            if !seen[i] && !nd.collected {
                nd.collected = true;
                k += 1;
            }
        }
        self.collected_at.borrow_mut().push(k);
        k
    }

    pub fn hid_of(&self, idx: usize) -> Option<usize> {
        self.nodes.borrow()[idx].hid
    }
}

impl TreeSink for ArenaSink {
    type Handle = AHandle;
    type Output = ArenaOut;
    type ElemName<'a>
        = ExpandedName<'a>
    where
        Self: 'a;

    fn finish(self) -> ArenaOut {
        ArenaOut {
            nodes: self.nodes.into_inner(),
            breaches: self.breaches.into_inner(),
            gc_findings: self.gc_findings.into_inner(),
            collected_at: self.collected_at.into_inner(),
            rescued_at: self.rescued_at.into_inner(),
            quirks: self.quirks.get(),
        }
    }

    fn parse_error(&self, _msg: Cow<'static, str>) {
        self.tick();
    }

    fn get_document(&self) -> AHandle {
        self.tick();
        Rc::new(ARef { idx: 0, name: None })
    }

    fn elem_name<'a>(&'a self, target: &'a AHandle) -> ExpandedName<'a> {
        self.tick();
        self.touch("elem_name", target);
        match target.name {
            Some(ref q) => q.expanded(),
            None => {
                self.breach("elem_name-non-element");
                self.dummy.expanded()
            },
        }
    }

    fn create_element(&self, name: QualName, attrs: Vec<Attribute>, flags: ElementFlags) -> AHandle {
        self.tick();
        if Self::dup_attrs(&attrs) {
            self.breach("create_element-duplicate-attribute");
        }
        let data = AData::Element {
            name: name.clone(),
            attrs: attrs.iter().map(|a| (a.name.clone(), a.value.to_string())).collect(),
            mathml_ip: flags.mathml_annotation_xml_integration_point,
        };
        let h = self.new_node(data, Some(name), true);
        if flags.template {
            let f = self.new_node(AData::Fragment, None, false);
            let mut n = self.nodes.borrow_mut();
            n[h.idx].tmpl = Some(f.idx);
            n[f.idx].owner = Some(h.idx);
        }
        h
    }

    fn create_comment(&self, text: StrTendril) -> AHandle {
        self.tick();
        self.new_node(AData::Comment(text.to_string()), None, true)
    }

    fn create_pi(&self, target: StrTendril, data: StrTendril) -> AHandle {
        self.tick();
        self.new_node(AData::Pi(target.to_string(), data.to_string()), None, true)
    }

    fn append(&self, parent: &AHandle, child: NodeOrText<AHandle>) {
        self.tick();
        self.touch("append", parent);
        self.do_append("append", parent.idx, child)
    }

    fn append_based_on_parent_node(&self, element: &AHandle, prev_element: &AHandle, child: NodeOrText<AHandle>) {
        self.tick();
        self.touch("append_based_on_parent_node", element);
        self.touch("append_based_on_parent_node", prev_element);
        if !self.is_element(element.idx) || !self.is_element(prev_element.idx) {
            self.breach("append_based_on_parent_node-non-element");
        }
        let has_parent = self.nodes.borrow()[element.idx].parent.is_some();
        if has_parent {
            self.do_before("append_based_on_parent_node", element.idx, child)
        } else {
            self.do_append("append_based_on_parent_node", prev_element.idx, child)
        }
    }

    fn append_doctype_to_document(&self, name: StrTendril, public_id: StrTendril, system_id: StrTendril) {
        self.tick();
        let (has_dt, has_el) = {
            let n = self.nodes.borrow();
            (
                n[0].children.iter().any(|&c| matches!(n[c].data, AData::Doctype(..))),
                n[0].children.iter().any(|&c| matches!(n[c].data, AData::Element { .. })),
            )
        };
        if has_dt {
            self.breach("append_doctype_to_document-second-doctype");
        }
        if has_el {
            self.breach("append_doctype_to_document-after-element");
        }
        let h = self.new_node(
            AData::Doctype(name.to_string(), public_id.to_string(), system_id.to_string()),
            None,
            false,
        );
        let mut n = self.nodes.borrow_mut();
        n[h.idx].parent = Some(0);
        n[0].children.push(h.idx);
    }

    fn mark_script_already_started(&self, node: &AHandle) {
        self.tick();
        self.touch("mark_script_already_started", node);
        if !self.is_element(node.idx) {
            self.breach("mark_script_already_started-non-element");
        }
    }

    fn pop(&self, node: &AHandle) {
        self.tick();
        self.touch("pop", node);
        if !self.is_element(node.idx) {
            self.breach("pop-non-element");
        }
    }

    fn get_template_contents(&self, target: &AHandle) -> AHandle {
        self.tick();
        self.touch("get_template_contents", target);
        let t = self.nodes.borrow()[target.idx].tmpl;
        match t {
            Some(f) => {
                let mut n = self.nodes.borrow_mut();
                if n[f].hid.is_none() {
                    let h = self.next_hid.get();
                    self.next_hid.set(h + 1);
                    n[f].hid = Some(h);
                }
                Rc::new(ARef { idx: f, name: None })
            },
            None => {
                self.breach("get_template_contents-non-template");
                // something harmless to hand back: a fresh fragment
                let f = self.new_node(AData::Fragment, None, true);
                f
            },
        }
    }

    fn same_node(&self, x: &AHandle, y: &AHandle) -> bool {
        self.tick();
        self.touch("same_node", x);
        self.touch("same_node", y);
        x.idx == y.idx
    }

    fn set_quirks_mode(&self, mode: QuirksMode) {
        self.tick();
        self.quirks.set(mode)
    }

    fn append_before_sibling(&self, sibling: &AHandle, new_node: NodeOrText<AHandle>) {
        self.tick();
        self.touch("append_before_sibling", sibling);
        self.do_before("append_before_sibling", sibling.idx, new_node)
    }

    fn add_attrs_if_missing(&self, target: &AHandle, attrs: Vec<Attribute>) {
        self.tick();
        self.touch("add_attrs_if_missing", target);
        if Self::dup_attrs(&attrs) {
            self.breach("add_attrs_if_missing-duplicate-attribute");
        }
        let mut n = self.nodes.borrow_mut();
        match n[target.idx].data {
            AData::Element { attrs: ref mut existing, .. } => {
                for a in attrs {
                    if !existing.iter().any(|(q, _)| *q == a.name) {
                        existing.push((a.name, a.value.to_string()));
                    }
                }
            },
            _ => {
                drop(n);
                self.breach("add_attrs_if_missing-non-element")
            },
        }
    }

    fn associate_with_form(&self, target: &AHandle, form: &AHandle, nodes: (&AHandle, Option<&AHandle>)) {
        self.tick();
        self.touch("associate_with_form", target);
        self.touch("associate_with_form", form);
        self.touch("associate_with_form", nodes.0);
        if let Some(p) = nodes.1 {
            self.touch("associate_with_form", p);
        }
        if !self.is_element(target.idx)
            || !self.is_element(form.idx)
            || !self.is_element(nodes.0.idx)
            || nodes.1.map_or(false, |p| !self.is_element(p.idx))
        {
            self.breach("associate_with_form-non-element");
        }
    }

    fn remove_from_parent(&self, target: &AHandle) {
        self.tick();
        self.touch("remove_from_parent", target);
        self.detach(target.idx)
    }

    fn reparent_children(&self, node: &AHandle, new_parent: &AHandle) {
        self.tick();
        self.touch("reparent_children", node);
        self.touch("reparent_children", new_parent);
        if !self.is_container(new_parent.idx) || !self.is_container(node.idx) {
            self.breach("reparent_children-parent-not-container");
            return;
        }
        if self.anc_or_self(node.idx, new_parent.idx) {
            self.breach("reparent_children-cycle");
            return;
        }
        let mut n = self.nodes.borrow_mut();
        let ks = std::mem::take(&mut n[node.idx].children);
        for &k in &ks {
            n[k].parent = Some(new_parent.idx);
        }
        n[new_parent.idx].children.extend(ks);
    }

    fn is_mathml_annotation_xml_integration_point(&self, handle: &AHandle) -> bool {
        self.tick();
        self.touch("is_mathml_annotation_xml_integration_point", handle);
        match self.nodes.borrow()[handle.idx].data {
            AData::Element { mathml_ip, .. } => mathml_ip,
            _ => {
                self.breaches.borrow_mut().push(format!(
                    "{}:is_mathml_annotation_xml_integration_point-non-element",
                    self.calls.get().saturating_sub(1)
                ));
                false
            },
        }
    }

    fn set_current_line(&self, _line_number: u64) {
        self.tick();
    }

    fn allow_declarative_shadow_roots(&self, intended_parent: &AHandle) -> bool {
        self.tick();
        self.touch("allow_declarative_shadow_roots", intended_parent);
        true
    }

    fn attach_declarative_shadow(&self, location: &AHandle, template: &AHandle, _attrs: &[Attribute]) -> bool {
        self.tick();
        self.touch("attach_declarative_shadow", location);
        self.touch("attach_declarative_shadow", template);
        if !self.is_element(location.idx) {
            self.breach("attach_declarative_shadow-non-element");
        } else if self.nodes.borrow()[template.idx].tmpl.is_none() {
            self.breach("attach_declarative_shadow-non-template");
        } else if Self::dup_attrs(_attrs) {
            self.breach("attach_declarative_shadow-duplicate-attribute");
        }
        false
    }

    fn maybe_clone_an_option_into_selectedcontent(&self, option: &AHandle) {
        self.tick();
        self.touch("maybe_clone_an_option_into_selectedcontent", option);
        if !self.is_element(option.idx) {
            self.breach("maybe_clone_an_option_into_selectedcontent-non-element");
        }
    }
}

// ------------------------------------------------------------------ canonical tree text
/// the forest text of `harness/src/bin/rcdom.rs` / `ocaml/rcdom_driver.ml`: the document and
/// every numbered parentless node that is not a fragment
pub fn arena_forest(nodes: &[ANode]) -> String {
    fn name(nodes: &[ANode], i: usize) -> String {
        nodes[i].hid.map(|h| h.to_string()).unwrap_or("-".into())
    }
    fn print(out: &mut String, nodes: &[ANode], i: usize, depth: usize) {
        if depth > 4000 {
            out.push_str("(TOO-DEEP)");
            return;
        }
        match &nodes[i].data {
            AData::Document | AData::Fragment => {
                out.push_str("(doc ");
                out.push_str(&name(nodes, i));
            },
            AData::Doctype(n, p, s) => out.push_str(&format!("(doctype {} {} {}", esc(n), esc(p), esc(s))),
            AData::Text(t) => out.push_str(&format!("(text {}", esc(t))),
            AData::Comment(t) => out.push_str(&format!("(comment {} {}", name(nodes, i), esc(t))),
            AData::Pi(t, d) => out.push_str(&format!("(pi {} {} {}", name(nodes, i), esc(t), esc(d))),
            AData::Element { name: q, attrs, mathml_ip } => {
                out.push_str(&format!(
                    "(elem {} {} {} {}",
                    name(nodes, i),
                    fmt_qname(q),
                    if *mathml_ip { "m" } else { "-" },
                    fmt_attrs(attrs.iter().map(|(q, v)| (q, &v[..])))
                ));
                if let Some(t) = nodes[i].tmpl {
                    out.push_str(" tmpl ");
                    print(out, nodes, t, depth + 1);
                }
            },
        }
        for &c in &nodes[i].children {
            out.push(' ');
            print(out, nodes, c, depth + 1);
        }
        out.push(')');
    }
    // roots in handle-number order, as the other two printers list them
    let mut roots: Vec<(usize, usize)> = nodes
        .iter()
        .enumerate()
        .filter(|(i, n)| {
            *i != 0 && n.hid.is_some() && n.parent.is_none() && !matches!(n.data, AData::Fragment | AData::Document)
        })
        .map(|(i, n)| (n.hid.unwrap(), i))
        .collect();
    roots.sort();
    let mut out = String::new();
    print(&mut out, nodes, 0, 0);
    for (_, r) in roots {
        out.push(' ');
        print(&mut out, nodes, r, 0);
    }
    out
}
