//! Dump the COMPILED `web_atoms::NAMED_ENTITIES` phf map (what the char-ref
//! tokenizer really looks names up in, i.e. after build.rs's prefix closure)
//! and `web_atoms::C1_REPLACEMENTS`, one entry per line, code points decimal:
//!   N <number of map entries>
//!   E <cp> <cp> ... | <c1> <c2>        (key "" prints as "E | 0 0")
//!   C <index 0..31> <cp or ->
//! Consumed by gen/gen_entities.py.
use std::io::{self, Write};

fn main() {
    let out = io::stdout();
    let mut out = io::BufWriter::new(out.lock());
    let map = &web_atoms::NAMED_ENTITIES;
    writeln!(out, "N {}", map.len()).unwrap();
    let mut rows: Vec<(&str, (u32, u32))> = map.entries().map(|(k, v)| (*k, *v)).collect();
    rows.sort();
    for (k, (c1, c2)) in rows {
        // every dumped row is also looked up through the public `get`, so a
        // broken hash function / displaced entry shows up here
        let via_get = map.get(k).copied();
        assert_eq!(via_get, Some((c1, c2)), "phf get disagrees with entries() for {:?}", k);
        write!(out, "E").unwrap();
        for ch in k.chars() {
            write!(out, " {}", ch as u32).unwrap();
        }
        writeln!(out, " | {} {}", c1, c2).unwrap();
    }
    writeln!(out, "L {}", web_atoms::C1_REPLACEMENTS.len()).unwrap();
    for (i, c) in web_atoms::C1_REPLACEMENTS.iter().enumerate() {
        match c {
            Some(c) => writeln!(out, "C {} {}", i, *c as u32).unwrap(),
            None => writeln!(out, "C {} -", i).unwrap(),
        }
    }
}
