//! TreeSink-boundary monitor driver for C05 / C06 / C18.  One case per stdin line, one result line per case.
//!
//!   P html FLAGS - -    STR(chunk)...      parse a document with html5ever
//!   P frag FLAGS CTX F  STR(chunk)...      parse a fragment; CTX = html:NAME | svg:NAME | math:NAME,
//!                                          F = f (hand a `form` element to parse_fragment_for_element) or -
//!   P xml  FLAGS - -    STR(chunk)...      parse with xml5ever
//!   R <calls joined by " ; ">             replay a (possibly contract-breaking) call sequence into the arena sink;
//!                                          prints the same fields (differential test of the Coq monitor's glue)
//! FLAGS: any of  s scripting_enabled, d drop_doctype, i iframe_srcdoc, q / l initial quirks / limited quirks,
//!        e exact_errors, n no suspension points (one `feed` loop as Parser::process does), or -.
//!
//! Every case is parsed twice, chunk by chunk, driving `tokenizer.feed` by hand so that the tree builder's
//! `trace_handles` can be called at every point where parsing is suspended (after every return of `feed`:
//! end of a chunk, script pause, encoding indicator) and once more before `end()`:
//!   1. into `TraceSink<ArenaSink>` (harness/src/monitor.rs): never panics, simulates a collector at the
//!      suspension points and reports later uses of collected nodes;
//!   2. into `TraceSink<RcDom>`.
//! The trace lists every TreeSink call (queries included) plus one marker line per suspension point:
//!   #suspend H H H ...      the handles reported by trace_handles, in call order
//!
//! Output:  A <trace> |AT| <forest> |AG| ok|<findings> |AM| ok|<breaches> |AS| <collected per suspension>
//!          |AR| <nodes per suspension that survive only thanks to a traced handle other than the Document>
//!          |R| <trace> |RT| <forest>
//! where a panicking run prints `PANIC <message>` instead of its trace and `-` for its forest, and the
//! RcDom run prints `=` for a trace / forest that equals the arena run's.
use html5ever::tendril::StrTendril;
use html5ever::tokenizer::TokenizerOpts;
use html5ever::tree_builder::{create_element, QuirksMode, Tracer, TreeBuilderOpts, TreeSink};
use html5ever::{ns, LocalName, ParseOpts, QualName};
use markup5ever::TokenizerResult;
use markup5ever_rcdom::{Handle, Node, NodeData, RcDom};
use std::cell::RefCell;
use std::collections::HashMap;
use std::io::{self, BufRead, Write};
use std::panic::{catch_unwind, AssertUnwindSafe};
use std::rc::Rc;
use verif_harness::monitor::{arena_forest, AHandle, ArenaSink};
use verif_harness::tracesink::{esc, fmt_attrs, fmt_qname, parse_trace, unesc, Replayer, TraceOutput, TraceSink, Traced};

thread_local! {
    static LAST_PANIC: RefCell<String> = RefCell::new(String::new());
}

struct Case {
    kind: String,
    flags: String,
    ctx: String,
    form: bool,
    chunks: Vec<String>,
}

fn parse_case(line: &str) -> Result<Case, String> {
    let ws: Vec<&str> = line.split_whitespace().collect();
    if ws.len() < 5 || ws[0] != "P" {
        return Err("bad case".into());
    }
    let mut chunks = vec![];
    for w in &ws[5..] {
        chunks.push(unesc(w)?);
    }
    Ok(Case { kind: ws[1].into(), flags: ws[2].into(), ctx: ws[3].into(), form: ws[4] == "f", chunks })
}

struct Collector<H> {
    v: RefCell<Vec<Traced<H>>>,
}

impl<H: Clone> Tracer for Collector<H> {
    type Handle = Traced<H>;
    fn trace_handle(&self, node: &Traced<H>) {
        self.v.borrow_mut().push(node.clone());
    }
}

fn html_opts(flags: &str) -> ParseOpts {
    ParseOpts {
        tokenizer: TokenizerOpts { exact_errors: flags.contains('e'), ..Default::default() },
        tree_builder: TreeBuilderOpts {
            exact_errors: flags.contains('e'),
            scripting_enabled: flags.contains('s'),
            iframe_srcdoc: flags.contains('i'),
            drop_doctype: flags.contains('d'),
            quirks_mode: if flags.contains('q') {
                QuirksMode::Quirks
            } else if flags.contains('l') {
                QuirksMode::LimitedQuirks
            } else {
                QuirksMode::NoQuirks
            },
        },
    }
}

fn marker<S: TreeSink>(sink: &TraceSink<S>, traced: &[Traced<S::Handle>]) {
    let mut s = String::from("#suspend");
    for t in traced {
        s.push(' ');
        s.push_str(&t.id.to_string());
    }
    sink.log.borrow_mut().push(s);
}

/// html5ever, document or fragment; `hook` runs at every suspension point after the marker is logged
fn drive_html<S: TreeSink>(
    sink: TraceSink<S>,
    case: &Case,
    hook: &dyn Fn(&TraceSink<S>, &[Traced<S::Handle>]),
) -> TraceOutput<S>
where
    S::Handle: Clone,
{
    let opts = html_opts(&case.flags);
    let suspend = !case.flags.contains('n');
    let parser = if case.kind == "frag" {
        let (nsab, local) = case.ctx.split_once(':').unwrap_or(("html", "div"));
        let nsv = match nsab {
            "svg" => ns!(svg),
            "math" => ns!(mathml),
            _ => ns!(html),
        };
        let ctx = create_element(&sink, QualName::new(None, nsv, LocalName::from(local)), vec![]);
        let form = if case.form {
            Some(create_element(&sink, QualName::new(None, ns!(html), LocalName::from("form")), vec![]))
        } else {
            None
        };
        html5ever::driver::parse_fragment_for_element(sink, opts, ctx, case.flags.contains('s'), form)
    } else {
        html5ever::parse_document(sink, opts)
    };
    let at_suspension = |p: &html5ever::driver::Parser<TraceSink<S>>| {
        if !suspend {
            return;
        }
        let c = Collector { v: RefCell::new(vec![]) };
        p.tokenizer.sink.trace_handles(&c);
        let traced = c.v.into_inner();
        marker(&p.tokenizer.sink.sink, &traced);
        hook(&p.tokenizer.sink.sink, &traced);
    };
    // a collection may already run before the first chunk arrives
    at_suspension(&parser);
    for ch in &case.chunks {
        parser.input_buffer.push_back(StrTendril::from(&ch[..]));
        loop {
            let r = parser.tokenizer.feed(&parser.input_buffer);
            let done = matches!(r, TokenizerResult::Done);
            // a script handle returned by the pause is dropped here: the embedder's business
            drop(r);
            at_suspension(&parser);
            if done {
                break;
            }
        }
    }
    assert!(parser.input_buffer.is_empty(), "harness: input left over");
    parser.tokenizer.end();
    parser.tokenizer.sink.sink.finish()
}

fn drive_xml<S: TreeSink>(
    sink: TraceSink<S>,
    case: &Case,
    hook: &dyn Fn(&TraceSink<S>, &[Traced<S::Handle>]),
) -> TraceOutput<S>
where
    S::Handle: Clone,
{
    let suspend = !case.flags.contains('n');
    let opts = xml5ever::driver::XmlParseOpts {
        tokenizer: xml5ever::tokenizer::XmlTokenizerOpts { exact_errors: case.flags.contains('e'), ..Default::default() },
        tree_builder: Default::default(),
    };
    let parser = xml5ever::driver::parse_document(sink, opts);
    let at_suspension = |p: &xml5ever::driver::XmlParser<TraceSink<S>>| {
        if !suspend {
            return;
        }
        let c = Collector { v: RefCell::new(vec![]) };
        p.tokenizer.sink.trace_handles(&c);
        let traced = c.v.into_inner();
        marker(&p.tokenizer.sink.sink, &traced);
        hook(&p.tokenizer.sink.sink, &traced);
    };
    at_suspension(&parser);
    for ch in &case.chunks {
        parser.input_buffer.push_back(StrTendril::from(&ch[..]));
        loop {
            let r = parser.tokenizer.feed(&parser.input_buffer);
            let done = !matches!(r, TokenizerResult::Script(_));
            drop(r);
            at_suspension(&parser);
            if done {
                break;
            }
        }
    }
    parser.tokenizer.end();
    parser.tokenizer.sink.sink.finish()
}

// ------------------------------------------------------------------ RcDom forest (text of bin/rcdom.rs)
struct Ids(HashMap<*const Node, usize>);

impl Ids {
    fn of(handles: &[Handle]) -> Ids {
        let mut m = HashMap::new();
        for (i, h) in handles.iter().enumerate() {
            m.entry(Rc::as_ptr(h)).or_insert(i);
        }
        Ids(m)
    }
    fn name(&self, h: &Handle) -> String {
        match self.0.get(&Rc::as_ptr(h)) {
            Some(i) => i.to_string(),
            None => "-".into(),
        }
    }
}

fn has_parent(h: &Handle) -> bool {
    let w = h.parent.take();
    let r = w.is_some();
    h.parent.set(w);
    r
}

fn print_node(out: &mut String, ids: &Ids, h: &Handle, depth: usize) {
    if depth > 4000 {
        out.push_str("(TOO-DEEP)");
        return;
    }
    match &h.data {
        NodeData::Document => {
            out.push_str("(doc ");
            out.push_str(&ids.name(h));
        },
        NodeData::Doctype { name, public_id, system_id } => {
            out.push_str(&format!("(doctype {} {} {}", esc(name), esc(public_id), esc(system_id)));
        },
        NodeData::Text { contents } => {
            out.push_str(&format!("(text {}", esc(&contents.borrow())));
        },
        NodeData::Comment { contents } => {
            out.push_str(&format!("(comment {} {}", ids.name(h), esc(contents)));
        },
        NodeData::ProcessingInstruction { target, contents } => {
            out.push_str(&format!("(pi {} {} {}", ids.name(h), esc(target), esc(contents)));
        },
        NodeData::Element { name, attrs, template_contents, mathml_annotation_xml_integration_point } => {
            out.push_str(&format!(
                "(elem {} {} {} {}",
                ids.name(h),
                fmt_qname(name),
                if *mathml_annotation_xml_integration_point { "m" } else { "-" },
                fmt_attrs(attrs.borrow().iter().map(|a| (&a.name, &a.value[..])))
            ));
            if let Some(t) = template_contents.borrow().as_ref() {
                out.push_str(" tmpl ");
                print_node(out, ids, t, depth + 1);
            }
        },
    }
    for c in h.children.borrow().iter() {
        out.push(' ');
        print_node(out, ids, c, depth + 1);
    }
    out.push(')');
}

fn rcdom_forest(dom: &RcDom, handles: &[Handle]) -> String {
    let ids = Ids::of(handles);
    let mut out = String::new();
    print_node(&mut out, &ids, &dom.document, 0);
    for h in handles.iter().skip(1) {
        if !has_parent(h) && !matches!(h.data, NodeData::Document) {
            out.push(' ');
            print_node(&mut out, &ids, h, 0);
        }
    }
    out
}

// ------------------------------------------------------------------ the two runs
fn last_panic() -> String {
    LAST_PANIC.with(|p| p.borrow().clone())
}

fn run_arena(case: &Case) -> String {
    let r = catch_unwind(AssertUnwindSafe(|| {
        let sink = TraceSink::new(ArenaSink::default()).with_queries(true).with_kept_handles(false);
        let hook = |s: &TraceSink<ArenaSink>, traced: &[Traced<AHandle>]| {
            let idxs: Vec<usize> = traced.iter().map(|t| t.inner.idx).collect();
            for t in traced {
                // the wrapper's numbering and the arena's own must agree
                if s.inner.hid_of(t.inner.idx) != Some(t.id) {
                    s.inner.breaches.borrow_mut().push(format!("harness:handle-numbering-{}", t.id));
                }
            }
            s.inner.collect(&idxs);
        };
        let out = if case.kind == "xml" { drive_xml(sink, case, &hook) } else { drive_html(sink, case, &hook) };
        let a = out.output;
        let j = |v: &Vec<String>| if v.is_empty() { "ok".to_string() } else { v.join(" ") };
        format!(
            "{} |AT| {} |AG| {} |AM| {} |AS| {} |AR| {}",
            out.log.join(" ; "),
            arena_forest(&a.nodes),
            j(&a.gc_findings),
            j(&a.breaches),
            a.collected_at.iter().map(|k| k.to_string()).collect::<Vec<_>>().join(","),
            a.rescued_at.iter().map(|k| k.to_string()).collect::<Vec<_>>().join(",")
        )
    }));
    match r {
        Ok(s) => s,
        Err(_) => format!("PANIC {} |AT| - |AG| - |AM| - |AS| - |AR| -", esc(&last_panic())),
    }
}

fn run_rcdom(case: &Case) -> String {
    let r = catch_unwind(AssertUnwindSafe(|| {
        let sink = TraceSink::new(RcDom::default()).with_queries(true);
        let hook = |_: &TraceSink<RcDom>, _: &[Traced<Handle>]| {};
        let out = if case.kind == "xml" { drive_xml(sink, case, &hook) } else { drive_html(sink, case, &hook) };
        format!("{} |RT| {}", out.log.join(" ; "), rcdom_forest(&out.output, &out.handles))
    }));
    match r {
        Ok(s) => s,
        Err(_) => format!("PANIC {} |RT| -", esc(&last_panic())),
    }
}

fn run_replay(trace: &str) -> String {
    let ops = match parse_trace(trace) {
        Ok(o) => o,
        Err(e) => return format!("BADTRACE {}", e),
    };
    let r = catch_unwind(AssertUnwindSafe(|| {
        let sink = ArenaSink::default();
        {
            let mut rp = Replayer::new(&sink);
            for op in ops.iter() {
                if let Err(e) = rp.step(op) {
                    return format!("BADTRACE {}", e);
                }
            }
        }
        let a = sink.finish();
        let j = |v: &Vec<String>| if v.is_empty() { "ok".to_string() } else { v.join(" ") };
        format!(
            "A {} |AT| {} |AG| ok |AM| {} |AS|  |AR|  |R| = |RT| =",
            trace,
            arena_forest(&a.nodes),
            j(&a.breaches)
        )
    }));
    match r {
        Ok(s) => s,
        Err(_) => format!("A PANIC {} |AT| - |AG| - |AM| - |AS| - |AR| - |R| = |RT| =", esc(&last_panic())),
    }
}

fn main() {
    std::panic::set_hook(Box::new(|info| {
        let msg = if let Some(s) = info.payload().downcast_ref::<&str>() {
            s.to_string()
        } else if let Some(s) = info.payload().downcast_ref::<String>() {
            s.clone()
        } else {
            "?".to_string()
        };
        let loc = info.location().map(|l| format!(" @{}:{}", l.file(), l.line())).unwrap_or_default();
        LAST_PANIC.with(|p| *p.borrow_mut() = format!("{}{}", msg, loc));
    }));
    let stdin = io::stdin();
    let out = io::stdout();
    let mut out = io::BufWriter::new(out.lock());
    for line in stdin.lock().lines() {
        let line = line.unwrap();
        if let Some(tr) = line.trim().strip_prefix("R ") {
            writeln!(out, "{}", run_replay(tr)).unwrap();
            continue;
        }
        match parse_case(line.trim()) {
            Err(e) => writeln!(out, "BADCASE {}", e).unwrap(),
            Ok(case) => {
                let a = run_arena(&case);
                let r = run_rcdom(&case);
                // the usual case: both sinks saw the same calls and built the same forest
                let (at, arest) = a.split_once(" |AT| ").unwrap();
                let aforest = arest.split(" |AG| ").next().unwrap();
                let (rt, rforest) = r.split_once(" |RT| ").unwrap();
                let r = format!(
                    "{} |RT| {}",
                    if rt == at { "=" } else { rt },
                    if rforest == aforest { "=" } else { rforest }
                );
                writeln!(out, "A {} |R| {}", a, r).unwrap()
            },
        }
    }
}
