//! whole-parser driver (html5ever / xml5ever with RcDom): chunked feeding, canonical tree dump.
//!   H|exact bom scripting dropdoctype srcdoc quirks(0-2)|ctx ("" or ns-abbrev:local)|chunk;chunk..
//!   X|exact bom|chunk;chunk..
use html5ever::tendril::{StrTendril, TendrilSink};
use html5ever::tokenizer::TokenizerOpts;
use html5ever::tree_builder::{QuirksMode, TreeBuilderOpts};
use html5ever::{ns, parse_document, parse_fragment, LocalName, ParseOpts, QualName};
use markup5ever_rcdom::RcDom;
use std::io::{self, BufRead, Write};
use std::panic::{catch_unwind, AssertUnwindSafe};
use verif_harness::treedump::dump;

fn parse_cps(s: &str) -> String {
    s.split_whitespace().map(|x| char::from_u32(x.parse::<u32>().unwrap()).unwrap()).collect()
}

fn run_case(line: &str) -> String {
    let f: Vec<&str> = line.split('|').collect();
    match f[0].trim() {
        "H" => {
            let fl: Vec<u8> = f[1].split_whitespace().map(|x| x.parse().unwrap()).collect();
            let opts = ParseOpts {
                tokenizer: TokenizerOpts { exact_errors: fl[0] == 1, discard_bom: fl[1] == 1, ..Default::default() },
                tree_builder: TreeBuilderOpts {
                    exact_errors: fl[0] == 1,
                    scripting_enabled: fl[2] == 1,
                    drop_doctype: fl[3] == 1,
                    iframe_srcdoc: fl[4] == 1,
                    quirks_mode: match fl[5] {
                        1 => QuirksMode::LimitedQuirks,
                        2 => QuirksMode::Quirks,
                        _ => QuirksMode::NoQuirks,
                    },
                },
            };
            let ctx = f[2].trim();
            let chunks: Vec<String> = f[3].split(';').map(parse_cps).collect();
            let mut parser = if ctx.is_empty() {
                parse_document(RcDom::default(), opts)
            } else {
                let (nsab, local) = ctx.split_once(':').unwrap();
                let nsv = match nsab {
                    "svg" => ns!(svg),
                    "math" => ns!(mathml),
                    _ => ns!(html),
                };
                parse_fragment(RcDom::default(), opts, QualName::new(None, nsv, LocalName::from(local)), vec![], true)
            };
            for c in chunks {
                parser.process(StrTendril::from(&*c));
            }
            let dom = parser.finish();
            format!("{} # quirks={:?} errors={}", dump(&dom.document), dom.quirks_mode.get(), dom.errors.borrow().len())
        },
        "X" => {
            let fl: Vec<u8> = f[1].split_whitespace().map(|x| x.parse().unwrap()).collect();
            let opts = xml5ever::driver::XmlParseOpts {
                tokenizer: xml5ever::tokenizer::XmlTokenizerOpts {
                    exact_errors: fl[0] == 1,
                    discard_bom: fl[1] == 1,
                    ..Default::default()
                },
                tree_builder: Default::default(),
            };
            let chunks: Vec<String> = f[2].split(';').map(parse_cps).collect();
            let mut parser = xml5ever::driver::parse_document(RcDom::default(), opts);
            for c in chunks {
                parser.process(StrTendril::from(&*c));
            }
            let dom = parser.finish();
            format!("{} # errors={}", dump(&dom.document), dom.errors.borrow().len())
        },
        _ => "BADCASE".into(),
    }
}

fn main() {
    std::panic::set_hook(Box::new(|_| {}));
    let stdin = io::stdin();
    let out = io::stdout();
    let mut out = io::BufWriter::new(out.lock());
    for line in stdin.lock().lines() {
        let line = line.unwrap();
        let r = catch_unwind(AssertUnwindSafe(|| run_case(&line))).unwrap_or_else(|_| "PANIC".into());
        writeln!(out, "{}", r).unwrap();
    }
}
