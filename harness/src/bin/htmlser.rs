//! C07 driver.  One case per line, one result line per case (fields separated by TAB).
//!
//! Tree description (prefix notation, space separated; `-` = empty string, otherwise hex of UTF-8):
//!   E <ns> <name> <nattrs> {<ns> <name> <value>} <nchildren> {node} | T <text> | C <text> | D <name> | P <target> <data>
//!   ns: h html, m mathml, s svg, x xlink, X xml, N xmlns, - none, o other
//!
//! `T <scripting> <node>`  builds the RcDom tree, prints
//!     1 serialize(IncludeNode)   2 serialize(ChildrenOnly(None))   3 serialize(ChildrenOnly(Some(root name)))  (hex)
//!     4 re-parse of 1 as a fragment in a `div`   5 re-parse of 2   (forest description: <count> {node})
//!     6 per element (pre-order): ns:name:outer:inner(named parent):inner(no parent)  joined by `,`
//! `H <scripting> <ctx> <hex html>`  parses (ctx `-` = document, else `ns:local` fragment context), prints
//!     0 description of the root `html` element, then the same six fields for it
//! `Q <scripting> <create_missing_parent> <scope i|n|ns:hexname> {call}`  HtmlSerializer driven directly:
//!     calls  s <ns> <name> <nattrs> {<ns> <name> <value>} | e <ns> <name> | t <x> | c <x> | d <x> | p <x> <y>
//! `W <attr 0|1> <hex text>`  write_escaped alone (a text node / one attribute value): the escaped bytes
//! `!` in place of a field = panic.
use html5ever::driver::{parse_document, parse_fragment, ParseOpts};
use html5ever::serialize::{serialize, HtmlSerializer, SerializeOpts, Serializer, TraversalScope};
use html5ever::tendril::{StrTendril, TendrilSink};
use html5ever::tokenizer::TokenizerOpts;
use html5ever::tree_builder::TreeBuilderOpts;
use html5ever::{ns, Attribute, LocalName, Namespace, QualName};
use markup5ever_rcdom::{Handle, Node, NodeData, RcDom, SerializableHandle};
use std::cell::RefCell;
use std::io::{self, BufRead, Write};
use std::panic::{catch_unwind, AssertUnwindSafe};

fn hex(b: &[u8]) -> String {
    if b.is_empty() {
        return "-".into();
    }
    b.iter().map(|x| format!("{:02x}", x)).collect()
}

fn unhex(s: &str) -> String {
    if s == "-" {
        return String::new();
    }
    let v: Vec<u8> = (0..s.len() / 2)
        .map(|i| u8::from_str_radix(&s[2 * i..2 * i + 2], 16).unwrap())
        .collect();
    String::from_utf8(v).expect("harness feeds valid utf-8 only")
}

fn ns_of(c: &str) -> Namespace {
    match c {
        "h" => ns!(html),
        "m" => ns!(mathml),
        "s" => ns!(svg),
        "x" => ns!(xlink),
        "X" => ns!(xml),
        "N" => ns!(xmlns),
        "-" => ns!(),
        _ => Namespace::from("urn:x-other"),
    }
}

fn ns_code(ns: &Namespace) -> &'static str {
    if *ns == ns!(html) {
        "h"
    } else if *ns == ns!(mathml) {
        "m"
    } else if *ns == ns!(svg) {
        "s"
    } else if *ns == ns!(xlink) {
        "x"
    } else if *ns == ns!(xml) {
        "X"
    } else if *ns == ns!(xmlns) {
        "N"
    } else if *ns == ns!() {
        "-"
    } else {
        "o"
    }
}

fn build(ws: &[&str], i: &mut usize) -> Handle {
    let k = ws[*i];
    *i += 1;
    match k {
        "E" => {
            let ns = ns_of(ws[*i]);
            let name = unhex(ws[*i + 1]);
            let na: usize = ws[*i + 2].parse().unwrap();
            *i += 3;
            let mut attrs = vec![];
            for _ in 0..na {
                attrs.push(Attribute {
                    name: QualName::new(None, ns_of(ws[*i]), LocalName::from(unhex(ws[*i + 1]))),
                    value: StrTendril::from(unhex(ws[*i + 2])),
                });
                *i += 3;
            }
            let nc: usize = ws[*i].parse().unwrap();
            *i += 1;
            let h = Node::new(NodeData::Element {
                name: QualName::new(None, ns, LocalName::from(name)),
                attrs: RefCell::new(attrs),
                template_contents: RefCell::new(None),
                mathml_annotation_xml_integration_point: false,
            });
            for _ in 0..nc {
                let c = build(ws, i);
                c.parent.set(Some(std::rc::Rc::downgrade(&h)));
                h.children.borrow_mut().push(c);
            }
            h
        },
        "T" => {
            *i += 1;
            Node::new(NodeData::Text {
                contents: RefCell::new(StrTendril::from(unhex(ws[*i - 1]))),
            })
        },
        "C" => {
            *i += 1;
            Node::new(NodeData::Comment {
                contents: StrTendril::from(unhex(ws[*i - 1])),
            })
        },
        "D" => {
            *i += 1;
            Node::new(NodeData::Doctype {
                name: StrTendril::from(unhex(ws[*i - 1])),
                public_id: StrTendril::new(),
                system_id: StrTendril::new(),
            })
        },
        "P" => {
            *i += 2;
            Node::new(NodeData::ProcessingInstruction {
                target: StrTendril::from(unhex(ws[*i - 2])),
                contents: StrTendril::from(unhex(ws[*i - 1])),
            })
        },
        _ => panic!("bad node kind"),
    }
}

fn describe(h: &Handle, out: &mut Vec<String>) {
    match h.data {
        NodeData::Document => panic!("document inside"),
        NodeData::Doctype { ref name, .. } => {
            out.push("D".into());
            out.push(hex(name.as_bytes()));
        },
        NodeData::Text { ref contents } => {
            out.push("T".into());
            out.push(hex(contents.borrow().as_bytes()));
        },
        NodeData::Comment { ref contents } => {
            out.push("C".into());
            out.push(hex(contents.as_bytes()));
        },
        NodeData::ProcessingInstruction {
            ref target,
            ref contents,
        } => {
            out.push("P".into());
            out.push(hex(target.as_bytes()));
            out.push(hex(contents.as_bytes()));
        },
        NodeData::Element {
            ref name, ref attrs, ..
        } => {
            out.push("E".into());
            out.push(ns_code(&name.ns).into());
            out.push(hex(name.local.as_bytes()));
            out.push(attrs.borrow().len().to_string());
            for a in attrs.borrow().iter() {
                out.push(ns_code(&a.name.ns).into());
                out.push(hex(a.name.local.as_bytes()));
                out.push(hex(a.value.as_bytes()));
            }
            out.push(h.children.borrow().len().to_string());
            for c in h.children.borrow().iter() {
                describe(c, out);
            }
        },
    }
}

fn ser(h: &Handle, scripting: bool, scope: TraversalScope) -> String {
    let r = catch_unwind(AssertUnwindSafe(|| {
        let mut buf: Vec<u8> = vec![];
        let sh: SerializableHandle = h.clone().into();
        serialize(
            &mut buf,
            &sh,
            SerializeOpts {
                scripting_enabled: scripting,
                traversal_scope: scope,
                create_missing_parent: false,
            },
        )
        .unwrap();
        buf
    }));
    match r {
        Ok(b) => hex(&b),
        Err(_) => "!".into(),
    }
}

fn opts(scripting: bool) -> ParseOpts {
    ParseOpts {
        tree_builder: TreeBuilderOpts {
            scripting_enabled: scripting,
            ..Default::default()
        },
        ..Default::default()
    }
}

/// the serialized text is already-decoded text, not a byte stream: no BOM sniffing on re-parse
fn reparse_opts(scripting: bool) -> ParseOpts {
    ParseOpts {
        tokenizer: TokenizerOpts {
            discard_bom: false,
            ..Default::default()
        },
        tree_builder: TreeBuilderOpts {
            scripting_enabled: scripting,
            ..Default::default()
        },
    }
}

/// parse `bytes` (hex) as a fragment in an HTML `div`; forest description of the root's children
fn reparse(hexs: &str, scripting: bool) -> String {
    if hexs == "!" {
        return "!".into();
    }
    let r = catch_unwind(AssertUnwindSafe(|| {
        let v: Vec<u8> = if hexs == "-" {
            vec![]
        } else {
            (0..hexs.len() / 2)
                .map(|i| u8::from_str_radix(&hexs[2 * i..2 * i + 2], 16).unwrap())
                .collect()
        };
        let s = match String::from_utf8(v) {
            Ok(s) => s,
            Err(_) => return "notutf8".to_string(),
        };
        let dom = parse_fragment(
            RcDom::default(),
            reparse_opts(scripting),
            QualName::new(None, ns!(html), LocalName::from("div")),
            vec![],
            scripting,
        )
        .one(s);
        let root = dom.document.children.borrow()[0].clone();
        let mut out = vec![root.children.borrow().len().to_string()];
        for c in root.children.borrow().iter() {
            describe(c, &mut out);
        }
        out.join(" ")
    }));
    r.unwrap_or_else(|_| "!".into())
}

fn elements(h: &Handle, scripting: bool, out: &mut Vec<String>) {
    if let NodeData::Element { ref name, .. } = h.data {
        let outer = ser(h, scripting, TraversalScope::IncludeNode);
        let inner = ser(h, scripting, TraversalScope::ChildrenOnly(Some(name.clone())));
        let inner0 = ser(h, scripting, TraversalScope::ChildrenOnly(None));
        out.push(format!(
            "{}:{}:{}:{}:{}",
            ns_code(&name.ns),
            hex(name.local.as_bytes()),
            outer,
            inner,
            inner0
        ));
    }
    for c in h.children.borrow().iter() {
        elements(c, scripting, out);
    }
}

fn six(root: &Handle, scripting: bool) -> String {
    let f1 = ser(root, scripting, TraversalScope::IncludeNode);
    let f2 = ser(root, scripting, TraversalScope::ChildrenOnly(None));
    let f3 = match root.data {
        NodeData::Element { ref name, .. } => {
            ser(root, scripting, TraversalScope::ChildrenOnly(Some(name.clone())))
        },
        _ => "-".into(),
    };
    let f4 = reparse(&f1, scripting);
    let f5 = reparse(&f2, scripting);
    let mut els = vec![];
    elements(root, scripting, &mut els);
    format!(
        "{}\t{}\t{}\t{}\t{}\t{}",
        f1,
        f2,
        f3,
        f4,
        f5,
        if els.is_empty() { "-".to_string() } else { els.join(",") }
    )
}

fn main() {
    std::panic::set_hook(Box::new(|_| {}));
    let stdin = io::stdin();
    let out = io::stdout();
    let mut out = io::BufWriter::new(out.lock());
    for line in stdin.lock().lines() {
        let line = line.unwrap();
        let ws: Vec<&str> = line.split_whitespace().collect();
        if ws.is_empty() {
            writeln!(out).unwrap();
            continue;
        }
        let r = catch_unwind(AssertUnwindSafe(|| -> String {
            match ws[0] {
                "T" => {
                    let scripting = ws[1] == "1";
                    let mut i = 2;
                    let root = build(&ws, &mut i);
                    six(&root, scripting)
                },
                "Q" => {
                    // the Serializer trait driven directly with an arbitrary call sequence
                    let scope = match ws[3] {
                        "i" => TraversalScope::IncludeNode,
                        "n" => TraversalScope::ChildrenOnly(None),
                        x => {
                            let (n, l) = x.split_once(':').unwrap();
                            TraversalScope::ChildrenOnly(Some(QualName::new(
                                None,
                                ns_of(n),
                                LocalName::from(unhex(l)),
                            )))
                        },
                    };
                    let mut s = HtmlSerializer::new(
                        Vec::<u8>::new(),
                        SerializeOpts {
                            scripting_enabled: ws[1] == "1",
                            traversal_scope: scope,
                            create_missing_parent: ws[2] == "1",
                        },
                    );
                    let mut i = 4;
                    while i < ws.len() {
                        let k = ws[i];
                        i += 1;
                        match k {
                            "s" => {
                                let name = QualName::new(None, ns_of(ws[i]), LocalName::from(unhex(ws[i + 1])));
                                let na: usize = ws[i + 2].parse().unwrap();
                                i += 3;
                                let mut attrs = vec![];
                                for _ in 0..na {
                                    attrs.push((
                                        QualName::new(None, ns_of(ws[i]), LocalName::from(unhex(ws[i + 1]))),
                                        unhex(ws[i + 2]),
                                    ));
                                    i += 3;
                                }
                                s.start_elem(name, attrs.iter().map(|(n, v)| (n, &v[..]))).unwrap();
                            },
                            "e" => {
                                s.end_elem(QualName::new(None, ns_of(ws[i]), LocalName::from(unhex(ws[i + 1]))))
                                    .unwrap();
                                i += 2;
                            },
                            "t" => {
                                s.write_text(&unhex(ws[i])).unwrap();
                                i += 1;
                            },
                            "c" => {
                                s.write_comment(&unhex(ws[i])).unwrap();
                                i += 1;
                            },
                            "d" => {
                                s.write_doctype(&unhex(ws[i])).unwrap();
                                i += 1;
                            },
                            "p" => {
                                s.write_processing_instruction(&unhex(ws[i]), &unhex(ws[i + 1])).unwrap();
                                i += 2;
                            },
                            _ => panic!("bad call"),
                        }
                    }
                    hex(&s.writer)
                },
                "W" => {
                    // write_escaped alone: a text node / one attribute value
                    let text = unhex(ws[2]);
                    if ws[1] == "0" {
                        let h = Node::new(NodeData::Text {
                            contents: RefCell::new(StrTendril::from(text)),
                        });
                        ser(&h, true, TraversalScope::IncludeNode)
                    } else {
                        let h = Node::new(NodeData::Element {
                            name: QualName::new(None, ns!(html), LocalName::from("a")),
                            attrs: RefCell::new(vec![Attribute {
                                name: QualName::new(None, ns!(), LocalName::from("v")),
                                value: StrTendril::from(text),
                            }]),
                            template_contents: RefCell::new(None),
                            mathml_annotation_xml_integration_point: false,
                        });
                        let o = ser(&h, true, TraversalScope::IncludeNode);
                        // strip `<a v="` and `"></a>`
                        let pre = "3c6120763d22";
                        let suf = "223e3c2f613e";
                        if o.starts_with(pre) && o.ends_with(suf) && o.len() >= pre.len() + suf.len() {
                            let m = &o[pre.len()..o.len() - suf.len()];
                            if m.is_empty() { "-".to_string() } else { m.to_string() }
                        } else {
                            format!("?{}", o)
                        }
                    }
                },
                "H" => {
                    let scripting = ws[1] == "1";
                    let html = unhex(ws[3]);
                    let dom = if ws[2] == "-" {
                        parse_document(RcDom::default(), opts(scripting)).one(html)
                    } else {
                        let (n, l) = ws[2].split_once(':').unwrap();
                        parse_fragment(
                            RcDom::default(),
                            opts(scripting),
                            QualName::new(None, ns_of(n), LocalName::from(l)),
                            vec![],
                            scripting,
                        )
                        .one(html)
                    };
                    let root = dom
                        .document
                        .children
                        .borrow()
                        .iter()
                        .find(|c| matches!(c.data, NodeData::Element { .. }))
                        .cloned()
                        .expect("no root element");
                    let mut d = vec![];
                    describe(&root, &mut d);
                    format!("{}\t{}", d.join(" "), six(&root, scripting))
                },
                _ => panic!("bad case"),
            }
        }));
        match r {
            Ok(s) => writeln!(out, "{}", s).unwrap(),
            Err(_) => writeln!(out, "!").unwrap(),
        }
    }
}
