//! C14 driver: the REAL html5ever tokenizer on texts containing character
//! references, in data / RCDATA / the three attribute-value contexts.
//! Same line protocol as ocaml/charref_driver.ml.
//!
//! case  :  CTX FLAGS | cp cp .. | cp cp .. | ..          (one body chunk per `|` group, decimal code points)
//!          CTX   D data, R RCDATA (initial_state RawData(Rcdata)), U / S / Q attribute value of `<a b=..>`
//!                unquoted / single / double quoted
//!          FLAGS two letters: c = the context is closed after the body (U: ">", S: "'>", Q: "\">"; D/R: nothing)
//!                             e = end of input right after the body ;  x = exact_errors on, - = off
//! output:  T cps.. | A cps.. or - | E codes.. | O n
//!          T  all character tokens (NullCharacterToken = 0), A value of attribute b of the first start tag,
//!          E  the character-reference parse errors in order:  S semicolon missing (numeric), D no digits,
//!             N invalid numeric (N:<num> with exact_errors), I invalid name (I:<cp,cp,..>), M no semicolon (named),
//!             F eof in numeric, H eof after '#',   O  number of other parse errors (not compared)
use html5ever::tendril::StrTendril;
use html5ever::tokenizer::states::{RawKind, State};
use html5ever::tokenizer::{
    BufferQueue, CharacterTokens, NullCharacterToken, ParseError, TagKind, TagToken, Token, TokenSink,
    TokenSinkResult, Tokenizer, TokenizerOpts,
};
use markup5ever::TokenizerResult;
use std::cell::RefCell;
use std::io::{self, BufRead, Write};
use std::panic::{catch_unwind, AssertUnwindSafe};

#[derive(Default)]
struct Rec {
    text: RefCell<Vec<u32>>,
    attr: RefCell<Option<Vec<u32>>>,
    errs: RefCell<Vec<String>>,
    other: RefCell<usize>,
}

fn classify(msg: &str) -> Option<String> {
    const NUMX: &str = "Invalid numeric character reference value 0x";
    const NAMEX: &str = "Invalid character reference &";
    Some(match msg {
        "Semicolon missing after numeric character reference" => "S".into(),
        "Numeric character reference without digits" => "D".into(),
        "Invalid numeric character reference" => "N".into(),
        "Invalid character reference" => "I".into(),
        "Character reference does not end with semicolon" => "M".into(),
        "EOF in numeric character reference" => "F".into(),
        "EOF after '#' in character reference" => "H".into(),
        m if m.starts_with(NUMX) => match u64::from_str_radix(&m[NUMX.len()..], 16) {
            Ok(n) => format!("N:{}", n),
            Err(_) => return None,
        },
        m if m.starts_with(NAMEX) => {
            let cps: Vec<String> = m[NAMEX.len()..].chars().map(|c| (c as u32).to_string()).collect();
            format!("I:{}", cps.join(","))
        },
        _ => return None,
    })
}

impl TokenSink for &Rec {
    type Handle = ();
    fn process_token(&self, token: Token, _line: u64) -> TokenSinkResult<()> {
        match token {
            CharacterTokens(s) => self.text.borrow_mut().extend(s.chars().map(|c| c as u32)),
            NullCharacterToken => self.text.borrow_mut().push(0),
            TagToken(tag) => {
                if tag.kind == TagKind::StartTag && self.attr.borrow().is_none() {
                    for a in tag.attrs.iter() {
                        if &*a.name.local == "b" {
                            *self.attr.borrow_mut() = Some(a.value.chars().map(|c| c as u32).collect());
                            break;
                        }
                    }
                }
            },
            ParseError(e) => match classify(&e) {
                Some(c) => self.errs.borrow_mut().push(c),
                None => *self.other.borrow_mut() += 1,
            },
            _ => {},
        }
        TokenSinkResult::Continue
    }
}

fn cps_to_tendril(ws: &[&str]) -> StrTendril {
    let mut t = StrTendril::new();
    for w in ws {
        let cp: u32 = w.parse().expect("code point");
        t.push_char(char::from_u32(cp).expect("harness feeds scalar values only"));
    }
    t
}

fn join(v: &[u32]) -> String {
    v.iter().map(|x| x.to_string()).collect::<Vec<_>>().join(" ")
}

fn run_case(line: &str) -> String {
    let groups: Vec<&str> = line.split('|').collect();
    let head: Vec<&str> = groups[0].split_whitespace().collect();
    let ctx = head[0];
    let flags = head[1].as_bytes();
    let closed = flags[0] == b'c';
    let exact = flags[1] == b'x';
    let rec = Rec::default();
    let opts = TokenizerOpts {
        exact_errors: exact,
        discard_bom: false,
        profile: false,
        initial_state: if ctx == "R" { Some(State::RawData(RawKind::Rcdata)) } else { None },
        last_start_tag_name: None,
    };
    let tok = Tokenizer::new(&rec, opts);
    let input = BufferQueue::default();
    let feed = |t: StrTendril| {
        if t.is_empty() {
            return;
        }
        input.push_back(t);
        loop {
            match tok.feed(&input) {
                TokenizerResult::Done => break,
                TokenizerResult::Script(_) | TokenizerResult::EncodingIndicator(_) => continue,
            }
        }
    };
    match ctx {
        "U" => feed(StrTendril::from("<a b=")),
        "S" => feed(StrTendril::from("<a b='")),
        "Q" => feed(StrTendril::from("<a b=\"")),
        "D" | "R" => {},
        _ => panic!("bad context"),
    }
    for g in &groups[1..] {
        let ws: Vec<&str> = g.split_whitespace().collect();
        feed(cps_to_tendril(&ws));
    }
    if closed {
        match ctx {
            "U" => feed(StrTendril::from(">")),
            "S" => feed(StrTendril::from("'>")),
            "Q" => feed(StrTendril::from("\">")),
            _ => {},
        }
    }
    tok.end();
    let attr = match &*rec.attr.borrow() {
        Some(v) => {
            if v.is_empty() {
                "".to_string()
            } else {
                join(v)
            }
        },
        None => "-".to_string(),
    };
    format!(
        "T {} | A {} | E {} | O {}",
        join(&rec.text.borrow()),
        attr,
        rec.errs.borrow().join(" "),
        rec.other.borrow()
    )
}

fn main() {
    std::panic::set_hook(Box::new(|_| {}));
    let stdin = io::stdin();
    let out = io::stdout();
    let mut out = io::BufWriter::new(out.lock());
    for line in stdin.lock().lines() {
        let line = line.unwrap();
        if line.trim().is_empty() {
            continue;
        }
        match catch_unwind(AssertUnwindSafe(|| run_case(&line))) {
            Ok(s) => writeln!(out, "{}", s).unwrap(),
            Err(_) => writeln!(out, "PANIC").unwrap(),
        }
    }
}
