//! Tokenizer driver (html5ever + xml5ever): same line protocol as ocaml/tok_driver.ml.
//! `tok dump-entities` prints the compiled NAMED_ENTITIES map and C1_REPLACEMENTS.
use html5ever::tendril::StrTendril;
use html5ever::tokenizer::states as hs;
use html5ever::tokenizer::{
    BufferQueue, Tag, TagKind, Token, TokenSink, TokenSinkResult, Tokenizer, TokenizerOpts,
};
use std::cell::RefCell;
use std::io::{self, BufRead, Write};
use std::panic::{catch_unwind, AssertUnwindSafe};
use xml5ever::tokenizer as xt;
use markup5ever::TokenizerResult;

fn cps(s: &str) -> String {
    if s.is_empty() {
        return "_".into();
    }
    s.chars().map(|c| (c as u32).to_string()).collect::<Vec<_>>().join(".")
}
fn ocps(s: &Option<StrTendril>) -> String {
    match s {
        None => "-".into(),
        Some(s) => cps(s),
    }
}
fn parse_cps(s: &str) -> String {
    s.split_whitespace().map(|x| char::from_u32(x.parse::<u32>().unwrap()).unwrap()).collect()
}

#[derive(Clone)]
enum Resp {
    Plaintext,
    Script,
    Encoding,
    Raw(hs::RawKind),
}
fn parse_resp(s: &str) -> Vec<(String, Resp)> {
    let mut v = vec![];
    for item in s.trim().split(',') {
        if let Some(i) = item.find('=') {
            let name = item[..i].to_string();
            let r = &item[i + 1..];
            let resp = match r.as_bytes()[0] {
                b'P' => Resp::Plaintext,
                b'S' => Resp::Script,
                b'E' => Resp::Encoding,
                b'R' => Resp::Raw(match &r[1..] {
                    "rcdata" => hs::RawKind::Rcdata,
                    "rawtext" => hs::RawKind::Rawtext,
                    "script" => hs::RawKind::ScriptData,
                    "escaped" => hs::RawKind::ScriptDataEscaped(hs::ScriptEscapeKind::Escaped),
                    "dblescaped" => hs::RawKind::ScriptDataEscaped(hs::ScriptEscapeKind::DoubleEscaped),
                    _ => panic!("kind"),
                }),
                _ => panic!("resp"),
            };
            v.push((name, resp));
        }
    }
    v
}

struct HSink {
    out: RefCell<Vec<String>>,
    resp: Vec<(String, Resp)>,
    foreign: bool,
}
impl TokenSink for HSink {
    type Handle = ();
    fn process_token(&self, token: Token, line: u64) -> TokenSinkResult<()> {
        let mut res = TokenSinkResult::Continue;
        let s = match token {
            Token::DoctypeToken(d) => {
                format!("D {} {} {} {}", ocps(&d.name), ocps(&d.public_id), ocps(&d.system_id), d.force_quirks as u8)
            },
            Token::TagToken(Tag { kind, name, self_closing, attrs, had_duplicate_attributes }) => {
                let mut s = format!(
                    "T {} {} {} {}",
                    if kind == TagKind::StartTag { "s" } else { "e" },
                    cps(&name),
                    self_closing as u8,
                    had_duplicate_attributes as u8
                );
                for a in attrs.iter() {
                    s.push_str(&format!(" {}={}", cps(&a.name.local), cps(&a.value)));
                }
                for (n, r) in self.resp.iter() {
                    if **n == *name {
                        let start = kind == TagKind::StartTag;
                        res = match r {
                            Resp::Plaintext if start => TokenSinkResult::Plaintext,
                            Resp::Script if !start => TokenSinkResult::Script(()),
                            Resp::Encoding if start => TokenSinkResult::EncodingIndicator(StrTendril::from("x")),
                            Resp::Raw(k) if start => TokenSinkResult::RawData(*k),
                            _ => TokenSinkResult::Continue,
                        };
                        break;
                    }
                }
                s
            },
            Token::CommentToken(c) => format!("C {}", cps(&c)),
            Token::CharacterTokens(c) => format!("S {}", cps(&c)),
            Token::NullCharacterToken => "0".into(),
            Token::EOFToken => "E".into(),
            Token::ParseError(_) => "!".into(),
        };
        self.out.borrow_mut().push(format!("{}@{}", s, line));
        res
    }
    fn adjusted_current_node_present_but_not_in_html_namespace(&self) -> bool {
        self.foreign
    }
}

fn hstate(s: &str) -> hs::State {
    use hs::AttrValueKind::*;
    use hs::DoctypeIdKind::*;
    use hs::RawKind::*;
    use hs::ScriptEscapeKind::*;
    use hs::State::*;
    match s {
        "Data" => Data,
        "Plaintext" => Plaintext,
        "TagOpen" => TagOpen,
        "EndTagOpen" => EndTagOpen,
        "TagName" => TagName,
        "RawData(Rcdata)" => RawData(Rcdata),
        "RawData(Rawtext)" => RawData(Rawtext),
        "RawData(ScriptData)" => RawData(ScriptData),
        "RawData(ScriptDataEscaped(Escaped))" => RawData(ScriptDataEscaped(Escaped)),
        "RawData(ScriptDataEscaped(DoubleEscaped))" => RawData(ScriptDataEscaped(DoubleEscaped)),
        "RawLessThanSign(Rcdata)" => RawLessThanSign(Rcdata),
        "RawLessThanSign(Rawtext)" => RawLessThanSign(Rawtext),
        "RawLessThanSign(ScriptData)" => RawLessThanSign(ScriptData),
        "RawLessThanSign(ScriptDataEscaped(Escaped))" => RawLessThanSign(ScriptDataEscaped(Escaped)),
        "RawLessThanSign(ScriptDataEscaped(DoubleEscaped))" => RawLessThanSign(ScriptDataEscaped(DoubleEscaped)),
        "RawEndTagOpen(Rcdata)" => RawEndTagOpen(Rcdata),
        "RawEndTagOpen(Rawtext)" => RawEndTagOpen(Rawtext),
        "RawEndTagOpen(ScriptData)" => RawEndTagOpen(ScriptData),
        "RawEndTagOpen(ScriptDataEscaped(Escaped))" => RawEndTagOpen(ScriptDataEscaped(Escaped)),
        "RawEndTagOpen(ScriptDataEscaped(DoubleEscaped))" => RawEndTagOpen(ScriptDataEscaped(DoubleEscaped)),
        "RawEndTagName(Rcdata)" => RawEndTagName(Rcdata),
        "RawEndTagName(Rawtext)" => RawEndTagName(Rawtext),
        "RawEndTagName(ScriptData)" => RawEndTagName(ScriptData),
        "RawEndTagName(ScriptDataEscaped(Escaped))" => RawEndTagName(ScriptDataEscaped(Escaped)),
        "RawEndTagName(ScriptDataEscaped(DoubleEscaped))" => RawEndTagName(ScriptDataEscaped(DoubleEscaped)),
        "ScriptDataEscapeStart(Escaped)" => ScriptDataEscapeStart(Escaped),
        "ScriptDataEscapeStart(DoubleEscaped)" => ScriptDataEscapeStart(DoubleEscaped),
        "ScriptDataEscapeStartDash" => ScriptDataEscapeStartDash,
        "ScriptDataEscapedDash(Escaped)" => ScriptDataEscapedDash(Escaped),
        "ScriptDataEscapedDash(DoubleEscaped)" => ScriptDataEscapedDash(DoubleEscaped),
        "ScriptDataEscapedDashDash(Escaped)" => ScriptDataEscapedDashDash(Escaped),
        "ScriptDataEscapedDashDash(DoubleEscaped)" => ScriptDataEscapedDashDash(DoubleEscaped),
        "ScriptDataDoubleEscapeEnd" => ScriptDataDoubleEscapeEnd,
        "BeforeAttributeName" => BeforeAttributeName,
        "AttributeName" => AttributeName,
        "AfterAttributeName" => AfterAttributeName,
        "BeforeAttributeValue" => BeforeAttributeValue,
        "AttributeValue(Unquoted)" => AttributeValue(Unquoted),
        "AttributeValue(SingleQuoted)" => AttributeValue(SingleQuoted),
        "AttributeValue(DoubleQuoted)" => AttributeValue(DoubleQuoted),
        "AfterAttributeValueQuoted" => AfterAttributeValueQuoted,
        "SelfClosingStartTag" => SelfClosingStartTag,
        "BogusComment" => BogusComment,
        "MarkupDeclarationOpen" => MarkupDeclarationOpen,
        "CommentStart" => CommentStart,
        "CommentStartDash" => CommentStartDash,
        "Comment" => Comment,
        "CommentLessThanSign" => CommentLessThanSign,
        "CommentLessThanSignBang" => CommentLessThanSignBang,
        "CommentLessThanSignBangDash" => CommentLessThanSignBangDash,
        "CommentLessThanSignBangDashDash" => CommentLessThanSignBangDashDash,
        "CommentEndDash" => CommentEndDash,
        "CommentEnd" => CommentEnd,
        "CommentEndBang" => CommentEndBang,
        "Doctype" => Doctype,
        "BeforeDoctypeName" => BeforeDoctypeName,
        "DoctypeName" => DoctypeName,
        "AfterDoctypeName" => AfterDoctypeName,
        "AfterDoctypeKeyword(Public)" => AfterDoctypeKeyword(Public),
        "AfterDoctypeKeyword(System)" => AfterDoctypeKeyword(System),
        "BeforeDoctypeIdentifier(Public)" => BeforeDoctypeIdentifier(Public),
        "BeforeDoctypeIdentifier(System)" => BeforeDoctypeIdentifier(System),
        "DoctypeIdentifierDoubleQuoted(Public)" => DoctypeIdentifierDoubleQuoted(Public),
        "DoctypeIdentifierDoubleQuoted(System)" => DoctypeIdentifierDoubleQuoted(System),
        "DoctypeIdentifierSingleQuoted(Public)" => DoctypeIdentifierSingleQuoted(Public),
        "DoctypeIdentifierSingleQuoted(System)" => DoctypeIdentifierSingleQuoted(System),
        "AfterDoctypeIdentifier(Public)" => AfterDoctypeIdentifier(Public),
        "AfterDoctypeIdentifier(System)" => AfterDoctypeIdentifier(System),
        "BetweenDoctypePublicAndSystemIdentifiers" => BetweenDoctypePublicAndSystemIdentifiers,
        "BogusDoctype" => BogusDoctype,
        "CdataSection" => CdataSection,
        "CdataSectionBracket" => CdataSectionBracket,
        "CdataSectionEnd" => CdataSectionEnd,
        _ => panic!("state {}", s),
    }
}

struct XSink {
    out: RefCell<Vec<String>>,
    resp: Vec<(String, Resp)>,
}
impl xt::TokenSink for XSink {
    type Handle = ();
    fn process_token(&self, token: xt::Token) -> xt::ProcessResult<()> {
        let mut res = xt::ProcessResult::Continue;
        let s = match token {
            xt::Token::Doctype(d) => format!("D {} {} {} 0", ocps(&d.name), ocps(&d.public_id), ocps(&d.system_id)),
            xt::Token::Tag(t) => {
                let qn = |q: &xml5ever::QualName| match &q.prefix {
                    Some(p) => format!("{}:{}", p, q.local),
                    None => q.local.to_string(),
                };
                let name = qn(&t.name);
                let mut s = format!(
                    "T {} {} 0 0",
                    match t.kind {
                        xt::TagKind::StartTag => "s",
                        xt::TagKind::EndTag => "e",
                        xt::TagKind::ShortTag => "h",
                        xt::TagKind::EmptyTag => "m",
                    },
                    cps(&name)
                );
                for a in t.attrs.iter() {
                    s.push_str(&format!(" {}={}", cps(&qn(&a.name)), cps(&a.value)));
                }
                for (n, r) in self.resp.iter() {
                    if *n == name {
                        if let (Resp::Script, xt::TagKind::EndTag) = (r, t.kind) {
                            res = xt::ProcessResult::Script(());
                        }
                        break;
                    }
                }
                s
            },
            xt::Token::ProcessingInstruction(p) => format!("P {} {}", cps(&p.target), cps(&p.data)),
            xt::Token::Comment(c) => format!("C {}", cps(&c)),
            xt::Token::Characters(c) => format!("S {}", cps(&c)),
            xt::Token::EndOfFile => "E".into(),
            xt::Token::NullCharacter => "0".into(),
            xt::Token::ParseError(_) => "!".into(),
        };
        self.out.borrow_mut().push(format!("{}@1", s));
        res
    }
}
fn xstate(s: &str) -> xml5ever::tokenizer::states::XmlState {
    use xml5ever::tokenizer::states::AttrValueKind::*;
    use xml5ever::tokenizer::states::DoctypeKind::*;
    use xml5ever::tokenizer::states::XmlState::*;
    match s {
        "Data" => Data,
        "TagState" => TagState,
        "EndTagState" => EndTagState,
        "EndTagName" => EndTagName,
        "EndTagNameAfter" => EndTagNameAfter,
        "Pi" => Pi,
        "PiTarget" => PiTarget,
        "PiTargetAfter" => PiTargetAfter,
        "PiData" => PiData,
        "PiAfter" => PiAfter,
        "MarkupDecl" => MarkupDecl,
        "CommentStart" => CommentStart,
        "CommentStartDash" => CommentStartDash,
        "Comment" => Comment,
        "CommentLessThan" => CommentLessThan,
        "CommentLessThanBang" => CommentLessThanBang,
        "CommentLessThanBangDash" => CommentLessThanBangDash,
        "CommentLessThanBangDashDash" => CommentLessThanBangDashDash,
        "CommentEnd" => CommentEnd,
        "CommentEndDash" => CommentEndDash,
        "CommentEndBang" => CommentEndBang,
        "Cdata" => Cdata,
        "CdataBracket" => CdataBracket,
        "CdataEnd" => CdataEnd,
        "TagName" => TagName,
        "TagEmpty" => TagEmpty,
        "TagAttrNameBefore" => TagAttrNameBefore,
        "TagAttrName" => TagAttrName,
        "TagAttrNameAfter" => TagAttrNameAfter,
        "TagAttrValueBefore" => TagAttrValueBefore,
        "TagAttrValue(Unquoted)" => TagAttrValue(Unquoted),
        "TagAttrValue(SingleQuoted)" => TagAttrValue(SingleQuoted),
        "TagAttrValue(DoubleQuoted)" => TagAttrValue(DoubleQuoted),
        "Doctype" => Doctype,
        "BeforeDoctypeName" => BeforeDoctypeName,
        "DoctypeName" => DoctypeName,
        "AfterDoctypeName" => AfterDoctypeName,
        "AfterDoctypeKeyword(Public)" => AfterDoctypeKeyword(Public),
        "AfterDoctypeKeyword(System)" => AfterDoctypeKeyword(System),
        "BeforeDoctypeIdentifier(Public)" => BeforeDoctypeIdentifier(Public),
        "BeforeDoctypeIdentifier(System)" => BeforeDoctypeIdentifier(System),
        "DoctypeIdentifierDoubleQuoted(Public)" => DoctypeIdentifierDoubleQuoted(Public),
        "DoctypeIdentifierDoubleQuoted(System)" => DoctypeIdentifierDoubleQuoted(System),
        "DoctypeIdentifierSingleQuoted(Public)" => DoctypeIdentifierSingleQuoted(Public),
        "DoctypeIdentifierSingleQuoted(System)" => DoctypeIdentifierSingleQuoted(System),
        "AfterDoctypeIdentifier(Public)" => AfterDoctypeIdentifier(Public),
        "AfterDoctypeIdentifier(System)" => AfterDoctypeIdentifier(System),
        "BetweenDoctypePublicAndSystemIdentifiers" => BetweenDoctypePublicAndSystemIdentifiers,
        "BogusDoctype" => BogusDoctype,
        "BogusComment" => BogusComment,
        _ => panic!("xml state {}", s),
    }
}

fn run_case(line: &str) -> String {
    let f: Vec<&str> = line.split('|').collect();
    if f.len() != 7 {
        return "BADCASE".into();
    }
    let flags: Vec<u8> = f[1].split_whitespace().map(|x| x.parse().unwrap()).collect();
    let (exact, bom, foreign) = (flags[0] == 1, flags[1] == 1, flags[2] == 1);
    let last = parse_cps(f[3]);
    let resp = parse_resp(f[4]);
    let inject = parse_cps(f[5]);
    let chunks: Vec<String> = f[6].split(';').map(parse_cps).collect();
    let mut log: Vec<String> = vec![];
    let html = f[0].trim() == "h";
    let out: Vec<String>;
    if html {
        let sink = HSink { out: RefCell::new(vec![]), resp, foreign };
        let opts = TokenizerOpts {
            exact_errors: exact,
            discard_bom: bom,
            profile: false,
            initial_state: Some(hstate(f[2].trim())),
            last_start_tag_name: if last.is_empty() { None } else { Some(last) },
        };
        let tok = Tokenizer::new(sink, opts);
        let queue = BufferQueue::default();
        let r = catch_unwind(AssertUnwindSafe(|| {
            for ch in chunks.iter() {
                queue.push_back(StrTendril::from(&**ch));
                let mut n = 0;
                loop {
                    n += 1;
                    if n > 50 {
                        log.push("PANIC96".into());
                        break;
                    }
                    match tok.feed(&queue) {
                        TokenizerResult::Done => {
                            log.push(if queue.is_empty() { "D".into() } else { "D-QUEUE-NOT-EMPTY".into() });
                            break;
                        },
                        TokenizerResult::Script(_) => {
                            log.push("S".into());
                            queue.push_front(StrTendril::from(&*inject));
                        },
                        TokenizerResult::EncodingIndicator(_) => log.push("N".into()),
                    }
                }
            }
            tok.end();
            log.push("D".into());
        }));
        if r.is_err() {
            log.push("PANIC".into());
        }
        out = tok.sink.out.borrow().clone();
    } else {
        let sink = XSink { out: RefCell::new(vec![]), resp };
        let opts = xt::XmlTokenizerOpts {
            exact_errors: exact,
            discard_bom: bom,
            profile: false,
            initial_state: Some(xstate(f[2].trim())),
        };
        let tok = xt::XmlTokenizer::new(sink, opts);
        let queue = BufferQueue::default();
        let r = catch_unwind(AssertUnwindSafe(|| {
            for ch in chunks.iter() {
                queue.push_back(StrTendril::from(&**ch));
                let mut n = 0;
                loop {
                    n += 1;
                    if n > 50 {
                        log.push("PANIC96".into());
                        break;
                    }
                    match tok.feed(&queue) {
                        TokenizerResult::Done => {
                            log.push(if queue.is_empty() { "D".into() } else { "D-QUEUE-NOT-EMPTY".into() });
                            break;
                        },
                        TokenizerResult::Script(_) => {
                            log.push("S".into());
                            queue.push_front(StrTendril::from(&*inject));
                        },
                        TokenizerResult::EncodingIndicator(_) => log.push("N".into()),
                    }
                }
            }
            tok.end();
            log.push("D".into());
        }));
        if r.is_err() {
            log.push("PANIC".into());
        }
        out = tok.sink.out.borrow().clone();
    }
    format!("{} # {}", out.join(" ; "), log.join(" "))
}

fn main() {
    let args: Vec<String> = std::env::args().collect();
    if args.len() > 1 && args[1] == "dump-entities" {
        let mut v: Vec<(&str, (u32, u32))> = markup5ever::data::NAMED_ENTITIES.entries().map(|(k, v)| (*k, *v)).collect();
        v.sort();
        for (k, (a, b)) in v {
            println!("E {} {} {}", k, a, b);
        }
        for (i, c) in markup5ever::data::C1_REPLACEMENTS.iter().enumerate() {
            if let Some(c) = c {
                println!("C {} {}", i, *c as u32);
            }
        }
        return;
    }
    std::panic::set_hook(Box::new(|_| {}));
    let stdin = io::stdin();
    let out = io::stdout();
    let mut out = io::BufWriter::new(out.lock());
    for line in stdin.lock().lines() {
        let line = line.unwrap();
        let r = catch_unwind(AssertUnwindSafe(|| run_case(&line))).unwrap_or_else(|_| "HARNESS-PANIC".into());
        writeln!(out, "{}", r).unwrap();
    }
}
