//! BufferQueue driver: same line protocol as ocaml/bq_driver.ml
use markup5ever::buffer_queue::{BufferQueue, SetResult};
use markup5ever::SmallCharSet;
use std::io::{self, BufRead, Write};
use std::panic::{catch_unwind, AssertUnwindSafe};
use tendril::StrTendril;

fn hex(b: &[u8]) -> String {
    b.iter().map(|x| format!("{:02x}", x)).collect()
}

fn main() {
    std::panic::set_hook(Box::new(|_| {}));
    let stdin = io::stdin();
    let out = io::stdout();
    let mut out = io::BufWriter::new(out.lock());
    for line in stdin.lock().lines() {
        let line = line.unwrap();
        let q = BufferQueue::default();
        let mut outs: Vec<String> = vec![];
        let mut dead = false;
        for opstr in line.split(';') {
            let ws: Vec<&str> = opstr.split_whitespace().collect();
            if ws.is_empty() {
                continue;
            }
            if dead {
                outs.push("!".into());
                continue;
            }
            let bytes = |from: usize| -> StrTendril {
                let v: Vec<u8> = ws[from..].iter().map(|x| x.parse::<u8>().unwrap()).collect();
                StrTendril::from(std::str::from_utf8(&v).expect("harness feeds valid utf-8 only"))
            };
            let r = catch_unwind(AssertUnwindSafe(|| -> String {
                match ws[0] {
                    "B" => {
                        q.push_back(bytes(2));
                        "u".into()
                    },
                    "F" => {
                        q.push_front(bytes(2));
                        "u".into()
                    },
                    "N" => match q.next() {
                        None => "-".into(),
                        Some(c) => format!("c{}", c as u32),
                    },
                    "P" => match q.peek() {
                        None => "-".into(),
                        Some(c) => format!("c{}", c as u32),
                    },
                    "X" => {
                        let set = SmallCharSet { bits: ws[1].parse::<u64>().unwrap() };
                        match q.pop_except_from(set) {
                            None => "-".into(),
                            Some(SetResult::FromSet(c)) => format!("s{}", c as u32),
                            Some(SetResult::NotFromSet(t)) => format!("r{}", hex(t.as_bytes())),
                        }
                    },
                    "E" => {
                        let pat = bytes(3);
                        let r = if ws[1] == "1" {
                            q.eat(&pat, u8::eq_ignore_ascii_case)
                        } else {
                            q.eat(&pat, |a, b| a == b)
                        };
                        match r {
                            None => "-".into(),
                            Some(true) => "t".into(),
                            Some(false) => "f".into(),
                        }
                    },
                    _ => panic!("bad op"),
                }
            }));
            match r {
                Ok(s) => outs.push(s),
                Err(_) => {
                    outs.push("!".into());
                    dead = true;
                },
            }
        }
        write!(out, "{} |", outs.join(" ")).unwrap();
        if !dead {
            while let Some(b) = q.pop_front() {
                write!(out, " {}", hex(b.as_bytes())).unwrap();
            }
        }
        writeln!(out).unwrap();
    }
}
