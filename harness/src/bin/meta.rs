//! C19 driver.  One case per line, one result line per case.
//!
//! `X <hex content>`
//!     the extraction alone: parses `<meta http-equiv=content-type content="...">`
//!     (content escaped so that the attribute value is exactly the given string) and
//!     prints `N` (no indicator), `S<hex label>` per indicator, `!` on panic.
//!     Same protocol as ocaml/meta_driver.ml.
//! `D <ctx> <scripting 0|1> <chunk lengths in chars, comma separated, or -> <hex doc> <hex neutral doc>`
//!     drives Tokenizer<TreeBuilder<RcDom>> by hand so that every TokenizerResult of every
//!     feed() is visible.  ctx is `-` (document) or `ns:local` (fragment context element).
//!     prints  events TAB final-metas TAB tree(hex) TAB neutral-tree(hex)
//!     events: `E<hex label>@<metas in the tree at that moment>` / `P` (script pause), joined by `;`
//!     metas : `ns:name/c<hex>|-/h<hex>|-/t<hex>|-` joined by `,` for every meta/link/base/basefont/bgsound
//!             element (document order, template contents included)
use html5ever::driver::{parse_document, parse_fragment, ParseOpts, Parser};
use html5ever::tendril::StrTendril;
use html5ever::TokenizerResult;
use html5ever::tree_builder::TreeBuilderOpts;
use html5ever::{ns, LocalName, Namespace, QualName};
use markup5ever_rcdom::{Handle, NodeData, RcDom};
use std::io::{self, BufRead, Write};
use std::panic::{catch_unwind, AssertUnwindSafe};

fn hex(b: &[u8]) -> String {
    b.iter().map(|x| format!("{:02x}", x)).collect()
}

fn unhex(s: &str) -> Vec<u8> {
    if s == "-" {
        return vec![];
    }
    (0..s.len() / 2)
        .map(|i| u8::from_str_radix(&s[2 * i..2 * i + 2], 16).unwrap())
        .collect()
}

fn nsname(ns: &Namespace) -> &'static str {
    if *ns == ns!(html) {
        "html"
    } else if *ns == ns!(svg) {
        "svg"
    } else if *ns == ns!(mathml) {
        "mathml"
    } else if *ns == ns!() {
        ""
    } else if *ns == ns!(xlink) {
        "xlink"
    } else if *ns == ns!(xml) {
        "xml"
    } else if *ns == ns!(xmlns) {
        "xmlns"
    } else {
        "other"
    }
}

fn metas(h: &Handle, out: &mut Vec<String>) {
    if let NodeData::Element {
        ref name,
        ref attrs,
        ref template_contents,
        ..
    } = h.data
    {
        // every element name handled by the in-head arm that contains `meta`
        if matches!(&*name.local, "meta" | "link" | "base" | "basefont" | "bgsound") {
            let get = |n: &str| -> String {
                for a in attrs.borrow().iter() {
                    if a.name.ns == ns!() && &*a.name.local == n {
                        return hex(a.value.as_bytes());
                    }
                }
                "-".to_string()
            };
            // a present-but-empty attribute prints as the empty hex string
            out.push(format!(
                "{}:{}/c{}/h{}/t{}",
                nsname(&name.ns),
                &*name.local,
                get("charset"),
                get("http-equiv"),
                get("content")
            ));
        }
        if let Some(t) = template_contents.borrow().as_ref() {
            metas(t, out);
        }
    }
    for c in h.children.borrow().iter() {
        metas(c, out);
    }
}

fn dump(h: &Handle, out: &mut String) {
    match h.data {
        NodeData::Document => out.push_str("#doc"),
        NodeData::Doctype {
            ref name,
            ref public_id,
            ref system_id,
        } => out.push_str(&format!(
            "<!{} {} {}>",
            hex(name.as_bytes()),
            hex(public_id.as_bytes()),
            hex(system_id.as_bytes())
        )),
        NodeData::Text { ref contents } => {
            out.push_str(&format!("\"{}\"", hex(contents.borrow().as_bytes())))
        },
        NodeData::Comment { ref contents } => {
            out.push_str(&format!("<!--{}-->", hex(contents.as_bytes())))
        },
        NodeData::ProcessingInstruction { .. } => out.push_str("<?>"),
        NodeData::Element {
            ref name,
            ref attrs,
            ref template_contents,
            ..
        } => {
            out.push_str(&format!("<{}:{}", nsname(&name.ns), &*name.local));
            for a in attrs.borrow().iter() {
                out.push_str(&format!(
                    " {}:{}={}",
                    nsname(&a.name.ns),
                    &*a.name.local,
                    hex(a.value.as_bytes())
                ));
            }
            out.push('>');
            if let Some(t) = template_contents.borrow().as_ref() {
                out.push('{');
                dump(t, out);
                out.push('}');
            }
        },
    }
    out.push('(');
    for c in h.children.borrow().iter() {
        dump(c, out);
    }
    out.push(')');
}

fn make(ctx: &str, scripting: bool) -> Parser<RcDom> {
    let opts = ParseOpts {
        tree_builder: TreeBuilderOpts {
            scripting_enabled: scripting,
            ..Default::default()
        },
        ..Default::default()
    };
    if ctx == "-" {
        parse_document(RcDom::default(), opts)
    } else {
        let (n, l) = ctx.split_once(':').unwrap();
        let ns = match n {
            "html" => ns!(html),
            "svg" => ns!(svg),
            "mathml" => ns!(mathml),
            _ => panic!("bad ns"),
        };
        parse_fragment(
            RcDom::default(),
            opts,
            QualName::new(None, ns, LocalName::from(l)),
            vec![],
            scripting,
        )
    }
}

/// feed the chunks one by one, calling feed() until Done after each; record every result
fn drive(parser: &Parser<RcDom>, chunks: &[String], events: &mut Vec<String>) {
    for ch in chunks {
        parser.input_buffer.push_back(StrTendril::from(ch.as_str()));
        let mut guard = 0;
        loop {
            guard += 1;
            if guard > 100000 {
                events.push("LOOP".into());
                break;
            }
            match parser.tokenizer.feed(&parser.input_buffer) {
                TokenizerResult::Done => break,
                TokenizerResult::Script(_) => events.push("P".into()),
                TokenizerResult::EncodingIndicator(l) => {
                    let mut m = vec![];
                    metas(&parser.tokenizer.sink.sink.document, &mut m);
                    events.push(format!("E{}@{}", hex(l.as_bytes()), m.join(",")));
                },
            }
        }
    }
    parser.tokenizer.end();
}

fn chunk(doc: &str, spec: &str) -> Vec<String> {
    if spec == "-" {
        return vec![doc.to_string()];
    }
    let chars: Vec<char> = doc.chars().collect();
    let mut out = vec![];
    let mut i = 0;
    for l in spec.split(',') {
        let l: usize = l.parse().unwrap();
        let j = (i + l).min(chars.len());
        out.push(chars[i..j].iter().collect::<String>());
        i = j;
    }
    if i < chars.len() {
        out.push(chars[i..].iter().collect::<String>());
    }
    out
}

fn escape_attr(s: &str) -> String {
    let mut o = String::new();
    for c in s.chars() {
        match c {
            '"' => o.push_str("&quot;"),
            '&' => o.push_str("&amp;"),
            '\r' => o.push_str("&#13;"),
            c => o.push(c),
        }
    }
    o
}

fn main() {
    std::panic::set_hook(Box::new(|_| {}));
    let stdin = io::stdin();
    let out = io::stdout();
    let mut out = io::BufWriter::new(out.lock());
    for line in stdin.lock().lines() {
        let line = line.unwrap();
        let ws: Vec<&str> = line.split_whitespace().collect();
        if ws.is_empty() {
            writeln!(out).unwrap();
            continue;
        }
        let r = catch_unwind(AssertUnwindSafe(|| -> String {
            match ws[0] {
                "X" => {
                    let content = String::from_utf8(unhex(ws.get(1).copied().unwrap_or("-")))
                        .expect("harness feeds valid utf-8 only");
                    let doc = format!(
                        "<meta http-equiv=content-type content=\"{}\">",
                        escape_attr(&content)
                    );
                    let parser = make("-", true);
                    let mut ev = vec![];
                    drive(&parser, &[doc], &mut ev);
                    if ev.is_empty() {
                        "N".into()
                    } else {
                        ev.iter()
                            .map(|e| {
                                if let Some(rest) = e.strip_prefix('E') {
                                    format!("S{}", rest.split('@').next().unwrap())
                                } else {
                                    e.clone()
                                }
                            })
                            .collect::<Vec<_>>()
                            .join("")
                    }
                },
                "D" => {
                    let ctx = ws[1];
                    let scripting = ws[2] == "1";
                    let doc = String::from_utf8(unhex(ws[4])).expect("valid utf-8");
                    let neutral = String::from_utf8(unhex(ws[5])).expect("valid utf-8");
                    let parser = make(ctx, scripting);
                    let mut ev = vec![];
                    drive(&parser, &chunk(&doc, ws[3]), &mut ev);
                    let mut fin = vec![];
                    metas(&parser.tokenizer.sink.sink.document, &mut fin);
                    let mut t1 = String::new();
                    dump(&parser.tokenizer.sink.sink.document, &mut t1);
                    let p2 = make(ctx, scripting);
                    let mut ev2 = vec![];
                    drive(&p2, &[neutral], &mut ev2);
                    let mut t2 = String::new();
                    dump(&p2.tokenizer.sink.sink.document, &mut t2);
                    let nev: Vec<&String> = ev2.iter().filter(|e| e.starts_with('E')).collect();
                    format!(
                        "{}\t{}\t{}\t{}\t{}",
                        if ev.is_empty() { "-".to_string() } else { ev.join(";") },
                        if fin.is_empty() { "-".to_string() } else { fin.join(",") },
                        t1,
                        t2,
                        nev.len()
                    )
                },
                _ => panic!("bad case"),
            }
        }));
        match r {
            Ok(s) => writeln!(out, "{}", s).unwrap(),
            Err(_) => writeln!(out, "!").unwrap(),
        }
    }
}
