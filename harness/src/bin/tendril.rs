//! Tendril driver (C11/C12): same line protocol as ocaml/tendril_driver.ml, executed on the
//! real crate, under a checking global allocator (live table, red zones, poisoned quarantine,
//! per-operation Alloc/Realloc/Free event log).
//!
//!   tendril                      histories from stdin, one per line
//!   tendril soak SEED ROUNDS     thread soak: clones / SendTendrils over 8 threads
use std::alloc::{GlobalAlloc, Layout, System};
use std::io::{self, BufRead, Write};
use std::panic::{catch_unwind, AssertUnwindSafe};
use std::sync::atomic::{AtomicBool, AtomicUsize, Ordering};
use tendril::fmt::{Bytes, Format, Latin1, ASCII, UTF8, WTF8};
use tendril::{Atomic, Atomicity, NonAtomic, SendTendril, SubtendrilError, Tendril};

// ---------------------------------------------------------------------------------------------
// checking allocator
// ---------------------------------------------------------------------------------------------
const RZ: usize = 32; // red zone on each side (keeps 16-byte alignment)
const RZ_BYTE: u8 = 0xA5;
const POISON: u8 = 0xDD;
const TCAP: usize = 1 << 18;
const QCAP: usize = 64;
const LOGCAP: usize = 4096;

#[derive(Clone, Copy)]
struct Entry {
    addr: usize, // user address, 0 = empty
    size: usize,
    flags: usize, // bit0 tagged (allocated while RECORDING), bit1 has red zones
}

static LOCK: AtomicBool = AtomicBool::new(false);
static RECORDING: AtomicBool = AtomicBool::new(false);
static mut TABLE: [Entry; TCAP] = [Entry { addr: 0, size: 0, flags: 0 }; TCAP];
static mut LOG: [(u8, usize); LOGCAP] = [(0, 0); LOGCAP];
static mut LOG_N: usize = 0;
static mut QUAR: [(usize, usize); QCAP] = [(0, 0); QCAP]; // (base address, total size), poisoned
static mut QUAR_I: usize = 0;
static LIVE_ALL: AtomicUsize = AtomicUsize::new(0);
static LIVE_BYTES: AtomicUsize = AtomicUsize::new(0);
static LIVE_TAGGED: AtomicUsize = AtomicUsize::new(0);
static ERR_UNKNOWN_FREE: AtomicUsize = AtomicUsize::new(0);
static ERR_SIZE: AtomicUsize = AtomicUsize::new(0);
static ERR_REDZONE: AtomicUsize = AtomicUsize::new(0);
static ERR_UAF: AtomicUsize = AtomicUsize::new(0);
static N_ALLOC: AtomicUsize = AtomicUsize::new(0);
static N_FREE: AtomicUsize = AtomicUsize::new(0);
static N_REALLOC: AtomicUsize = AtomicUsize::new(0);

struct Guard;
fn lock() -> Guard {
    while LOCK.compare_exchange_weak(false, true, Ordering::Acquire, Ordering::Relaxed).is_err() {
        std::hint::spin_loop();
    }
    Guard
}
impl Drop for Guard {
    fn drop(&mut self) {
        LOCK.store(false, Ordering::Release);
    }
}

#[inline]
fn slot_of(addr: usize) -> usize {
    (((addr >> 4) as u64).wrapping_mul(0x9E37_79B9_7F4A_7C15) >> (64 - 18)) as usize
}

unsafe fn t_insert(e: Entry) {
    let mut i = slot_of(e.addr);
    loop {
        if TABLE[i].addr == 0 {
            TABLE[i] = e;
            return;
        }
        i = (i + 1) & (TCAP - 1);
    }
}

unsafe fn t_find(addr: usize) -> Option<usize> {
    let mut i = slot_of(addr);
    loop {
        if TABLE[i].addr == addr {
            return Some(i);
        }
        if TABLE[i].addr == 0 {
            return None;
        }
        i = (i + 1) & (TCAP - 1);
    }
}

// linear probing with backward-shift deletion
unsafe fn t_remove(mut i: usize) {
    let mut j = i;
    loop {
        j = (j + 1) & (TCAP - 1);
        if TABLE[j].addr == 0 {
            break;
        }
        let k = slot_of(TABLE[j].addr);
        let between = if i <= j { i < k && k <= j } else { i < k || k <= j };
        if !between {
            TABLE[i] = TABLE[j];
            i = j;
        }
    }
    TABLE[i].addr = 0;
}

unsafe fn log_ev(kind: u8, size: usize) {
    if RECORDING.load(Ordering::Relaxed) && LOG_N < LOGCAP {
        LOG[LOG_N] = (kind, size);
        LOG_N += 1;
    }
}

unsafe fn check_zone(p: *const u8, n: usize, b: u8) -> bool {
    for i in 0..n {
        if *p.add(i) != b {
            return false;
        }
    }
    true
}

struct Checking;

unsafe impl GlobalAlloc for Checking {
    unsafe fn alloc(&self, l: Layout) -> *mut u8 {
        let rz = l.align() <= 16;
        let user = if rz {
            let base = System.alloc(Layout::from_size_align_unchecked(l.size() + 2 * RZ, 16));
            if base.is_null() {
                return base;
            }
            std::ptr::write_bytes(base, RZ_BYTE, RZ);
            std::ptr::write_bytes(base.add(RZ + l.size()), RZ_BYTE, RZ);
            base.add(RZ)
        } else {
            let p = System.alloc(l);
            if p.is_null() {
                return p;
            }
            p
        };
        let _g = lock();
        let tagged = RECORDING.load(Ordering::Relaxed);
        t_insert(Entry { addr: user as usize, size: l.size(), flags: (tagged as usize) | ((rz as usize) << 1) });
        LIVE_ALL.fetch_add(1, Ordering::Relaxed);
        LIVE_BYTES.fetch_add(l.size(), Ordering::Relaxed);
        N_ALLOC.fetch_add(1, Ordering::Relaxed);
        if tagged {
            LIVE_TAGGED.fetch_add(1, Ordering::Relaxed);
        }
        log_ev(b'A', l.size());
        user
    }

    unsafe fn dealloc(&self, p: *mut u8, l: Layout) {
        let _g = lock();
        let Some(i) = t_find(p as usize) else {
            // double free or free of a pointer we never handed out: do not forward
            ERR_UNKNOWN_FREE.fetch_add(1, Ordering::Relaxed);
            log_ev(b'X', l.size());
            return;
        };
        let e = TABLE[i];
        t_remove(i);
        if e.size != l.size() {
            ERR_SIZE.fetch_add(1, Ordering::Relaxed);
        }
        LIVE_ALL.fetch_sub(1, Ordering::Relaxed);
        LIVE_BYTES.fetch_sub(e.size, Ordering::Relaxed);
        N_FREE.fetch_add(1, Ordering::Relaxed);
        if e.flags & 1 == 1 {
            LIVE_TAGGED.fetch_sub(1, Ordering::Relaxed);
        }
        log_ev(b'F', l.size());
        if e.flags & 2 == 2 {
            let base = p.sub(RZ);
            if !check_zone(base, RZ, RZ_BYTE) || !check_zone(p.add(e.size), RZ, RZ_BYTE) {
                ERR_REDZONE.fetch_add(1, Ordering::Relaxed);
            }
            let total = e.size + 2 * RZ;
            if e.flags & 1 == 1 {
                // poison and park in the quarantine; release the entry it evicts
                std::ptr::write_bytes(base, POISON, total);
                let (ob, os) = QUAR[QUAR_I];
                QUAR[QUAR_I] = (base as usize, total);
                QUAR_I = (QUAR_I + 1) % QCAP;
                if ob != 0 {
                    if !check_zone(ob as *const u8, os, POISON) {
                        ERR_UAF.fetch_add(1, Ordering::Relaxed);
                    }
                    System.dealloc(ob as *mut u8, Layout::from_size_align_unchecked(os, 16));
                }
            } else {
                System.dealloc(base, Layout::from_size_align_unchecked(total, 16));
            }
        } else {
            System.dealloc(p, l);
        }
    }

    unsafe fn realloc(&self, p: *mut u8, l: Layout, new_size: usize) -> *mut u8 {
        let _g = lock();
        let Some(i) = t_find(p as usize) else {
            ERR_UNKNOWN_FREE.fetch_add(1, Ordering::Relaxed);
            log_ev(b'X', l.size());
            return std::ptr::null_mut();
        };
        let e = TABLE[i];
        if e.size != l.size() {
            ERR_SIZE.fetch_add(1, Ordering::Relaxed);
        }
        let newp = if e.flags & 2 == 2 {
            let base = p.sub(RZ);
            if !check_zone(base, RZ, RZ_BYTE) || !check_zone(p.add(e.size), RZ, RZ_BYTE) {
                ERR_REDZONE.fetch_add(1, Ordering::Relaxed);
            }
            let nb = System.realloc(base, Layout::from_size_align_unchecked(e.size + 2 * RZ, 16), new_size + 2 * RZ);
            if nb.is_null() {
                return nb;
            }
            std::ptr::write_bytes(nb.add(RZ + new_size), RZ_BYTE, RZ);
            nb.add(RZ)
        } else {
            let np = System.realloc(p, l, new_size);
            if np.is_null() {
                return np;
            }
            np
        };
        t_remove(i);
        t_insert(Entry { addr: newp as usize, size: new_size, flags: e.flags });
        LIVE_BYTES.fetch_sub(e.size, Ordering::Relaxed);
        LIVE_BYTES.fetch_add(new_size, Ordering::Relaxed);
        N_REALLOC.fetch_add(1, Ordering::Relaxed);
        log_ev(b'R', new_size);
        newp
    }
}

#[global_allocator]
static GLOBAL: Checking = Checking;

fn errors() -> (usize, usize, usize, usize) {
    (
        ERR_UNKNOWN_FREE.load(Ordering::SeqCst),
        ERR_SIZE.load(Ordering::SeqCst),
        ERR_REDZONE.load(Ordering::SeqCst),
        ERR_UAF.load(Ordering::SeqCst),
    )
}

/// release the quarantine (checking the poison) so that live counts are exact
fn flush_quarantine() {
    unsafe {
        let _g = lock();
        for i in 0..QCAP {
            let (ob, os) = QUAR[i];
            if ob != 0 {
                if !check_zone(ob as *const u8, os, POISON) {
                    ERR_UAF.fetch_add(1, Ordering::Relaxed);
                }
                System.dealloc(ob as *mut u8, Layout::from_size_align_unchecked(os, 16));
                QUAR[i] = (0, 0);
            }
        }
    }
}

fn start_recording() {
    unsafe {
        let _g = lock();
        LOG_N = 0;
    }
    RECORDING.store(true, Ordering::SeqCst);
}

fn stop_recording(out: &mut String, evs: &mut Vec<(u8, usize)>) {
    RECORDING.store(false, Ordering::SeqCst);
    // copy under the lock without allocating (the allocator takes the same lock)
    evs.clear();
    evs.reserve(LOGCAP);
    unsafe {
        let _g = lock();
        for i in 0..LOG_N {
            evs.push(LOG[i]);
        }
    }
    out.push('[');
    for (i, (k, sz)) in evs.iter().enumerate() {
        if i > 0 {
            out.push(',');
        }
        // payload capacity = allocation size minus the 16-byte header element
        out.push_str(&format!("{}{}", *k as char, (*sz as isize) - 16));
    }
    out.push(']');
}

// ---------------------------------------------------------------------------------------------
// pool of tendrils of any format
// ---------------------------------------------------------------------------------------------
enum Slot<A: Atomicity> {
    B(Tendril<Bytes, A>),
    U(Tendril<UTF8, A>),
    As(Tendril<ASCII, A>),
    L(Tendril<Latin1, A>),
    W(Tendril<WTF8, A>),
}

macro_rules! each {
    ($slot:expr, $t:ident => $e:expr) => {
        match $slot {
            Slot::B($t) => $e,
            Slot::U($t) => $e,
            Slot::As($t) => $e,
            Slot::L($t) => $e,
            Slot::W($t) => $e,
        }
    };
}
macro_rules! map_slot {
    ($slot:expr, $t:ident => $e:expr) => {
        match $slot {
            Slot::B($t) => Slot::B($e),
            Slot::U($t) => Slot::U($e),
            Slot::As($t) => Slot::As($e),
            Slot::L($t) => Slot::L($e),
            Slot::W($t) => Slot::W($e),
        }
    };
}
macro_rules! try_map_slot {
    ($slot:expr, $t:ident => $e:expr) => {
        match $slot {
            Slot::B($t) => $e.map(Slot::B),
            Slot::U($t) => $e.map(Slot::U),
            Slot::As($t) => $e.map(Slot::As),
            Slot::L($t) => $e.map(Slot::L),
            Slot::W($t) => $e.map(Slot::W),
        }
    };
}

impl<A: Atomicity> Slot<A> {
    fn fmt_id(&self) -> u8 {
        match self {
            Slot::B(_) => 0,
            Slot::U(_) => 1,
            Slot::As(_) => 2,
            Slot::L(_) => 3,
            Slot::W(_) => 4,
        }
    }
}

#[derive(Clone, Copy)]
enum Out {
    Ok,
    Err(u8),
    Char(Option<u32>),
    Class(Option<u32>),
    Bad,
}

enum Op {
    New(usize, u8, Vec<u8>),
    WithCap(usize, u8, u32),
    Clone(usize, usize),
    Drop(usize),
    Clear(usize),
    Push(usize, Vec<u8>),
    PushT(usize, usize),
    Sub(bool, usize, usize, u32, u32),
    PopF(bool, usize, u32),
    PopB(bool, usize, u32),
    PopChar(usize),
    PopRun(usize, usize, u32, u32),
    PushChar(usize, u32),
    Ext(usize, u32, u32),
    Send(usize, usize),
    Reint(usize, u8),
    Reserve(usize, u32),
    SetByte(usize, u32, u32),
    Upper(usize),
}

fn parse_op(ws: &[&str]) -> Op {
    let u = |i: usize| ws[i].parse::<usize>().unwrap();
    let n = |i: usize| ws[i].parse::<u32>().unwrap();
    let bytes = |from: usize| -> Vec<u8> { ws[from..].iter().map(|x| x.parse::<u8>().unwrap()).collect() };
    match ws[0] {
        "new" => Op::New(u(1), n(2) as u8, bytes(4)),
        "wcap" => Op::WithCap(u(1), n(2) as u8, n(3)),
        "clone" => Op::Clone(u(1), u(2)),
        "drop" => Op::Drop(u(1)),
        "clear" => Op::Clear(u(1)),
        "push" => Op::Push(u(1), bytes(3)),
        "pusht" => Op::PushT(u(1), u(2)),
        "sub" => Op::Sub(false, u(1), u(2), n(3), n(4)),
        "subp" => Op::Sub(true, u(1), u(2), n(3), n(4)),
        "popf" => Op::PopF(false, u(1), n(2)),
        "popfp" => Op::PopF(true, u(1), n(2)),
        "popb" => Op::PopB(false, u(1), n(2)),
        "popbp" => Op::PopB(true, u(1), n(2)),
        "popc" => Op::PopChar(u(1)),
        "popr" => Op::PopRun(u(1), u(2), n(3), n(4)),
        "pushc" => Op::PushChar(u(1), n(2)),
        "ext" => Op::Ext(u(1), n(2), n(3)),
        "send" => Op::Send(u(1), u(2)),
        "reint" => Op::Reint(u(1), n(2) as u8),
        "reserve" => Op::Reserve(u(1), n(2)),
        "setb" => Op::SetByte(u(1), n(2), n(3)),
        "upper" => Op::Upper(u(1)),
        x => panic!("bad op {}", x),
    }
}

fn sub_err(e: SubtendrilError) -> Out {
    match e {
        SubtendrilError::OutOfBounds => Out::Err(1),
        SubtendrilError::ValidationFailed => Out::Err(2),
    }
}

fn new_slot<A: Atomicity>(f: u8, b: &[u8]) -> Result<Slot<A>, ()> {
    match f {
        0 => Tendril::try_from_byte_slice(b).map(Slot::B),
        1 => Tendril::try_from_byte_slice(b).map(Slot::U),
        2 => Tendril::try_from_byte_slice(b).map(Slot::As),
        3 => Tendril::try_from_byte_slice(b).map(Slot::L),
        _ => Tendril::try_from_byte_slice(b).map(Slot::W),
    }
}

fn cap_slot<A: Atomicity>(f: u8, n: u32) -> Slot<A> {
    match f {
        0 => Slot::B(Tendril::with_capacity(n)),
        1 => Slot::U(Tendril::with_capacity(n)),
        2 => Slot::As(Tendril::with_capacity(n)),
        3 => Slot::L(Tendril::with_capacity(n)),
        _ => Slot::W(Tendril::with_capacity(n)),
    }
}

fn classify_char(kind: u32, m: u32, c: char) -> u32 {
    let c = c as u32;
    if kind == 0 {
        c % m.max(1)
    } else {
        (c < m) as u32
    }
}

fn round_trip<F: Format, A: Atomicity>(t: Tendril<F, A>) -> Tendril<F, A> {
    let s: SendTendril<F> = t.into_send();
    Tendril::from(s)
}

fn reinterpret<F: Format, A: Atomicity>(t: Tendril<F, A>, g: u8) -> Result<Slot<A>, Slot<A>>
where
    Slot<A>: From<Tendril<F, A>>,
{
    match g {
        0 => Ok(Slot::B(t.into_bytes())),
        1 => t.try_reinterpret::<UTF8>().map(Slot::U).map_err(Slot::from),
        2 => t.try_reinterpret::<ASCII>().map(Slot::As).map_err(Slot::from),
        3 => t.try_reinterpret::<Latin1>().map(Slot::L).map_err(Slot::from),
        _ => t.try_reinterpret::<WTF8>().map(Slot::W).map_err(Slot::from),
    }
}
impl<A: Atomicity> From<Tendril<Bytes, A>> for Slot<A> {
    fn from(t: Tendril<Bytes, A>) -> Self {
        Slot::B(t)
    }
}
impl<A: Atomicity> From<Tendril<UTF8, A>> for Slot<A> {
    fn from(t: Tendril<UTF8, A>) -> Self {
        Slot::U(t)
    }
}
impl<A: Atomicity> From<Tendril<ASCII, A>> for Slot<A> {
    fn from(t: Tendril<ASCII, A>) -> Self {
        Slot::As(t)
    }
}
impl<A: Atomicity> From<Tendril<Latin1, A>> for Slot<A> {
    fn from(t: Tendril<Latin1, A>) -> Self {
        Slot::L(t)
    }
}
impl<A: Atomicity> From<Tendril<WTF8, A>> for Slot<A> {
    fn from(t: Tendril<WTF8, A>) -> Self {
        Slot::W(t)
    }
}

/// the subset/superset API where the type system offers it, try_reinterpret otherwise
fn convert<A: Atomicity>(s: Slot<A>, g: u8) -> Result<Slot<A>, Slot<A>> {
    match (s, g) {
        (Slot::As(t), 1) => Ok(Slot::U(t.into_superset::<UTF8>())),
        (Slot::As(t), 3) => Ok(Slot::L(t.into_superset::<Latin1>())),
        (Slot::U(t), 4) => Ok(Slot::W(t.into_superset::<WTF8>())),
        (Slot::U(t), 2) => t.try_into_subset::<ASCII>().map(Slot::As).map_err(Slot::U),
        (Slot::L(t), 2) => t.try_into_subset::<ASCII>().map(Slot::As).map_err(Slot::L),
        (Slot::W(t), 1) => t.try_into_subset::<UTF8>().map(Slot::U).map_err(Slot::W),
        (Slot::B(t), g) => reinterpret(t, g),
        (Slot::U(t), g) => reinterpret(t, g),
        (Slot::As(t), g) => reinterpret(t, g),
        (Slot::L(t), g) => reinterpret(t, g),
        (Slot::W(t), g) => reinterpret(t, g),
    }
}

/// executes one operation; must not allocate except through tendril
fn exec<A: Atomicity>(op: &Op, pool: &mut Vec<Option<Slot<A>>>) -> Out {
    let n = pool.len();
    match op {
        Op::New(d, f, b) => {
            if *d >= n {
                return Out::Bad;
            }
            match new_slot::<A>(*f, b) {
                Ok(s) => {
                    pool[*d] = Some(s);
                    Out::Ok
                },
                Err(()) => Out::Err(0),
            }
        },
        Op::WithCap(d, f, c) => {
            if *d >= n {
                return Out::Bad;
            }
            let s = cap_slot::<A>(*f, *c);
            pool[*d] = Some(s);
            Out::Ok
        },
        Op::Clone(d, s) => {
            if *s >= n || pool[*s].is_none() || *d >= n {
                return Out::Bad;
            }
            let c = map_slot!(pool[*s].as_ref().unwrap(), t => t.clone());
            pool[*d] = Some(c);
            Out::Ok
        },
        Op::Drop(s) => {
            if *s >= n || pool[*s].is_none() {
                return Out::Bad;
            }
            pool[*s] = None;
            Out::Ok
        },
        Op::Clear(s) => {
            if *s >= n || pool[*s].is_none() {
                return Out::Bad;
            }
            each!(pool[*s].as_mut().unwrap(), t => t.clear());
            Out::Ok
        },
        Op::Push(s, b) => {
            if *s >= n || pool[*s].is_none() {
                return Out::Bad;
            }
            let r = match pool[*s].as_mut().unwrap() {
                Slot::B(t) => {
                    t.push_slice(b);
                    Ok(())
                },
                Slot::U(t) => match std::str::from_utf8(b) {
                    Ok(st) => {
                        t.push_slice(st);
                        Ok(())
                    },
                    Err(_) => t.try_push_bytes(b),
                },
                Slot::As(t) => t.try_push_bytes(b),
                Slot::L(t) => t.try_push_bytes(b),
                Slot::W(t) => t.try_push_bytes(b),
            };
            match r {
                Ok(()) => Out::Ok,
                Err(()) => Out::Err(0),
            }
        },
        Op::PushT(d, s) => {
            if *d >= n || *s >= n || pool[*d].is_none() || pool[*s].is_none() || d == s {
                return Out::Bad;
            }
            if pool[*d].as_ref().unwrap().fmt_id() != pool[*s].as_ref().unwrap().fmt_id() {
                return Out::Bad;
            }
            let o = pool[*s].take().unwrap();
            match (pool[*d].as_mut().unwrap(), &o) {
                (Slot::B(t), Slot::B(x)) => t.push_tendril(x),
                (Slot::U(t), Slot::U(x)) => t.push_tendril(x),
                (Slot::As(t), Slot::As(x)) => t.push_tendril(x),
                (Slot::L(t), Slot::L(x)) => t.push_tendril(x),
                (Slot::W(t), Slot::W(x)) => t.push_tendril(x),
                _ => unreachable!(),
            }
            pool[*s] = Some(o);
            Out::Ok
        },
        Op::Sub(uw, d, s, off, len) => {
            if *s >= n || pool[*s].is_none() || *d >= n {
                return Out::Bad;
            }
            if *uw {
                let r = map_slot!(pool[*s].as_ref().unwrap(), t => t.subtendril(*off, *len));
                pool[*d] = Some(r);
                Out::Ok
            } else {
                let r = try_map_slot!(pool[*s].as_ref().unwrap(), t => t.try_subtendril(*off, *len));
                match r {
                    Ok(x) => {
                        pool[*d] = Some(x);
                        Out::Ok
                    },
                    Err(e) => sub_err(e),
                }
            }
        },
        Op::PopF(uw, s, k) => {
            if *s >= n || pool[*s].is_none() {
                return Out::Bad;
            }
            if *uw {
                each!(pool[*s].as_mut().unwrap(), t => t.pop_front(*k));
                Out::Ok
            } else {
                match each!(pool[*s].as_mut().unwrap(), t => t.try_pop_front(*k)) {
                    Ok(()) => Out::Ok,
                    Err(e) => sub_err(e),
                }
            }
        },
        Op::PopB(uw, s, k) => {
            if *s >= n || pool[*s].is_none() {
                return Out::Bad;
            }
            if *uw {
                each!(pool[*s].as_mut().unwrap(), t => t.pop_back(*k));
                Out::Ok
            } else {
                match each!(pool[*s].as_mut().unwrap(), t => t.try_pop_back(*k)) {
                    Ok(()) => Out::Ok,
                    Err(e) => sub_err(e),
                }
            }
        },
        Op::PopChar(s) => {
            if *s >= n || pool[*s].is_none() {
                return Out::Bad;
            }
            match pool[*s].as_mut().unwrap() {
                Slot::U(t) => Out::Char(t.pop_front_char().map(|c| c as u32)),
                Slot::As(t) => Out::Char(t.pop_front_char().map(|c| c as u32)),
                Slot::L(t) => Out::Char(t.pop_front_char().map(|c| c as u32)),
                _ => Out::Bad,
            }
        },
        Op::PopRun(d, s, kind, m) => {
            if *s >= n || pool[*s].is_none() {
                return Out::Bad;
            }
            let f = pool[*s].as_ref().unwrap().fmt_id();
            if !(f == 1 || f == 2 || f == 3) || *d >= n {
                return Out::Bad;
            }
            let r: Option<(Slot<A>, u32)> = match pool[*s].as_mut().unwrap() {
                Slot::U(t) => t.pop_front_char_run(|c| classify_char(*kind, *m, c)).map(|(x, k)| (Slot::U(x), k)),
                Slot::As(t) => t.pop_front_char_run(|c| classify_char(*kind, *m, c)).map(|(x, k)| (Slot::As(x), k)),
                Slot::L(t) => t.pop_front_char_run(|c| classify_char(*kind, *m, c)).map(|(x, k)| (Slot::L(x), k)),
                _ => unreachable!(),
            };
            match r {
                None => Out::Class(None),
                Some((x, k)) => {
                    pool[*d] = Some(x);
                    Out::Class(Some(k))
                },
            }
        },
        Op::PushChar(s, c) => {
            if *s >= n || pool[*s].is_none() {
                return Out::Bad;
            }
            let f = pool[*s].as_ref().unwrap().fmt_id();
            let Some(ch) = char::from_u32(*c) else { return Out::Bad };
            if !(f == 1 || f == 2 || f == 3) {
                return Out::Bad;
            }
            let r = match pool[*s].as_mut().unwrap() {
                Slot::U(t) => {
                    // push_char and try_push_char are the same code path for UTF-8
                    if *c % 2 == 0 {
                        t.push_char(ch);
                        Ok(())
                    } else {
                        t.try_push_char(ch)
                    }
                },
                Slot::As(t) => t.try_push_char(ch),
                Slot::L(t) => t.try_push_char(ch),
                _ => unreachable!(),
            };
            match r {
                Ok(()) => Out::Ok,
                Err(()) => Out::Err(0),
            }
        },
        Op::Ext(s, k, b) => {
            if *s >= n {
                return Out::Bad;
            }
            match pool[*s].as_mut() {
                Some(Slot::B(t)) => {
                    t.extend_with_byte(*k, *b as u8);
                    Out::Ok
                },
                _ => Out::Bad,
            }
        },
        Op::Send(d, s) => {
            if *s >= n || pool[*s].is_none() || *d >= n {
                return Out::Bad;
            }
            let t = pool[*s].take().unwrap();
            let r = map_slot!(t, t => round_trip(t));
            pool[*d] = Some(r);
            Out::Ok
        },
        Op::Reint(s, g) => {
            if *s >= n || pool[*s].is_none() {
                return Out::Bad;
            }
            let t = pool[*s].take().unwrap();
            match convert(t, *g) {
                Ok(x) => {
                    pool[*s] = Some(x);
                    Out::Ok
                },
                Err(x) => {
                    pool[*s] = Some(x);
                    Out::Err(0)
                },
            }
        },
        Op::Reserve(s, k) => {
            if *s >= n || pool[*s].is_none() {
                return Out::Bad;
            }
            each!(pool[*s].as_mut().unwrap(), t => t.reserve(*k));
            Out::Ok
        },
        Op::SetByte(s, i, b) => {
            if *s >= n {
                return Out::Bad;
            }
            match pool[*s].as_mut() {
                Some(Slot::B(t)) => {
                    if t.len32() <= *i || *b > 255 {
                        return Out::Bad;
                    }
                    t[*i as usize] = *b as u8;
                    Out::Ok
                },
                _ => Out::Bad,
            }
        },
        Op::Upper(s) => {
            if *s >= n {
                return Out::Bad;
            }
            match pool[*s].as_mut() {
                Some(Slot::B(t)) => {
                    t.make_ascii_uppercase();
                    Out::Ok
                },
                Some(Slot::U(t)) => {
                    t.make_ascii_uppercase();
                    Out::Ok
                },
                _ => Out::Bad,
            }
        },
    }
}

fn is_unwrap(op: &Op) -> bool {
    matches!(op, Op::Sub(true, ..) | Op::PopF(true, ..) | Op::PopB(true, ..))
}

fn show_slot<A: Atomicity>(s: &Option<Slot<A>>, out: &mut String) {
    match s {
        None => out.push('-'),
        Some(s) => {
            let f = [b'b', b'u', b'a', b'l', b'w'][s.fmt_id() as usize] as char;
            each!(s, t => {
                let bt = t.as_bytes();
                let dbg = format!("{:?}", bt);
                let kind = if dbg.contains("(inline:") { 'i' } else if dbg.contains("(shared:") { 's' }
                           else if dbg.contains("(owned:") { 'o' } else { '?' };
                if (kind == 's') != t.is_shared() { out.push_str("IS_SHARED_MISMATCH"); }
                out.push(f);
                out.push(kind);
                out.push(':');
                out.push_str(&t.len32().to_string());
                out.push(':');
                for b in bt.iter() { out.push_str(&format!("{:02x}", b)); }
            });
        },
    }
}

fn run_history<A: Atomicity>(npool: usize, ops: &[Op], out: &mut String) {
    let mut pool: Vec<Option<Slot<A>>> = Vec::with_capacity(npool);
    for _ in 0..npool {
        pool.push(None);
    }
    let base_tagged = LIVE_TAGGED.load(Ordering::SeqCst);
    let mut scratch: Vec<(u8, usize)> = Vec::with_capacity(LOGCAP);
    let mut first = true;
    for op in ops {
        if !first {
            out.push_str(" ; ");
        }
        first = false;
        let tagged_before = LIVE_TAGGED.load(Ordering::SeqCst);
        start_recording();
        let r = catch_unwind(AssertUnwindSafe(|| exec::<A>(op, &mut pool)));
        let mut evs = String::new();
        stop_recording(&mut evs, &mut scratch);
        // a panic formats and boxes its message while we are recording: extract the message,
        // release the payload, and report only whether tendril memory changed hands
        let r = match r {
            Ok(o) => Ok(o),
            Err(p) => {
                let msg = if let Some(s) = p.downcast_ref::<String>() {
                    s.clone()
                } else if let Some(s) = p.downcast_ref::<&str>() {
                    s.to_string()
                } else {
                    String::new()
                };
                drop(p);
                let now = LIVE_TAGGED.load(Ordering::SeqCst);
                evs = if now == tagged_before { "[]".to_string() } else { format!("[LIVE-CHANGED-ON-PANIC {}]", now as isize - tagged_before as isize) };
                Err(msg)
            },
        };
        match r {
            Ok(o) => match o {
                Out::Ok => out.push_str("ok"),
                Out::Err(e) => out.push_str(&format!("E{}", e)),
                Out::Char(None) => out.push_str("cnone"),
                Out::Char(Some(c)) => out.push_str(&format!("c{}", c)),
                Out::Class(None) => out.push_str("knone"),
                Out::Class(Some(c)) => out.push_str(&format!("k{}", c)),
                Out::Bad => out.push_str("bad"),
            },
            Err(msg) => {
                if is_unwrap(op) && msg.contains("OutOfBounds") {
                    out.push_str("!E1");
                } else if is_unwrap(op) && msg.contains("ValidationFailed") {
                    out.push_str("!E2");
                } else {
                    out.push_str("!P(");
                    out.push_str(&msg.replace(';', ",").replace('|', "/"));
                    out.push(')');
                }
            },
        }
        out.push(' ');
        out.push_str(&evs);
        out.push_str(" |");
        for s in pool.iter() {
            out.push(' ');
            show_slot(s, out);
        }
    }
    if !first {
        out.push_str(" ; ");
    }
    start_recording();
    for s in pool.iter_mut() {
        *s = None;
    }
    let mut evs = String::new();
    stop_recording(&mut evs, &mut scratch);
    let live = LIVE_TAGGED.load(Ordering::SeqCst) as isize - base_tagged as isize;
    out.push_str(&format!("END {} live={}", evs, live));
    let (a, b, c, d) = errors();
    if a + b + c + d > 0 {
        out.push_str(&format!(" ALLOC-ERRORS unknown_free={} size={} redzone={} uaf={}", a, b, c, d));
    }
}

// ---------------------------------------------------------------------------------------------
// thread soak
// ---------------------------------------------------------------------------------------------
struct Rng(u64);
impl Rng {
    fn next(&mut self) -> u64 {
        self.0 ^= self.0 << 13;
        self.0 ^= self.0 >> 7;
        self.0 ^= self.0 << 17;
        self.0
    }
    fn below(&mut self, n: usize) -> usize {
        (self.next() % (n as u64)) as usize
    }
}

type AT = Tendril<Bytes, Atomic>;

fn content(rng: &mut Rng) -> Vec<u8> {
    let len = [0, 1, 7, 8, 9, 15, 16, 17, 31, 33, 64, 100, 257][rng.below(13)];
    (0..len).map(|_| (rng.next() & 0xff) as u8).collect()
}

/// random work on a bag of (tendril, expected bytes); returns number of content mismatches
fn worker(seed: u64, mut bag: Vec<(AT, Vec<u8>)>, sends: Vec<(SendTendril<Bytes>, Vec<u8>)>, steps: usize,
          tx: Option<std::sync::mpsc::Sender<(SendTendril<Bytes>, Vec<u8>)>>) -> (usize, usize) {
    let mut rng = Rng(seed | 1);
    let mut bad = 0;
    let mut ops = 0;
    for (s, v) in sends {
        let t: AT = Tendril::from(s);
        bag.push((t, v));
    }
    for _ in 0..steps {
        if bag.is_empty() {
            break;
        }
        let i = rng.below(bag.len());
        ops += 1;
        match rng.below(9) {
            0 => {
                let c = (bag[i].0.clone(), bag[i].1.clone());
                bag.push(c);
            },
            1 => {
                let (t, v) = bag.swap_remove(i);
                if &*t != &v[..] {
                    bad += 1;
                }
                drop(t);
            },
            2 => {
                let len = bag[i].1.len();
                let off = rng.below(len + 1);
                let l = rng.below(len - off + 1);
                let s = bag[i].0.subtendril(off as u32, l as u32);
                let v = bag[i].1[off..off + l].to_vec();
                bag.push((s, v));
            },
            3 => {
                let add = content(&mut rng);
                bag[i].0.push_slice(&add);
                bag[i].1.extend_from_slice(&add);
            },
            4 => {
                let len = bag[i].1.len();
                let k = rng.below(len + 1);
                bag[i].0.pop_front(k as u32);
                bag[i].1.drain(..k);
            },
            5 => {
                let len = bag[i].1.len();
                let k = rng.below(len + 1);
                bag[i].0.pop_back(k as u32);
                bag[i].1.truncate(len - k);
            },
            6 => {
                if let Some(tx) = &tx {
                    let (t, v) = bag.swap_remove(i);
                    let _ = tx.send((t.into_send(), v));
                }
            },
            7 => {
                let j = rng.below(bag.len());
                if i != j {
                    let (o, ov) = (bag[j].0.clone(), bag[j].1.clone());
                    bag[i].0.push_tendril(&o);
                    bag[i].1.extend_from_slice(&ov);
                }
            },
            _ => {
                if &*bag[i].0 != &bag[i].1[..] {
                    bad += 1;
                }
            },
        }
    }
    // random drop order
    while !bag.is_empty() {
        let i = rng.below(bag.len());
        let (t, v) = bag.swap_remove(i);
        if &*t != &v[..] {
            bad += 1;
        }
        drop(t);
    }
    (bad, ops)
}

fn soak_round(rng: &mut Rng, nthreads: usize) -> (usize, usize) {
    // originals, then clones / subtendrils of the same buffers handed to different threads
    let mut bags: Vec<Vec<(AT, Vec<u8>)>> = (0..nthreads).map(|_| vec![]).collect();
    let mut sends: Vec<Vec<(SendTendril<Bytes>, Vec<u8>)>> = (0..nthreads).map(|_| vec![]).collect();
    for _ in 0..6 {
        let v = content(rng);
        let t: AT = Tendril::from_slice(&v[..]);
        for _ in 0..(1 + rng.below(2 * nthreads)) {
            let k = rng.below(nthreads);
            if rng.below(3) == 0 && !v.is_empty() {
                let off = rng.below(v.len());
                let l = rng.below(v.len() - off + 1);
                bags[k].push((t.subtendril(off as u32, l as u32), v[off..off + l].to_vec()));
            } else {
                bags[k].push((t.clone(), v.clone()));
            }
        }
        // SendTendrils made from non-atomic and atomic tendrils
        let k = rng.below(nthreads);
        if rng.below(2) == 0 {
            let nt: Tendril<Bytes, NonAtomic> = Tendril::from_slice(&v[..]);
            let c = nt.clone();
            sends[k].push((c.into_send(), v.clone()));
            drop(nt);
        } else {
            sends[k].push((t.clone().into_send(), v.clone()));
        }
        drop(t);
    }
    let (tx, rx) = std::sync::mpsc::channel();
    let mut hs = vec![];
    for k in 0..nthreads {
        let bag = std::mem::take(&mut bags[k]);
        let snd = std::mem::take(&mut sends[k]);
        let seed = rng.next();
        let tx = tx.clone();
        hs.push(std::thread::spawn(move || worker(seed, bag, snd, 400, Some(tx))));
    }
    drop(tx);
    let mut bad = 0;
    let mut ops = 0;
    for h in hs {
        let (b, o) = h.join().unwrap();
        bad += b;
        ops += o;
    }
    // whatever was sent over the channel is received (and checked) by this thread
    let mut got = vec![];
    while let Ok(x) = rx.try_recv() {
        got.push(x);
    }
    drop(rx);
    let (b, o) = worker(rng.next(), vec![], got, 50, None);
    (bad + b, ops + o)
}

fn soak(seed: u64, rounds: usize) {
    let mut rng = Rng(seed.wrapping_mul(0x9E37_79B9_7F4A_7C15) | 1);
    // warm-up so that one-time runtime allocations are not counted
    let _ = soak_round(&mut rng, 8);
    flush_quarantine();
    let base = (LIVE_ALL.load(Ordering::SeqCst), LIVE_BYTES.load(Ordering::SeqCst));
    let mut bad = 0;
    let mut ops = 0;
    let mut leaks = 0;
    for _ in 0..rounds {
        let (b, o) = soak_round(&mut rng, 8);
        bad += b;
        ops += o;
        flush_quarantine();
        let now = (LIVE_ALL.load(Ordering::SeqCst), LIVE_BYTES.load(Ordering::SeqCst));
        if now != base {
            leaks += 1;
        }
    }
    let now = (LIVE_ALL.load(Ordering::SeqCst), LIVE_BYTES.load(Ordering::SeqCst));
    let (a, b, c, d) = errors();
    println!(
        "soak rounds={} ops={} mismatches={} rounds_with_live_delta={} live_delta={} bytes_delta={} unknown_free={} size={} redzone={} uaf={} allocs={} frees={} reallocs={}",
        rounds, ops, bad, leaks, now.0 as isize - base.0 as isize, now.1 as isize - base.1 as isize, a, b, c, d,
        N_ALLOC.load(Ordering::SeqCst), N_FREE.load(Ordering::SeqCst), N_REALLOC.load(Ordering::SeqCst)
    );
}

fn main() {
    std::panic::set_hook(Box::new(|_| {
        // the panic payload is boxed after the hook returns: keep it out of the event log
        RECORDING.store(false, Ordering::SeqCst);
    }));
    let args: Vec<String> = std::env::args().collect();
    if args.len() >= 2 && args[1] == "soak" {
        let seed = args.get(2).and_then(|x| x.parse().ok()).unwrap_or(1);
        let rounds = args.get(3).and_then(|x| x.parse().ok()).unwrap_or(20);
        soak(seed, rounds);
        return;
    }
    let stdin = io::stdin();
    let out = io::stdout();
    let mut out = io::BufWriter::new(out.lock());
    for line in stdin.lock().lines() {
        let line = line.unwrap();
        let mut parts = line.split(';');
        let hd: Vec<&str> = parts.next().unwrap_or("").split_whitespace().collect();
        let atomic = hd.first().map(|x| *x == "A").unwrap_or(false);
        let npool = hd.get(1).and_then(|x| x.parse().ok()).unwrap_or(4);
        let mut ops = vec![];
        for p in parts {
            let ws: Vec<&str> = p.split_whitespace().collect();
            if !ws.is_empty() {
                ops.push(parse_op(&ws));
            }
        }
        let mut s = String::new();
        if atomic {
            run_history::<Atomic>(npool, &ops, &mut s);
        } else {
            run_history::<NonAtomic>(npool, &ops, &mut s);
        }
        writeln!(out, "{}", s).unwrap();
    }
}
