//! C10 driver: byte-stream front ends (same line protocol as ocaml/decode_driver.ml
//! for the U / A / K / X cases; L / P / Q cases are implementation-only).
//!
//!   U c1|c2|..      Utf8LossyDecoder over a recording sink
//!   A c1|c2|..      ByteTendril::decode_utf8_lossy + IncompleteUtf8::try_complete
//!   K bytes         std::str::from_utf8
//!   X prefix n      from_utf8 over prefix ++ every n free bytes, hashed
//!   L enc c1|c2|..  LossyDecoder::new_encoding_rs(enc) over a recording sink
//!   P c1|c2|..      html5ever parse_document(..).from_utf8() vs parsing the lossy string
//!   Q c1|c2|..      the same for xml5ever
//!   N               names of all encodings encoding_rs exports
use std::borrow::Cow;
use std::io::{self, BufRead, Write};
use std::panic::{catch_unwind, AssertUnwindSafe};

use encoding_rs::{DecoderResult, Encoding};
use markup5ever_rcdom::{Handle, NodeData, RcDom};
use tendril::stream::{LossyDecoder, TendrilSink, Utf8LossyDecoder};
use tendril::{fmt, ByteTendril, IncompleteUtf8, StrTendril};

fn hex(b: &[u8]) -> String {
    b.iter().map(|x| format!("{:02x}", x)).collect()
}

fn unhex(s: &str) -> Vec<u8> {
    (0..s.len() / 2)
        .map(|i| u8::from_str_radix(&s[2 * i..2 * i + 2], 16).expect("hex"))
        .collect()
}

/// chunks in hex separated by '|'; an empty chunk is "_", no chunks at all is "-"
fn chunks_of(s: &str) -> Vec<Vec<u8>> {
    if s.is_empty() || s == "-" {
        return vec![];
    }
    s.split('|').map(|h| if h == "_" { vec![] } else { unhex(h) }).collect()
}

/// what the decoder hands to its inner sink, call by call
struct Rec {
    evs: Vec<String>,
}

impl TendrilSink<fmt::UTF8> for Rec {
    fn process(&mut self, t: StrTendril) {
        self.evs.push(format!("s{}", hex(t.as_bytes())));
    }

    fn error(&mut self, desc: Cow<'static, str>) {
        let d: &str = &desc;
        self.evs.push(match d {
            "invalid byte sequence" | "invalid sequence" => "e".to_string(),
            "incomplete byte sequence at end of stream" => "E".to_string(),
            other => format!("e?{}", hex(other.as_bytes())),
        });
    }

    type Output = Vec<String>;

    fn finish(self) -> Vec<String> {
        self.evs
    }
}

/// String::from_utf8_lossy of the whole input and the number of U+FFFD it inserted
fn std_lossy(all: &[u8]) -> (String, usize) {
    let text = String::from_utf8_lossy(all).into_owned();
    let mut n = 0;
    let mut via_chunks = String::new();
    for ch in all.utf8_chunks() {
        via_chunks.push_str(ch.valid());
        if !ch.invalid().is_empty() {
            n += 1;
            via_chunks.push('\u{FFFD}');
        }
    }
    assert_eq!(text, via_chunks, "from_utf8_lossy vs utf8_chunks");
    (text, n)
}

fn case_u(arg: &str) -> String {
    let chunks = chunks_of(arg);
    let all: Vec<u8> = chunks.concat();
    let r = catch_unwind(AssertUnwindSafe(|| {
        let mut d = Utf8LossyDecoder::new(Rec { evs: vec![] });
        for c in &chunks {
            d.process(ByteTendril::from_slice(c));
        }
        d.finish()
    }));
    let evs = match r {
        Ok(e) => e.join(" "),
        Err(_) => "!".to_string(),
    };
    let (text, n) = std_lossy(&all);
    format!("{} ; {} {}", evs, hex(text.as_bytes()), n)
}

fn case_a(arg: &str) -> String {
    let chunks = chunks_of(arg);
    let all: Vec<u8> = chunks.concat();
    let r = catch_unwind(AssertUnwindSafe(|| {
        let mut evs: Vec<String> = vec![];
        let mut inc: Option<IncompleteUtf8> = None;
        for c in &chunks {
            let mut input = ByteTendril::from_slice(c);
            if let Some(mut i) = inc.take() {
                match i.try_complete(input, |t: StrTendril| evs.push(format!("s{}", hex(t.as_bytes())))) {
                    Err(()) => {
                        inc = Some(i);
                        continue;
                    },
                    Ok(rest) => input = rest,
                }
            }
            inc = input.decode_utf8_lossy(|t: StrTendril| evs.push(format!("s{}", hex(t.as_bytes()))));
        }
        if inc.is_some() {
            evs.push("sefbfbd".to_string());
        }
        evs
    }));
    let evs = match r {
        Ok(e) => e.join(" "),
        Err(_) => "!".to_string(),
    };
    let (text, n) = std_lossy(&all);
    format!("{} ; {} {}", evs, hex(text.as_bytes()), n)
}

fn code_of(b: &[u8]) -> u64 {
    match std::str::from_utf8(b) {
        Ok(_) => 0,
        Err(e) => 1 + 4 * e.valid_up_to() as u64 + e.error_len().unwrap_or(0) as u64,
    }
}

fn case_k(arg: &str) -> String {
    match std::str::from_utf8(&unhex(arg)) {
        Ok(_) => "ok".to_string(),
        Err(e) => format!(
            "err {} {}",
            e.valid_up_to(),
            e.error_len().map(|k| k.to_string()).unwrap_or("-".to_string())
        ),
    }
}

fn case_x(arg: &str) -> String {
    let ws: Vec<&str> = arg.split_whitespace().collect();
    let (prefix, n) = match ws.len() {
        1 => (vec![], ws[0].parse::<usize>().unwrap()),
        2 => (unhex(ws[0]), ws[1].parse::<usize>().unwrap()),
        _ => return "bad-case".to_string(),
    };
    let mask: u64 = (1u64 << 40) - 1;
    let mut h: u64 = 0;
    let (mut nok, mut nerr) = (0u64, 0u64);
    let mut buf = prefix.clone();
    buf.extend(std::iter::repeat(0u8).take(n));
    let p = prefix.len();
    let total: u64 = 256u64.pow(n as u32);
    for i in 0..total {
        // first free byte is the most significant digit
        let mut v = i;
        for j in (0..n).rev() {
            buf[p + j] = (v & 0xff) as u8;
            v >>= 8;
        }
        let c = code_of(&buf);
        if c == 0 {
            nok += 1
        } else {
            nerr += 1
        }
        h = (h.wrapping_mul(1000003).wrapping_add(c + 1)) & mask;
    }
    format!("x {:x} {} {}", h, nok, nerr)
}

static ENCODINGS: &[&Encoding] = &[
    encoding_rs::BIG5,
    encoding_rs::EUC_JP,
    encoding_rs::EUC_KR,
    encoding_rs::GBK,
    encoding_rs::GB18030,
    encoding_rs::IBM866,
    encoding_rs::ISO_2022_JP,
    encoding_rs::ISO_8859_2,
    encoding_rs::ISO_8859_3,
    encoding_rs::ISO_8859_4,
    encoding_rs::ISO_8859_5,
    encoding_rs::ISO_8859_6,
    encoding_rs::ISO_8859_7,
    encoding_rs::ISO_8859_8,
    encoding_rs::ISO_8859_8_I,
    encoding_rs::ISO_8859_10,
    encoding_rs::ISO_8859_13,
    encoding_rs::ISO_8859_14,
    encoding_rs::ISO_8859_15,
    encoding_rs::ISO_8859_16,
    encoding_rs::KOI8_R,
    encoding_rs::KOI8_U,
    encoding_rs::MACINTOSH,
    encoding_rs::REPLACEMENT,
    encoding_rs::SHIFT_JIS,
    encoding_rs::UTF_8,
    encoding_rs::UTF_16BE,
    encoding_rs::UTF_16LE,
    encoding_rs::WINDOWS_874,
    encoding_rs::WINDOWS_1250,
    encoding_rs::WINDOWS_1251,
    encoding_rs::WINDOWS_1252,
    encoding_rs::WINDOWS_1253,
    encoding_rs::WINDOWS_1254,
    encoding_rs::WINDOWS_1255,
    encoding_rs::WINDOWS_1256,
    encoding_rs::WINDOWS_1257,
    encoding_rs::WINDOWS_1258,
    encoding_rs::X_MAC_CYRILLIC,
    encoding_rs::X_USER_DEFINED,
];

fn enc_by_name(name: &str) -> Option<&'static Encoding> {
    ENCODINGS.iter().copied().find(|e| e.name().eq_ignore_ascii_case(name))
}

/// Rust transliteration of coq/Decode/EncLoop.v `decode_to_sink` (NOT the code
/// under test): used to tie the loop model to the real loop on real decoders.
/// `repaired` = `decode_to_sink_repaired` of the same file.
fn model_decode_to_sink(
    mut input: &[u8],
    decoder: &mut encoding_rs::Decoder,
    evs: &mut Vec<String>,
    last: bool,
    repaired: bool,
) {
    let mut fuel = 4 * input.len() + 64;
    loop {
        if fuel == 0 {
            evs.push("!fuel".to_string());
            return;
        }
        fuel -= 1;
        let cap = decoder
            .max_utf8_buffer_length_without_replacement(input.len())
            .unwrap_or(8192)
            .min(8192);
        let mut out = vec![0u8; cap];
        let (result, read, written) = decoder.decode_to_utf8_without_replacement(input, &mut out, last);
        if written > 0 {
            evs.push(format!("s{}", hex(&out[..written])));
        }
        match result {
            DecoderResult::InputEmpty => return,
            DecoderResult::OutputFull => {},
            DecoderResult::Malformed(_, _) => {
                evs.push("e".to_string());
                evs.push("sefbfbd".to_string());
            },
        }
        input = &input[read..];
        if input.is_empty() && !(repaired && last) {
            return;
        }
    }
}

/// the caller protocol of the encoding_rs documentation: keep calling with the
/// remaining input until InputEmpty (what Decoder::decode_to_utf8 itself does).
/// Returns the text (U+FFFD per Malformed), the number of Malformed results and
/// whether every OutputFull left input unread.
fn reference_drive(
    decoder: &mut encoding_rs::Decoder,
    mut input: &[u8],
    last: bool,
    text: &mut Vec<u8>,
    n: &mut usize,
    full_ok: &mut bool,
) {
    loop {
        let mut out = vec![0u8; 4096];
        let (result, read, written) = decoder.decode_to_utf8_without_replacement(input, &mut out, last);
        text.extend_from_slice(&out[..written]);
        match result {
            DecoderResult::InputEmpty => {
                if read != input.len() {
                    *full_ok = false;
                }
                break;
            },
            DecoderResult::OutputFull => {
                if read >= input.len() {
                    *full_ok = false;
                }
            },
            DecoderResult::Malformed(_, _) => {
                *n += 1;
                text.extend_from_slice("\u{FFFD}".as_bytes());
            },
        }
        input = &input[read..];
    }
}

/// the decoder configuration LossyDecoder::new_encoding_rs uses: BOM sniffing
/// (Encoding::new_decoder) for everything except UTF-8, which it routes to
/// Utf8LossyDecoder (no BOM handling at all)
fn matching_decoder(enc: &'static Encoding) -> encoding_rs::Decoder {
    if enc == encoding_rs::UTF_8 {
        enc.new_decoder_without_bom_handling()
    } else {
        enc.new_decoder()
    }
}

fn reference_oneshot(enc: &'static Encoding, all: &[u8]) -> (Vec<u8>, usize, bool) {
    let mut decoder = matching_decoder(enc);
    let (mut text, mut n, mut ok) = (vec![], 0, true);
    reference_drive(&mut decoder, all, true, &mut text, &mut n, &mut ok);
    (text, n, ok)
}

/// the same protocol chunk by chunk (last = false), then end of stream
fn reference_chunked(enc: &'static Encoding, chunks: &[Vec<u8>]) -> (Vec<u8>, usize, bool) {
    let mut decoder = matching_decoder(enc);
    let (mut text, mut n, mut ok) = (vec![], 0, true);
    for c in chunks {
        reference_drive(&mut decoder, c, false, &mut text, &mut n, &mut ok);
    }
    reference_drive(&mut decoder, &[], true, &mut text, &mut n, &mut ok);
    (text, n, ok)
}

fn case_l(arg: &str) -> String {
    let (name, rest) = match arg.split_once(' ') {
        Some((a, b)) => (a, b.trim()),
        None => (arg, ""),
    };
    let enc = match enc_by_name(name) {
        Some(e) => e,
        None => return "bad-encoding".to_string(),
    };
    let chunks = chunks_of(rest);
    let all: Vec<u8> = chunks.concat();
    let r = catch_unwind(AssertUnwindSafe(|| {
        let mut d = LossyDecoder::new_encoding_rs(enc, Rec { evs: vec![] });
        for c in &chunks {
            d.process(ByteTendril::from_slice(c));
        }
        d.finish()
    }));
    let evs = match r {
        Ok(e) => e.join(" "),
        Err(_) => "!".to_string(),
    };
    // one-shot decodes of the concatenation by the matching configuration:
    // Encoding::decode (BOM sniffing, as new_decoder() does) - for UTF-8
    // decode_without_bom_handling - and the documented caller loop (also counts
    // the malformed sequences); bom! marks inputs on which BOM handling matters
    let (plain, _) = enc.decode_without_bom_handling(&all);
    let sniffed = if enc == encoding_rs::UTF_8 { plain.clone() } else { enc.decode(&all).0 };
    let bomflag = if plain == enc.decode(&all).0 { "bom=" } else { "bom!" };
    let (reference, nmal, full1) = reference_oneshot(enc, &all);
    let refflag = if reference == sniffed.as_bytes() { "ref=" } else { "ref!" };
    // contract clauses on the real decoder: streaming = one-shot, OutputFull leaves input unread
    let (chunked, nmal2, full2) = reference_chunked(enc, &chunks);
    let strflag = if chunked == reference && nmal2 == nmal { "str=" } else { "str!" };
    let fullflag = if full1 && full2 { "full=" } else { "full!" };
    // the loop model on the real decoder (UTF-8 goes through Utf8LossyDecoder, no loop)
    let run_model = |repaired: bool| -> String {
        if enc == encoding_rs::UTF_8 {
            return "-".to_string();
        }
        let mut mevs: Vec<String> = vec![];
        let mut dec = enc.new_decoder();
        for c in &chunks {
            if c.is_empty() {
                continue;
            }
            model_decode_to_sink(c, &mut dec, &mut mevs, false, repaired);
        }
        model_decode_to_sink(&[], &mut dec, &mut mevs, true, repaired);
        mevs.join(" ")
    };
    let model = run_model(false);
    let model_repaired = run_model(true);
    format!(
        "{} ; {} {} {} {} {} {} ; {} ; {}",
        evs,
        hex(sniffed.as_bytes()),
        nmal,
        bomflag,
        refflag,
        strflag,
        fullflag,
        model,
        model_repaired
    )
}

fn dump(h: &Handle, out: &mut String) {
    match &h.data {
        NodeData::Document => out.push_str("#doc"),
        NodeData::Doctype { name, public_id, system_id } => {
            out.push_str(&format!("<!{:?} {:?} {:?}>", &**name, &**public_id, &**system_id))
        },
        NodeData::Text { contents } => out.push_str(&format!("{:?}", &**contents.borrow())),
        NodeData::Comment { contents } => out.push_str(&format!("<!--{:?}-->", &**contents)),
        NodeData::Element { name, attrs, template_contents, .. } => {
            out.push_str(&format!("<{:?}:{:?}", &*name.ns, &*name.local));
            for a in attrs.borrow().iter() {
                out.push_str(&format!(" {:?}:{:?}={:?}", &*a.name.ns, &*a.name.local, &*a.value));
            }
            out.push('>');
            if let Some(t) = template_contents.borrow().as_ref() {
                out.push_str("{T");
                dump(t, out);
                out.push('}');
            }
        },
        NodeData::ProcessingInstruction { target, contents } => {
            out.push_str(&format!("<?{:?} {:?}>", &**target, &**contents))
        },
    }
    out.push('(');
    for c in h.children.borrow().iter() {
        dump(c, out);
    }
    out.push(')');
}

fn dump_dom(dom: &RcDom) -> String {
    let mut s = String::new();
    dump(&dom.document, &mut s);
    s
}

fn case_p(arg: &str, xml: bool) -> String {
    let chunks = chunks_of(arg);
    let all: Vec<u8> = chunks.concat();
    let (text, nrep) = std_lossy(&all);
    let r = catch_unwind(AssertUnwindSafe(|| {
        // pieces the decoder delivers (to feed a plain parser with the same pieces)
        let mut d = Utf8LossyDecoder::new(Rec { evs: vec![] });
        for c in &chunks {
            d.process(ByteTendril::from_slice(c));
        }
        let pieces: Vec<String> = d
            .finish()
            .into_iter()
            .filter(|e| e.starts_with('s'))
            .map(|e| String::from_utf8(unhex(&e[1..])).expect("piece is utf-8"))
            .collect();
        let (a, b, c);
        if xml {
            use xml5ever::driver::parse_document;
            let mut p = parse_document(RcDom::default(), Default::default()).from_utf8();
            for ch in &chunks {
                p.process(ByteTendril::from_slice(ch));
            }
            a = p.finish();
            b = parse_document(RcDom::default(), Default::default()).one(StrTendril::from_slice(&text));
            let mut q = parse_document(RcDom::default(), Default::default());
            for piece in &pieces {
                q.process(StrTendril::from_slice(piece));
            }
            c = q.finish();
        } else {
            use html5ever::driver::parse_document;
            let mut p = parse_document(RcDom::default(), Default::default()).from_utf8();
            for ch in &chunks {
                p.process(ByteTendril::from_slice(ch));
            }
            a = p.finish();
            b = parse_document(RcDom::default(), Default::default()).one(StrTendril::from_slice(&text));
            let mut q = parse_document(RcDom::default(), Default::default());
            for piece in &pieces {
                q.process(StrTendril::from_slice(piece));
            }
            c = q.finish();
        }
        let is_dec = |e: &Cow<'static, str>| {
            e == "invalid byte sequence" || e == "incomplete byte sequence at end of stream"
        };
        let ndec = a.errors.borrow().iter().filter(|e| is_dec(e)).count();
        let other_a = a.errors.borrow().iter().filter(|e| !is_dec(e)).count();
        let other_c = c.errors.borrow().iter().count();
        (dump_dom(&a), dump_dom(&b), dump_dom(&c), ndec, other_a, other_c)
    }));
    match r {
        Err(_) => "!".to_string(),
        Ok((a, b, c, ndec, other_a, other_c)) => {
            let v1 = if a == b { "whole=" } else { "whole!" };
            let v2 = if a == c { "pieces=" } else { "pieces!" };
            let v3 = if ndec == nrep { "errs=" } else { "errs!" };
            let v4 = if other_a == other_c { "perr=" } else { "perr!" };
            let detail = if a == b && a == c {
                String::new()
            } else {
                format!(" {} {} {}", hex(a.as_bytes()), hex(b.as_bytes()), hex(c.as_bytes()))
            };
            format!("{} {} {} {} {}{}", v1, v2, v3, v4, ndec, detail)
        },
    }
}

fn main() {
    std::panic::set_hook(Box::new(|_| {}));
    let stdin = io::stdin();
    let out = io::stdout();
    let mut out = io::BufWriter::new(out.lock());
    for line in stdin.lock().lines() {
        let line = line.unwrap();
        let line = line.trim();
        let (kind, arg) = match line.split_once(' ') {
            Some((k, a)) => (k, a.trim()),
            None => (line, ""),
        };
        let res = match kind {
            "U" => case_u(arg),
            "A" => case_a(arg),
            "K" => case_k(arg),
            "X" => case_x(arg),
            "L" => case_l(arg),
            "P" => case_p(arg, false),
            "Q" => case_p(arg, true),
            "N" => ENCODINGS.iter().map(|e| e.name()).collect::<Vec<_>>().join(" "),
            _ => "bad-case".to_string(),
        };
        writeln!(out, "{}", res).unwrap();
    }
}
