//! Token-level tracer for the HTML tree builder (C02 C04 C05 C06 C18 C19).
//!
//! Drives `Tokenizer<Logging<TreeBuilder<Handle, TraceSink<RcDom>>>>` where `Logging` records, IN ORDER,
//!   * every token handed to the tree builder with its line number,
//!   * the `TreeSink` calls the tree builder made while processing it (the op lines of
//!     `verif_harness::tracesink`, pure queries not recorded, parse-error messages dropped),
//!   * the `TokenSinkResult` the tree builder returned,
//!   * the answer to every `adjusted_current_node_present_but_not_in_html_namespace` query,
//!   * `end` + the calls made by `TokenSink::end`.
//! This log is what the Coq model (coq/Tree/TreeModel*.v via ocaml/tree_driver.ml) must reproduce from the
//! token / query part alone.
//!
//! One case per stdin line:
//!   D|FLAGS||CHUNKS                       document
//!   F|FLAGS|CTX|CHUNKS                    fragment
//!   FLAGS  := exact bom scripting dropdoctype srcdoc quirks(0 NoQuirks,1 LimitedQuirks,2 Quirks) ctxscripting form
//!             (eight 0/1/2 numbers separated by spaces; `form`: pass a <form> element as the form pointer)
//!   CTX    := nsabbr:local[:encoding]      nsabbr in html|svg|math ; `encoding` = value of an `encoding`
//!             attribute put on the context element (for annotation-xml)
//!   CHUNKS := chunk;chunk;...              each chunk = decimal code points separated by spaces
//! One output line per case:  `HEADER ;; EVENT ; EVENT ; ...`
//!   HEADER := the first three fields of the case joined by `|` (so that the output line is self-contained
//!             input for the model driver)
//!   EVENT  := tok LINE TOKEN | res RESULT | q 0|1 | end | fin quirks=NAME | PANIC | <op line of tracesink.rs>
//!           | init Data|Plaintext|RawData KIND   (fragments: tokenizer_state_for_context_elem, after the set-up ops)
//!   TOKEN  := D OPTSTR(name) OPTSTR(public) OPTSTR(system) 0|1(force_quirks)
//!           | T s|e STR(name) 0|1(self_closing) 0|1(had_duplicate_attributes) N {STR(name) STR(value)}*N
//!           | C STR | S STR | N (NullCharacterToken) | E (EOFToken) | X (ParseError)
//!   RESULT := Continue | Plaintext | RawData KIND | Script H | Encoding STR
use html5ever::tendril::StrTendril;
use html5ever::tokenizer::states as hs;
use html5ever::tokenizer::{
    BufferQueue, Tag, TagKind, Token, TokenSink, TokenSinkResult, Tokenizer, TokenizerOpts,
};
use html5ever::tree_builder::{create_element, QuirksMode, TreeBuilder, TreeBuilderOpts};
use html5ever::{ns, Attribute, LocalName, QualName};
use markup5ever::TokenizerResult;
use markup5ever_rcdom::{Handle, RcDom};
use std::cell::{Cell, RefCell};
use std::io::{self, BufRead, Write};
use std::panic::{catch_unwind, AssertUnwindSafe};
use verif_harness::tracesink::{esc, quirks_name, TraceSink, Traced};

type TB = TreeBuilder<Traced<Handle>, TraceSink<RcDom>>;

struct Logging {
    inner: TB,
    log: RefCell<Vec<String>>,
    drained: Cell<usize>,
}

fn esc_opt(s: &Option<StrTendril>) -> String {
    match s {
        Some(s) => esc(s),
        None => "-".into(),
    }
}

fn raw_kind(k: hs::RawKind) -> &'static str {
    match k {
        hs::RawKind::Rcdata => "Rcdata",
        hs::RawKind::Rawtext => "Rawtext",
        hs::RawKind::ScriptData => "ScriptData",
        hs::RawKind::ScriptDataEscaped(hs::ScriptEscapeKind::Escaped) => "ScriptDataEscaped",
        hs::RawKind::ScriptDataEscaped(hs::ScriptEscapeKind::DoubleEscaped) => "ScriptDataDoubleEscaped",
    }
}

impl Logging {
    /// move the sink calls made since the last drain into the event log
    fn drain(&self) {
        let l = self.inner.sink.log.borrow();
        let mut out = self.log.borrow_mut();
        for line in l[self.drained.get()..].iter() {
            if line.starts_with("parse_error ") {
                out.push("parse_error".into());
            } else {
                out.push(line.clone());
            }
        }
        self.drained.set(l.len());
    }
}

impl TokenSink for Logging {
    type Handle = Traced<Handle>;

    fn process_token(&self, token: Token, line: u64) -> TokenSinkResult<Traced<Handle>> {
        self.drain();
        let s = match &token {
            Token::DoctypeToken(d) => format!(
                "D {} {} {} {}",
                esc_opt(&d.name),
                esc_opt(&d.public_id),
                esc_opt(&d.system_id),
                d.force_quirks as u8
            ),
            Token::TagToken(Tag { kind, name, self_closing, attrs, had_duplicate_attributes }) => {
                let mut s = format!(
                    "T {} {} {} {} {}",
                    if *kind == TagKind::StartTag { "s" } else { "e" },
                    esc(name),
                    *self_closing as u8,
                    *had_duplicate_attributes as u8,
                    attrs.len()
                );
                for a in attrs.iter() {
                    // the tokenizer only produces un-namespaced, un-prefixed attribute names
                    assert!(a.name.prefix.is_none() && a.name.ns == ns!());
                    s.push_str(&format!(" {} {}", esc(&a.name.local), esc(&a.value)));
                }
                s
            },
            Token::CommentToken(c) => format!("C {}", esc(c)),
            Token::CharacterTokens(c) => format!("S {}", esc(c)),
            Token::NullCharacterToken => "N".into(),
            Token::EOFToken => "E".into(),
            Token::ParseError(_) => "X".into(),
        };
        self.log.borrow_mut().push(format!("tok {} {}", line, s));
        let r = self.inner.process_token(token, line);
        self.drain();
        let rs = match &r {
            TokenSinkResult::Continue => "Continue".to_string(),
            TokenSinkResult::Plaintext => "Plaintext".to_string(),
            TokenSinkResult::RawData(k) => format!("RawData {}", raw_kind(*k)),
            TokenSinkResult::Script(h) => format!("Script {}", h.id),
            TokenSinkResult::EncodingIndicator(e) => format!("Encoding {}", esc(e)),
        };
        self.log.borrow_mut().push(format!("res {}", rs));
        r
    }

    fn end(&self) {
        self.drain();
        self.log.borrow_mut().push("end".into());
        self.inner.end();
        self.drain();
    }

    fn adjusted_current_node_present_but_not_in_html_namespace(&self) -> bool {
        self.drain();
        let a = self.inner.adjusted_current_node_present_but_not_in_html_namespace();
        self.drain();
        self.log.borrow_mut().push(format!("q {}", a as u8));
        a
    }
}

fn parse_cps(s: &str) -> String {
    s.split_whitespace().map(|x| char::from_u32(x.parse::<u32>().unwrap()).unwrap()).collect()
}

fn run_case(line: &str) -> String {
    let f: Vec<&str> = line.split('|').collect();
    if f.len() < 4 {
        return "BADCASE".into();
    }
    let header = format!("{}|{}|{}", f[0].trim(), f[1].trim(), f[2].trim());
    let fl: Vec<u8> = f[1].split_whitespace().map(|x| x.parse().unwrap()).collect();
    let tbopts = TreeBuilderOpts {
        exact_errors: fl[0] == 1,
        scripting_enabled: fl[2] == 1,
        drop_doctype: fl[3] == 1,
        iframe_srcdoc: fl[4] == 1,
        quirks_mode: match fl[5] {
            1 => QuirksMode::LimitedQuirks,
            2 => QuirksMode::Quirks,
            _ => QuirksMode::NoQuirks,
        },
    };
    let mut tokopts =
        TokenizerOpts { exact_errors: fl[0] == 1, discard_bom: fl[1] == 1, profile: false, ..Default::default() };
    let sink = TraceSink::new(RcDom::default());
    let chunks: Vec<String> = f[3].split(';').map(parse_cps).collect();
    let mut init_event: Option<String> = None;
    let tb: TB = if f[0].trim() == "F" {
        let ctx: Vec<&str> = f[2].trim().splitn(3, ':').collect();
        let nsv = match ctx[0] {
            "svg" => ns!(svg),
            "math" => ns!(mathml),
            _ => ns!(html),
        };
        let mut attrs = vec![];
        if ctx.len() > 2 {
            attrs.push(Attribute {
                name: QualName::new(None, ns!(), LocalName::from("encoding")),
                value: StrTendril::from(ctx[2]),
            });
        }
        // html5ever::driver::parse_fragment, with the logging layer in between
        let context_elem = create_element(&sink, QualName::new(None, nsv, LocalName::from(ctx[1])), attrs);
        let form = if fl[7] == 1 {
            Some(create_element(&sink, QualName::new(None, ns!(html), LocalName::from("form")), vec![]))
        } else {
            None
        };
        let tb = TreeBuilder::new_for_fragment(sink, context_elem, form, tbopts);
        let st = tb.tokenizer_state_for_context_elem(fl[6] == 1);
        init_event = Some(match st {
            hs::State::Data => "init Data".to_string(),
            hs::State::Plaintext => "init Plaintext".to_string(),
            hs::State::RawData(k) => format!("init RawData {}", raw_kind(k)),
            other => format!("init {:?}", other),
        });
        tokopts.initial_state = Some(st);
        tb
    } else {
        TreeBuilder::new(sink, tbopts)
    };
    let logging = Logging { inner: tb, log: RefCell::new(vec![]), drained: Cell::new(0) };
    logging.drain();
    if let Some(e) = init_event {
        logging.log.borrow_mut().push(e);
    }
    let tok = Tokenizer::new(logging, tokopts);
    let queue = BufferQueue::default();
    let r = catch_unwind(AssertUnwindSafe(|| {
        for ch in chunks.iter() {
            queue.push_back(StrTendril::from(&**ch));
            // html5ever::driver::Parser::loop_until_done
            let mut n = 0u32;
            loop {
                n += 1;
                if n > 1_000_000 {
                    panic!("feed does not reach Done");
                }
                if let TokenizerResult::Done = tok.feed(&queue) {
                    break;
                }
            }
        }
        assert!(queue.is_empty(), "parser finished with remaining input");
        tok.end();
    }));
    tok.sink.drain();
    let mut log = tok.sink.log.borrow().clone();
    if r.is_err() {
        log.push("PANIC".into());
    } else {
        log.push(format!("fin quirks={}", quirks_name(tok.sink.inner.sink.inner.quirks_mode.get())));
    }
    format!("{} ;; {}", header, log.join(" ; "))
}

fn main() {
    std::panic::set_hook(Box::new(|_| {}));
    let stdin = io::stdin();
    let out = io::stdout();
    let mut out = io::BufWriter::new(out.lock());
    for line in stdin.lock().lines() {
        let line = line.unwrap();
        let r = catch_unwind(AssertUnwindSafe(|| run_case(&line))).unwrap_or_else(|_| "HARNESS-PANIC".into());
        writeln!(out, "{}", r).unwrap();
    }
}
