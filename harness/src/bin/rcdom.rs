//! RcDom driver for C20.  One case per stdin line, one result line per case.
//!
//!   P html FLAGS STR            parse a document with html5ever into TraceSink<RcDom>   (FLAGS: s = scripting, - = none)
//!   P frag STR(ctx) FLAGS STR   parse a fragment with an HTML context element
//!   P xml - STR                 parse with xml5ever
//!       -> TRACE <ops joined by " ; "> |T| SNAPSHOT |X| plain=same|diff
//!   R <ops joined by " ; ">     replay the operations directly into RcDom; the marker op `#dump`
//!                               takes an intermediate snapshot
//!       -> SNAPSHOT || SNAPSHOT || ...            (a panic ends the line with `PANIC <site> <message>`)
//!
//! SNAPSHOT := TREE <forest> | LINKS ok|<findings> | SER <visitor calls> | Q <quirks mode>
//! (same text as ocaml/rcdom_driver.ml prints from the Coq model)
use html5ever::tendril::{StrTendril, TendrilSink};
use html5ever::tree_builder::TreeBuilderOpts;
use html5ever::{ns, LocalName, ParseOpts, QualName};
use markup5ever::serialize::{AttrRef, Serialize, Serializer, TraversalScope};
use markup5ever_rcdom::{Handle, Node, NodeData, RcDom, SerializableHandle};
use std::cell::RefCell;
use std::collections::HashMap;
use std::io::{self, BufRead, Write};
use std::panic::{catch_unwind, AssertUnwindSafe};
use std::rc::Rc;
use verif_harness::tracesink::{esc, fmt_attrs, fmt_qname, parse_trace, quirks_name, unesc, Op, Replayer, TraceSink};

thread_local! {
    static LAST_PANIC: RefCell<String> = RefCell::new(String::new());
}

const MAX_DEPTH: usize = 20000;

struct Ids(HashMap<*const Node, usize>);

impl Ids {
    fn of(handles: &[Handle]) -> Ids {
        let mut m = HashMap::new();
        for (i, h) in handles.iter().enumerate() {
            m.entry(Rc::as_ptr(h)).or_insert(i);
        }
        Ids(m)
    }
    fn name(&self, h: &Handle) -> String {
        match self.0.get(&Rc::as_ptr(h)) {
            Some(i) => i.to_string(),
            None => "-".into(),
        }
    }
}

fn parent_of(h: &Handle) -> Option<Result<Handle, ()>> {
    let w = h.parent.take();
    let r = w.as_ref().map(|w| w.upgrade().ok_or(()));
    h.parent.set(w);
    r
}

fn print_node(out: &mut String, ids: &Ids, h: &Handle, depth: usize) {
    if depth > MAX_DEPTH {
        panic!("harness: tree deeper than {} (cycle?)", MAX_DEPTH);
    }
    match &h.data {
        NodeData::Document => {
            out.push_str("(doc ");
            out.push_str(&ids.name(h));
        },
        NodeData::Doctype { name, public_id, system_id } => {
            out.push_str(&format!("(doctype {} {} {}", esc(name), esc(public_id), esc(system_id)));
        },
        NodeData::Text { contents } => {
            out.push_str(&format!("(text {}", esc(&contents.borrow())));
        },
        NodeData::Comment { contents } => {
            out.push_str(&format!("(comment {} {}", ids.name(h), esc(contents)));
        },
        NodeData::ProcessingInstruction { target, contents } => {
            out.push_str(&format!("(pi {} {} {}", ids.name(h), esc(target), esc(contents)));
        },
        NodeData::Element { name, attrs, template_contents, mathml_annotation_xml_integration_point } => {
            out.push_str(&format!(
                "(elem {} {} {} {}",
                ids.name(h),
                fmt_qname(name),
                if *mathml_annotation_xml_integration_point { "m" } else { "-" },
                fmt_attrs(attrs.borrow().iter().map(|a| (&a.name, &a.value[..])))
            ));
            if let Some(t) = template_contents.borrow().as_ref() {
                out.push_str(" tmpl ");
                print_node(out, ids, t, depth + 1);
            }
        },
    }
    for c in h.children.borrow().iter() {
        out.push(' ');
        print_node(out, ids, c, depth + 1);
    }
    out.push(')');
}

/// downward consistency: every child's parent link names the node that lists it
fn check_down(found: &mut Vec<String>, ids: &Ids, h: &Handle, path: &str, depth: usize) {
    if depth > MAX_DEPTH {
        panic!("harness: tree deeper than {} (cycle?)", MAX_DEPTH);
    }
    if let NodeData::Element { template_contents, .. } = &h.data {
        if let Some(t) = template_contents.borrow().as_ref() {
            check_down(found, ids, t, &format!("{}.t", path), depth + 1);
        }
    }
    for (j, c) in h.children.borrow().iter().enumerate() {
        let p = format!("{}.{}", path, j);
        let desc = match parent_of(c) {
            None => Some("none".to_string()),
            Some(Err(())) => Some("dangling".to_string()),
            Some(Ok(q)) => {
                if Rc::ptr_eq(&q, h) {
                    None
                } else {
                    let n = ids.name(&q);
                    Some(if n == "-" { "anon".to_string() } else { format!("h{}", n) })
                }
            },
        };
        if let Some(d) = desc {
            found.push(format!("D:{}:{}", p, d));
        }
        check_down(found, ids, c, &p, depth + 1);
    }
}

#[derive(Default)]
struct RecSer {
    calls: Vec<String>,
}

impl Serializer for RecSer {
    fn start_elem<'a, AttrIter>(&mut self, name: QualName, attrs: AttrIter) -> io::Result<()>
    where
        AttrIter: Iterator<Item = AttrRef<'a>>,
    {
        self.calls.push(format!("S {} {}", fmt_qname(&name), fmt_attrs(attrs)));
        Ok(())
    }
    fn end_elem(&mut self, name: QualName) -> io::Result<()> {
        self.calls.push(format!("E {}", fmt_qname(&name)));
        Ok(())
    }
    fn write_text(&mut self, text: &str) -> io::Result<()> {
        self.calls.push(format!("T {}", esc(text)));
        Ok(())
    }
    fn write_comment(&mut self, text: &str) -> io::Result<()> {
        self.calls.push(format!("C {}", esc(text)));
        Ok(())
    }
    fn write_doctype(&mut self, name: &str) -> io::Result<()> {
        self.calls.push(format!("D {}", esc(name)));
        Ok(())
    }
    fn write_processing_instruction(&mut self, target: &str, data: &str) -> io::Result<()> {
        self.calls.push(format!("P {} {}", esc(target), esc(data)));
        Ok(())
    }
}

fn is_document(h: &Handle) -> bool {
    matches!(h.data, NodeData::Document)
}

/// TREE / LINKS / SER / Q for the document and (if `all_roots`) every numbered parentless node
fn snapshot(dom: &RcDom, handles: &[Handle], all_roots: bool) -> String {
    let ids = Ids::of(handles);
    let mut roots: Vec<Handle> = vec![dom.document.clone()];
    if all_roots {
        for h in handles.iter().skip(1) {
            if parent_of(h).is_none() && !is_document(h) {
                roots.push(h.clone());
            }
        }
    }
    let mut tree = String::new();
    for (i, r) in roots.iter().enumerate() {
        if i > 0 {
            tree.push(' ');
        }
        print_node(&mut tree, &ids, r, 0);
    }
    let mut found = vec![];
    for (i, r) in roots.iter().enumerate() {
        check_down(&mut found, &ids, r, &i.to_string(), 0);
    }
    // upward consistency: a numbered node with a parent link is listed by that parent
    for (i, h) in handles.iter().enumerate() {
        match parent_of(h) {
            None => {},
            Some(Err(())) => found.push(format!("U:h{}:dangling", i)),
            Some(Ok(p)) => {
                if !p.children.borrow().iter().any(|c| Rc::ptr_eq(c, h)) {
                    let n = ids.name(&p);
                    found.push(format!("U:h{}:{}", i, if n == "-" { "anon".to_string() } else { format!("h{}", n) }));
                }
            },
        }
    }
    let links = if found.is_empty() { "ok".to_string() } else { found.join(" ") };
    let mut ser = vec![];
    for (i, r) in roots.iter().enumerate() {
        let mut s = RecSer::default();
        let scope = if i == 0 { TraversalScope::ChildrenOnly(None) } else { TraversalScope::IncludeNode };
        let sh: SerializableHandle = r.clone().into();
        let res = catch_unwind(AssertUnwindSafe(|| sh.serialize(&mut s, scope)));
        match res {
            Ok(_) => ser.push(s.calls.join(" ")),
            Err(_) => ser.push("!".to_string()),
        }
    }
    format!(
        "TREE {} | LINKS {} | SER {} | Q {}",
        tree,
        links,
        ser.join(" / "),
        quirks_name(dom.quirks_mode.get())
    )
}

fn panic_site(msg: &str) -> u32 {
    if msg.contains("previous_parent.is_none()") {
        1
    } else if msg.contains("couldn't find in parent's children") {
        2
    } else if msg.contains("append_before_sibling called on node without parent") {
        3
    } else if msg.contains("insertion index") {
        4
    } else if msg.contains("not a template element") {
        5
    } else if msg.contains("not an element!") {
        13
    } else if msg.contains("not an element") {
        6
    } else if msg.contains("already borrowed") || msg.contains("already mutably borrowed") {
        7
    } else if msg.contains("Rc::ptr_eq") || msg.contains("Option::unwrap()") || msg.contains("dangling weak") {
        8
    } else if msg.contains("called with non-element node") {
        9
    } else if msg.contains("harness:") {
        99
    } else {
        0
    }
}

fn last_panic() -> String {
    LAST_PANIC.with(|p| p.borrow().clone())
}

fn run_parse(rest: &str) -> String {
    let ws: Vec<&str> = rest.split_whitespace().collect();
    let kind = ws[0];
    let (flags, input, ctx) = match kind {
        "frag" => (ws[2], unesc(ws[3]).unwrap(), Some(unesc(ws[1]).unwrap())),
        _ => (ws[1], unesc(ws[2]).unwrap(), None),
    };
    let opts = || ParseOpts {
        tree_builder: TreeBuilderOpts { scripting_enabled: flags.contains('s'), ..Default::default() },
        ..Default::default()
    };
    let sink = TraceSink::new(RcDom::default());
    let (out, plain) = match kind {
        "html" => (
            html5ever::parse_document(sink, opts()).one(StrTendril::from(&input[..])),
            html5ever::parse_document(RcDom::default(), opts()).one(StrTendril::from(&input[..])),
        ),
        "frag" => {
            let c = ctx.unwrap();
            let q = || QualName::new(None, ns!(html), LocalName::from(&c[..]));
            (
                html5ever::parse_fragment(sink, opts(), q(), vec![], false).one(StrTendril::from(&input[..])),
                html5ever::parse_fragment(RcDom::default(), opts(), q(), vec![], false)
                    .one(StrTendril::from(&input[..])),
            )
        },
        "xml" => (
            xml5ever::driver::parse_document(sink, Default::default()).one(StrTendril::from(&input[..])),
            xml5ever::driver::parse_document(RcDom::default(), Default::default())
                .one(StrTendril::from(&input[..])),
        ),
        x => panic!("harness: bad parse kind {}", x),
    };
    let dom = out.output;
    // the fragment context element is created before anything else and never inserted: list all roots
    let snap = snapshot(&dom, &out.handles, true);
    let none = Ids(HashMap::new());
    let mut a = String::new();
    print_node(&mut a, &none, &dom.document, 0);
    let mut b = String::new();
    print_node(&mut b, &none, &plain.document, 0);
    format!(
        "TRACE {} |T| {} |X| plain={}",
        out.log.join(" ; "),
        snap,
        if a == b { "same" } else { "diff" }
    )
}

fn run_replay(rest: &str) -> String {
    let ops: Vec<Op> = match parse_trace(rest) {
        Ok(o) => o,
        Err(e) => return format!("BADTRACE {}", e),
    };
    let dom = RcDom::default();
    let mut rp = Replayer::new(&dom);
    let mut snaps: Vec<String> = vec![];
    for op in ops.iter() {
        if *op == Op::Dump {
            snaps.push(snapshot(&dom, &rp.handles, true));
            continue;
        }
        let r = catch_unwind(AssertUnwindSafe(|| rp.step(op)));
        match r {
            Ok(Ok(())) => {},
            Ok(Err(e)) => {
                snaps.push(format!("PANIC 11 {}", esc(&e)));
                return snaps.join(" || ");
            },
            Err(_) => {
                let m = last_panic();
                snaps.push(format!("PANIC {} {}", panic_site(&m), esc(&m)));
                // a panic inside RefCell borrows can leave the nodes in any state: stop here
                std::mem::forget(rp.handles);
                std::mem::forget(dom);
                return snaps.join(" || ");
            },
        }
    }
    snaps.push(snapshot(&dom, &rp.handles, true));
    snaps.join(" || ")
}

fn main() {
    std::panic::set_hook(Box::new(|info| {
        let msg = if let Some(s) = info.payload().downcast_ref::<&str>() {
            s.to_string()
        } else if let Some(s) = info.payload().downcast_ref::<String>() {
            s.clone()
        } else {
            "?".to_string()
        };
        LAST_PANIC.with(|p| *p.borrow_mut() = msg);
    }));
    let stdin = io::stdin();
    let out = io::stdout();
    let mut out = io::BufWriter::new(out.lock());
    for line in stdin.lock().lines() {
        let line = line.unwrap();
        let line = line.trim();
        let r = catch_unwind(AssertUnwindSafe(|| {
            if let Some(rest) = line.strip_prefix("P ") {
                run_parse(rest)
            } else if let Some(rest) = line.strip_prefix("R ") {
                run_replay(rest)
            } else if line == "R" {
                run_replay("")
            } else {
                format!("BADCASE")
            }
        }));
        match r {
            Ok(s) => writeln!(out, "{}", s).unwrap(),
            Err(_) => {
                let m = last_panic();
                writeln!(out, "PANIC {} {}", panic_site(&m), esc(&m)).unwrap()
            },
        }
    }
}
