//! XML namespace / serializer driver for C16 and C17 (public API only).
//!
//! stdin : one case per line, the XML text as decimal code points separated by blanks
//! stdout: one line per case, sections separated by " | ":
//!   TOKS <tokens of parse 1> | TREE <tree 1> | ERRS <tokenizer errors> <tree builder errors>
//!   | SER <serialization, code points> | TOKS2 .. | TREE2 .. | ERRS2 .. ..
//!
//! strings : code points in hex joined by '.', "_" = empty, "~" = None
//! tokens  : GS/GE/GM/GH prefix local n (prefix local value)*   start/end/empty/short tag
//!           X s | C s | P target data | D name public system | N | Z
//! tree    : ( prefix ns local n (prefix ns local value)* children )   element
//!           X s | C s | P target data | D name public system
//! The token stream is recorded by a TokenSink wrapped around XmlTreeBuilder, i.e. it is
//! exactly what the tree builder received (ParseError tokens are only counted).
use markup5ever::buffer_queue::BufferQueue;
use markup5ever_rcdom::{Handle, NodeData, RcDom, SerializableHandle};
use std::cell::{Cell, RefCell};
use std::io::{self, BufRead, Write};
use std::panic::{catch_unwind, AssertUnwindSafe};
use tendril::StrTendril;
use xml5ever::serialize::{serialize, SerializeOpts};
use xml5ever::tokenizer::{
    EmptyTag, EndTag, ProcessResult, ShortTag, StartTag, Token, TokenSink, XmlTokenizer,
};
use xml5ever::tree_builder::XmlTreeBuilder;
use xml5ever::TokenizerResult;

fn enc(s: &str) -> String {
    if s.is_empty() {
        return "_".into();
    }
    let v: Vec<String> = s.chars().map(|c| format!("{:x}", c as u32)).collect();
    v.join(".")
}

fn enc_opt(s: Option<&str>) -> String {
    match s {
        None => "~".into(),
        Some(x) => enc(x),
    }
}

struct Rec {
    inner: XmlTreeBuilder<Handle, RcDom>,
    toks: RefCell<Vec<String>>,
    tok_errors: Cell<usize>,
}

impl TokenSink for Rec {
    type Handle = Handle;

    fn process_token(&self, token: Token) -> ProcessResult<Handle> {
        let s = match &token {
            Token::Tag(t) => {
                let k = match t.kind {
                    StartTag => "GS",
                    EndTag => "GE",
                    EmptyTag => "GM",
                    ShortTag => "GH",
                };
                let mut s = format!(
                    "{} {} {} {}",
                    k,
                    enc_opt(t.name.prefix.as_ref().map(|p| &**p)),
                    enc(&t.name.local),
                    t.attrs.len()
                );
                for a in &t.attrs {
                    s.push_str(&format!(
                        " {} {} {}",
                        enc_opt(a.name.prefix.as_ref().map(|p| &**p)),
                        enc(&a.name.local),
                        enc(&a.value)
                    ));
                }
                Some(s)
            },
            Token::Characters(c) => Some(format!("X {}", enc(c))),
            Token::Comment(c) => Some(format!("C {}", enc(c))),
            Token::ProcessingInstruction(p) => Some(format!("P {} {}", enc(&p.target), enc(&p.data))),
            Token::Doctype(d) => Some(format!(
                "D {} {} {}",
                enc_opt(d.name.as_deref()),
                enc_opt(d.public_id.as_deref()),
                enc_opt(d.system_id.as_deref())
            )),
            Token::NullCharacter => Some("N".into()),
            Token::EndOfFile => Some("Z".into()),
            Token::ParseError(_) => {
                self.tok_errors.set(self.tok_errors.get() + 1);
                None
            },
        };
        if let Some(s) = s {
            self.toks.borrow_mut().push(s);
        }
        self.inner.process_token(token)
    }

    fn end(&self) {
        self.inner.end()
    }
}

fn tree(h: &Handle, out: &mut Vec<String>) {
    match h.data {
        NodeData::Document => {
            for c in h.children.borrow().iter() {
                tree(c, out);
            }
        },
        NodeData::Element {
            ref name,
            ref attrs,
            ..
        } => {
            let attrs = attrs.borrow();
            let mut s = format!(
                "( {} {} {} {}",
                enc_opt(name.prefix.as_ref().map(|p| &**p)),
                enc(&name.ns),
                enc(&name.local),
                attrs.len()
            );
            for a in attrs.iter() {
                s.push_str(&format!(
                    " {} {} {} {}",
                    enc_opt(a.name.prefix.as_ref().map(|p| &**p)),
                    enc(&a.name.ns),
                    enc(&a.name.local),
                    enc(&a.value)
                ));
            }
            out.push(s);
            for c in h.children.borrow().iter() {
                tree(c, out);
            }
            out.push(")".into());
        },
        NodeData::Text { ref contents } => out.push(format!("X {}", enc(&contents.borrow()))),
        NodeData::Comment { ref contents } => out.push(format!("C {}", enc(contents))),
        NodeData::ProcessingInstruction {
            ref target,
            ref contents,
        } => out.push(format!("P {} {}", enc(target), enc(contents))),
        NodeData::Doctype {
            ref name,
            ref public_id,
            ref system_id,
        } => out.push(format!("D {} {} {}", enc(name), enc(public_id), enc(system_id))),
    }
}

/// tokenize + build; returns (tokens, tree, tokenizer errors, tree builder errors, dom)
fn parse(text: &str) -> (String, String, usize, usize, RcDom) {
    let tb = XmlTreeBuilder::new(RcDom::default(), Default::default());
    let rec = Rec {
        inner: tb,
        toks: RefCell::new(vec![]),
        tok_errors: Cell::new(0),
    };
    let tok = XmlTokenizer::new(rec, Default::default());
    let input = BufferQueue::default();
    input.push_back(StrTendril::from(text));
    // as xml5ever::driver::XmlParser::process does
    while let TokenizerResult::Script(_) = tok.feed(&input) {}
    tok.end();
    let rec = tok.sink;
    let toks = rec.toks.borrow().join(" ");
    let tok_errors = rec.tok_errors.get();
    let dom = rec.inner.sink;
    let all_errors = dom.errors.borrow().len();
    let mut t = vec![];
    tree(&dom.document, &mut t);
    (toks, t.join(" "), tok_errors, all_errors - tok_errors, dom)
}

fn run_case(line: &str) -> String {
    let text: String = line
        .split_whitespace()
        .map(|x| char::from_u32(x.parse::<u32>().expect("code point")).expect("scalar value"))
        .collect();
    let (toks, t1, te, be, dom) = parse(&text);
    let mut buf: Vec<u8> = vec![];
    let doc: SerializableHandle = dom.document.clone().into();
    serialize(&mut buf, &doc, SerializeOpts::default()).expect("serialize");
    let ser = String::from_utf8(buf).expect("serializer wrote utf-8");
    let (toks2, t2, te2, be2, _) = parse(&ser);
    let sercps: Vec<String> = ser.chars().map(|c| format!("{}", c as u32)).collect();
    format!(
        "TOKS {} | TREE {} | ERRS {} {} | SER {} | TOKS2 {} | TREE2 {} | ERRS2 {} {}",
        toks,
        t1,
        te,
        be,
        sercps.join(" "),
        toks2,
        t2,
        te2,
        be2
    )
}

fn main() {
    std::panic::set_hook(Box::new(|_| {}));
    let stdin = io::stdin();
    let out = io::stdout();
    let mut out = io::BufWriter::new(out.lock());
    for line in stdin.lock().lines() {
        let line = line.unwrap();
        let r = catch_unwind(AssertUnwindSafe(|| run_case(&line)));
        match r {
            Ok(s) => writeln!(out, "{}", s).unwrap(),
            Err(_) => writeln!(out, "PANIC").unwrap(),
        }
    }
}
