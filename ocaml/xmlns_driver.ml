(* Driver for the extracted XML tree builder / serializer models.
   One case per line, first word = mode; strings are code points in hex joined
   by '.', "_" = empty, "~" = None (same conventions as harness/src/bin/xmlns.rs).

   RAW <raw tokens>   GS|GE|GM|GH rawname n (rawattrname value)* | X s | C s | P t d | D n p s | N | Z
        -> "TOKS <tokens> | TREE <tree> | ERRS <n>"      (tokenize, then tree builder)
   TOK <tokens>       GS|GE|GM|GH prefix local n (prefix local value)* | X s | ...
        -> "TREE <tree> | ERRS <n>"                      (tree builder on recorded tokens)
   SER <tree>         ( prefix ns local n (prefix ns local value)* kids ) | X s | C s | P t d | D n p s
        -> "SER <code points, decimal> | TOKS <tokens the items denote> | TREE <tree built from them> | ERRS n
            | FLAGS cons= adequate= roundtrip= hyps= lex="   (forest_cons, adequate, roundtrip_tok,
               rt_hyps = the hypotheses of C17_roundtrip_partial, lex_hyps = the character conditions of
               C17_roundtrip_through_tokenizer_partial)
   LEX <t|a> <string> -> lex_text / lex_attr_value of escape(string) ++ terminator  *)

let dec s : n list =
  if s = "_" then [] else List.map (fun h -> n_of_int (int_of_string ("0x" ^ h))) (String.split_on_char '.' s)
let dec_opt s = if s = "~" then None else Some (dec s)
let enc (l : n list) =
  if l = [] then "_" else String.concat "." (List.map (fun c -> Printf.sprintf "%x" (int_of_n c)) l)
let enc_opt = function None -> "~" | Some l -> enc l

let kind_of = function
  | "GS" -> StartTag | "GE" -> EndTag | "GM" -> EmptyTag | "GH" -> ShortTag | _ -> failwith "kind"
let kind_str = function StartTag -> "GS" | EndTag -> "GE" | EmptyTag -> "GM" | ShortTag -> "GH"

(* ---- parsing ---- *)
let rec take_attrs2 n ws acc =
  if n = 0 then (List.rev acc, ws)
  else match ws with
    | a :: v :: r -> take_attrs2 (n - 1) r ((dec a, dec v) :: acc)
    | _ -> failwith "raw attrs"

let rec parse_raw_tokens ws acc =
  match ws with
  | [] -> List.rev acc
  | ("GS" | "GE" | "GM" | "GH" as k) :: name :: n :: r ->
    let (attrs, r') = take_attrs2 (int_of_string n) r [] in
    parse_raw_tokens r' (RTag (kind_of k, dec name, attrs) :: acc)
  | "X" :: s :: r -> parse_raw_tokens r (RChars (dec s) :: acc)
  | "C" :: s :: r -> parse_raw_tokens r (RComment (dec s) :: acc)
  | "P" :: t :: d :: r -> parse_raw_tokens r (RPi (dec t, dec d) :: acc)
  | "D" :: a :: b :: c :: r -> parse_raw_tokens r (RDoctype (dec_opt a, dec_opt b, dec_opt c) :: acc)
  | "N" :: r -> parse_raw_tokens r (RNull :: acc)
  | "Z" :: r -> parse_raw_tokens r (REof :: acc)
  | w :: _ -> failwith ("raw token " ^ w)

let rawname pfx loc = match pfx with None -> loc | Some p -> p @ [n_of_int 58] @ loc

let rec take_attrs3 n ws acc =
  if n = 0 then (List.rev acc, ws)
  else match ws with
    | p :: l :: v :: r ->
      take_attrs3 (n - 1) r ({ aname = { qprefix = dec_opt p; qns = []; qlocal = dec l }; avalue = dec v } :: acc)
    | _ -> failwith "attrs"

let rec parse_tokens_in ws acc =
  match ws with
  | [] -> List.rev acc
  | ("GS" | "GE" | "GM" | "GH" as k) :: p :: l :: n :: r ->
    let (attrs, r') = take_attrs3 (int_of_string n) r [] in
    let q = { qprefix = dec_opt p; qns = []; qlocal = dec l } in
    (* ghost source: reconstructed, never inspected by the builder *)
    let src = (rawname q.qprefix q.qlocal,
               List.map (fun a -> (rawname a.aname.qprefix a.aname.qlocal, a.avalue)) attrs) in
    parse_tokens_in r' (TTag (kind_of k, q, attrs, src) :: acc)
  | "X" :: s :: r -> parse_tokens_in r (TChars (dec s) :: acc)
  | "C" :: s :: r -> parse_tokens_in r (TComment (dec s) :: acc)
  | "P" :: t :: d :: r -> parse_tokens_in r (TPi (dec t, dec d) :: acc)
  | "D" :: a :: b :: c :: r -> parse_tokens_in r (TDoctype (dec_opt a, dec_opt b, dec_opt c) :: acc)
  | "N" :: r -> parse_tokens_in r (TNull :: acc)
  | "Z" :: r -> parse_tokens_in r (TEof :: acc)
  | w :: _ -> failwith ("token " ^ w)

let rec take_attrs4 n ws acc =
  if n = 0 then (List.rev acc, ws)
  else match ws with
    | p :: u :: l :: v :: r ->
      take_attrs4 (n - 1) r ({ aname = { qprefix = dec_opt p; qns = dec u; qlocal = dec l }; avalue = dec v } :: acc)
    | _ -> failwith "tree attrs"

(* returns (nodes, rest) up to the matching ")" or end of input *)
let rec parse_nodes ws acc =
  match ws with
  | [] -> (List.rev acc, [])
  | ")" :: r -> (List.rev acc, r)
  | "(" :: p :: u :: l :: n :: r ->
    let (attrs, r1) = take_attrs4 (int_of_string n) r [] in
    let (kids, r2) = parse_nodes r1 [] in
    parse_nodes r2 (XElem ({ qprefix = dec_opt p; qns = dec u; qlocal = dec l }, attrs, kids) :: acc)
  | "X" :: s :: r -> parse_nodes r (XText (dec s) :: acc)
  | "C" :: s :: r -> parse_nodes r (XComment (dec s) :: acc)
  | "P" :: t :: d :: r -> parse_nodes r (XPi (dec t, dec d) :: acc)
  | "D" :: a :: b :: c :: r -> parse_nodes r (XDoctype (dec a, dec b, dec c) :: acc)
  | w :: _ -> failwith ("tree " ^ w)

(* ---- printing ---- *)
let show_token = function
  | TTag (k, q, attrs, _) ->
    String.concat " "
      ([kind_str k; enc_opt q.qprefix; enc q.qlocal; string_of_int (List.length attrs)]
       @ List.concat_map (fun a -> [enc_opt a.aname.qprefix; enc a.aname.qlocal; enc a.avalue]) attrs)
  | TChars s -> "X " ^ enc s
  | TComment s -> "C " ^ enc s
  | TPi (t, d) -> "P " ^ enc t ^ " " ^ enc d
  | TDoctype (a, b, c) -> "D " ^ enc_opt a ^ " " ^ enc_opt b ^ " " ^ enc_opt c
  | TNull -> "N"
  | TEof -> "Z"

let rec show_node buf = function
  | XElem (q, attrs, kids) ->
    Buffer.add_string buf
      (String.concat " "
         (["("; enc_opt q.qprefix; enc q.qns; enc q.qlocal; string_of_int (List.length attrs)]
          @ List.concat_map (fun a -> [enc_opt a.aname.qprefix; enc a.aname.qns; enc a.aname.qlocal; enc a.avalue]) attrs));
    List.iter (fun k -> Buffer.add_char buf ' '; show_node buf k) kids;
    Buffer.add_string buf " )"
  | XText s -> Buffer.add_string buf ("X " ^ enc s)
  | XComment s -> Buffer.add_string buf ("C " ^ enc s)
  | XPi (t, d) -> Buffer.add_string buf ("P " ^ enc t ^ " " ^ enc d)
  | XDoctype (a, b, c) -> Buffer.add_string buf ("D " ^ enc a ^ " " ^ enc b ^ " " ^ enc c)

let show_nodes l =
  let buf = Buffer.create 256 in
  List.iteri (fun i k -> if i > 0 then Buffer.add_char buf ' '; show_node buf k) l;
  Buffer.contents buf

let show_state st =
  let t = show_nodes (List.map erase (document st)) in
  Printf.sprintf "TREE %s | ERRS %d%s" t (int_of_nat st.terrs) (if st.tpanic then " PANIC" else "")

let () =
  iter_lines (fun line ->
    let out =
      try
        match words line with
        | "RAW" :: ws ->
          let toks = List.map tokenize (parse_raw_tokens ws []) in
          Printf.sprintf "TOKS %s | %s" (String.concat " " (List.map show_token toks)) (show_state (run toks))
        | "TOK" :: ws -> show_state (run (parse_tokens_in ws []))
        | "SER" :: ws ->
          let (nodes, _) = parse_nodes ws [] in
          let items = ser_doc nodes in
          let toks = List.map (fun i -> tokenize (item_rtoken i)) items in
          let b x = if x then "1" else "0" in
          Printf.sprintf "SER %s | TOKS %s | %s | FLAGS cons=%s adequate=%s roundtrip=%s hyps=%s lex=%s"
            (String.concat " " (List.map (fun c -> string_of_int (int_of_n c)) (render items)))
            (String.concat " " (List.map show_token toks))
            (show_state (run (toks @ [TEof])))
            (b (forest_cons nodes)) (b (adequate items [])) (b (roundtrip_tok nodes)) (b (rt_hyps nodes))
            (b (lex_hyps nodes))
        | ["LEX"; m; s] ->
          let s = dec s in
          let attr_mode = (m = "a") in
          let e = escape attr_mode s @ [n_of_int (if attr_mode then 34 else 60)] in
          let fuel = nat_of_int (List.length e + 1) in
          (match (if attr_mode then lex_attr_value fuel e else lex_text fuel e) with
           | None -> "NONE"
           | Some (t, _) -> enc t)
        | _ -> "BADCASE"
      with Failure m -> "FAIL " ^ m in
    print_string out;
    print_newline ())
