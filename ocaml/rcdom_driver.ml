(* C20 model driver.  One case per line:   R <ops joined by " ; ">
   (the line format of harness/src/tracesink.rs; `#dump` = intermediate snapshot)
   Output:  <RcModel snapshots joined by " || ">  ## SPEC <tree> | Q <quirks>  ## CONTRACT ok | bad@<k> <op name>
   The snapshot text is the one harness/src/bin/rcdom.rs prints for the real RcDom.
   (CONTRACT also says bad@<k> clone_not_finite when the finiteness premise of C20_refines fails.)
   argv: --fixed  selects the model of the repaired option->selectedcontent code (rrun true);
   without it the model of the pinned commit, whose search inspects self.data. *)
let fixed = Array.exists (fun a -> a = "--fixed") Sys.argv

(* ---------- strings ---------- *)
let unesc (tok : string) : n list =
  let len = String.length tok in
  if len < 2 || tok.[0] <> '"' || tok.[len - 1] <> '"' then failwith ("not a string token: " ^ tok);
  let rec go i acc =
    if i >= len - 1 then List.rev acc
    else if tok.[i] = '\\' then begin
      (* \u{HEX} *)
      let j = String.index_from tok i '}' in
      let hex = String.sub tok (i + 3) (j - i - 3) in
      go (j + 1) (n_of_int (int_of_string ("0x" ^ hex)) :: acc)
    end else go (i + 1) (n_of_int (Char.code tok.[i]) :: acc) in
  go 1 []

let esc (s : n list) : string =
  let b = Buffer.create 16 in
  Buffer.add_char b '"';
  List.iter (fun c ->
    let u = int_of_n c in
    if u >= 0x21 && u <= 0x7e && u <> 0x22 && u <> 0x5c then Buffer.add_char b (Char.chr u)
    else Buffer.add_string b (Printf.sprintf "\\u{%x}" u)) s;
  Buffer.add_char b '"';
  Buffer.contents b

(* ---------- parsing op lines ---------- *)
exception Dump
let parse_op (line : string) : sinkop =
  let toks = ref (words line) in
  let next () = match !toks with t :: r -> toks := r; t | [] -> failwith ("missing token in: " ^ line) in
  let num () = nat_of_int (int_of_string (next ())) in
  let s () = unesc (next ()) in
  let opt_s () = let t = next () in if t = "-" then None else Some (unesc t) in
  let qn () = let p = opt_s () in let ns = s () in let l = s () in { q_prefix = p; q_ns = ns; q_local = l } in
  let attrs () =
    let k = int_of_string (next ()) in
    let rec go i acc = if i = 0 then List.rev acc else
        let q = qn () in let v = s () in go (i - 1) ({ d_name = q; d_value = v } :: acc) in
    go k [] in
  let child () = match next () with
    | "n" -> Inl (num ())
    | "t" -> Inr (s ())
    | x -> failwith ("bad child kind " ^ x) in
  let op = match next () with
    | "create_element" ->
      let h = num () in let q = qn () in let f = next () in let a = attrs () in
      OpCreateElement (h, q, a, String.contains f 't', String.contains f 'm', String.contains f 'd')
    | "create_comment" -> let h = num () in OpCreateComment (h, s ())
    | "create_pi" -> let h = num () in let t = s () in OpCreatePi (h, t, s ())
    | "append" -> let p = num () in OpAppend (p, child ())
    | "append_before_sibling" -> let p = num () in OpAppendBeforeSibling (p, child ())
    | "append_based_on_parent_node" -> let e = num () in let p = num () in OpAppendBasedOnParent (e, p, child ())
    | "append_doctype_to_document" -> let a = s () in let b = s () in OpAppendDoctype (a, b, s ())
    | "add_attrs_if_missing" -> let h = num () in OpAddAttrsIfMissing (h, attrs ())
    | "remove_from_parent" -> OpRemoveFromParent (num ())
    | "reparent_children" -> let a = num () in OpReparentChildren (a, num ())
    | "get_template_contents" -> let a = num () in OpGetTemplateContents (a, num ())
    | "mark_script_already_started" -> OpMarkScriptStarted (num ())
    | "pop" -> OpPop (num ())
    | "set_quirks_mode" ->
      OpSetQuirks (n_of_int (match next () with
          | "Quirks" -> 0 | "LimitedQuirks" -> 1 | "NoQuirks" -> 2 | x -> failwith ("bad quirks mode " ^ x)))
    | "set_current_line" -> OpSetLine (n_of_int (int_of_string (next ())))
    | "associate_with_form" ->
      let t = num () in let f = num () in let e = num () in
      let p = next () in
      OpAssociateForm (t, f, e, if p = "-" then None else Some (nat_of_int (int_of_string p)))
    | "maybe_clone_an_option_into_selectedcontent" -> OpCloneOption (num ())
    | "parse_error" -> ignore (s ()); OpParseError
    | "elem_name" -> OpElemName (num ())
    | "is_mathml_annotation_xml_integration_point" -> OpIsMathmlIp (num ())
    (* pure queries without a counterpart in the model: no effect *)
    | "same_node" | "get_document" | "allow_declarative_shadow_roots" | "attach_declarative_shadow" -> toks := []; OpParseError
    | "#dump" -> raise Dump
    | x -> failwith ("unknown op " ^ x) in
  if !toks <> [] then failwith ("trailing tokens in: " ^ line);
  op

let op_name = function
  | OpCreateElement _ -> "create_element" | OpCreateComment _ -> "create_comment" | OpCreatePi _ -> "create_pi"
  | OpAppend _ -> "append" | OpAppendBeforeSibling _ -> "append_before_sibling"
  | OpAppendBasedOnParent _ -> "append_based_on_parent_node" | OpAppendDoctype _ -> "append_doctype_to_document"
  | OpAddAttrsIfMissing _ -> "add_attrs_if_missing" | OpRemoveFromParent _ -> "remove_from_parent"
  | OpReparentChildren _ -> "reparent_children" | OpGetTemplateContents _ -> "get_template_contents"
  | OpMarkScriptStarted _ -> "mark_script_already_started" | OpPop _ -> "pop" | OpSetQuirks _ -> "set_quirks_mode"
  | OpSetLine _ -> "set_current_line" | OpAssociateForm _ -> "associate_with_form"
  | OpCloneOption _ -> "maybe_clone_an_option_into_selectedcontent" | OpElemName _ -> "elem_name"
  | OpIsMathmlIp _ -> "is_mathml_annotation_xml_integration_point" | OpParseError -> "parse_error"

(* split on " ; " *)
let split_ops (line : string) : string list =
  let parts = Str.split (Str.regexp_string " ; ") line in
  List.filter (fun s -> String.trim s <> "") (List.map String.trim parts)

(* ---------- printing ---------- *)
let quirks_name q = match int_of_n q with 0 -> "Quirks" | 1 -> "LimitedQuirks" | _ -> "NoQuirks"
let fmt_opt = function None -> "-" | Some s -> esc s
let fmt_qname q = Printf.sprintf "%s %s %s" (fmt_opt q.q_prefix) (esc q.q_ns) (esc q.q_local)
let fmt_attrs (l : dattr list) =
  if l = [] then "0" else
    Printf.sprintf "%d %s" (List.length l)
      (String.concat " " (List.map (fun a -> fmt_qname a.d_name ^ " " ^ esc a.d_value) l))

(* a uniform read-only view so that the same printer serves RcModel states and Spec doms *)
type view = { vsize : int; vdata : int -> data; vkids : int -> int list; vparent : int -> int option; vname : int -> string }

let array_of_names (names : nid list) (size : int) : string array =
  let a = Array.make size "-" in
  List.iteri (fun h n -> let i = int_of_nat n in if i < size && a.(i) = "-" then a.(i) <- string_of_int h) names;
  a

let view_of_rc (s : rc) : view =
  let nodes = Array.of_list s.r_nodes in
  let size = Array.length nodes in
  let names = array_of_names s.r_names size in
  { vsize = size;
    vdata = (fun i -> nodes.(i).r_data);
    vkids = (fun i -> List.map int_of_nat nodes.(i).r_kids);
    vparent = (fun i -> match nodes.(i).r_parent with None -> None | Some p -> Some (int_of_nat p));
    vname = (fun i -> names.(i)) }

let view_of_dom (d : dom) : view =
  let nodes = Array.of_list d.d_nodes in
  let size = Array.length nodes in
  let names = array_of_names d.d_names size in
  let par = Array.make size None in
  (* first parent in index order, as DomSpec.parent_of *)
  for p = size - 1 downto 0 do
    List.iter (fun k -> let k = int_of_nat k in if k < size then par.(k) <- Some p) nodes.(p).n_kids
  done;
  { vsize = size;
    vdata = (fun i -> nodes.(i).n_data);
    vkids = (fun i -> List.map int_of_nat nodes.(i).n_kids);
    vparent = (fun i -> par.(i));
    vname = (fun i -> names.(i)) }

let max_depth = 20000
let rec print_node (b : Buffer.t) (v : view) (i : int) (depth : int) : unit =
  if depth > max_depth then failwith "tree too deep (cycle?)";
  (match v.vdata i with
   | Document -> Buffer.add_string b ("(doc " ^ v.vname i)
   | Doctype (n, p, s) -> Buffer.add_string b (Printf.sprintf "(doctype %s %s %s" (esc n) (esc p) (esc s))
   | Text t -> Buffer.add_string b ("(text " ^ esc t)
   | Comment t -> Buffer.add_string b (Printf.sprintf "(comment %s %s" (v.vname i) (esc t))
   | PI (t, d) -> Buffer.add_string b (Printf.sprintf "(pi %s %s %s" (v.vname i) (esc t) (esc d))
   | Element (q, a, tm, ip) ->
     Buffer.add_string b (Printf.sprintf "(elem %s %s %s %s" (v.vname i) (fmt_qname q) (if ip then "m" else "-") (fmt_attrs a));
     (match tm with
      | Some t -> Buffer.add_string b " tmpl "; print_node b v (int_of_nat t) (depth + 1)
      | None -> ()));
  List.iter (fun c -> Buffer.add_char b ' '; print_node b v c (depth + 1)) (v.vkids i);
  Buffer.add_char b ')'

let is_document = function Document -> true | _ -> false

let roots (v : view) (names : nid list) : int list =
  0 :: List.filter_map (fun n ->
      let i = int_of_nat n in
      if i <> 0 && i < v.vsize && v.vparent i = None && not (is_document (v.vdata i)) then Some i else None)
    (match names with _ :: t -> t | [] -> [])

let tree_string (v : view) (rs : int list) : string =
  let b = Buffer.create 256 in
  List.iteri (fun k r -> if k > 0 then Buffer.add_char b ' '; print_node b v r 0) rs;
  Buffer.contents b

let rec check_down (found : string list ref) (v : view) (i : int) (path : string) (depth : int) : unit =
  if depth > max_depth then failwith "tree too deep (cycle?)";
  (match v.vdata i with
   | Element (_, _, Some t, _) -> check_down found v (int_of_nat t) (path ^ ".t") (depth + 1)
   | _ -> ());
  List.iteri (fun j c ->
      let p = Printf.sprintf "%s.%d" path j in
      (match v.vparent c with
       | None -> found := Printf.sprintf "D:%s:none" p :: !found
       | Some q when q = i -> ()
       | Some q -> found := Printf.sprintf "D:%s:%s" p (if v.vname q = "-" then "anon" else "h" ^ v.vname q) :: !found);
      check_down found v c p (depth + 1)) (v.vkids i)

let rc_snapshot (s : rc) : string =
  let v = view_of_rc s in
  let rs = roots v s.r_names in
  let found = ref [] in
  List.iteri (fun k r -> check_down found v r (string_of_int k) 0) rs;
  List.iteri (fun h n ->
      let i = int_of_nat n in
      match v.vparent i with
      | None -> ()
      | Some p -> if not (List.mem i (v.vkids p)) then
          found := Printf.sprintf "U:h%d:%s" h (if v.vname p = "-" then "anon" else "h" ^ v.vname p) :: !found) s.r_names;
  let links = if !found = [] then "ok" else String.concat " " (List.rev !found) in
  let fuel = nat_of_int (4 * v.vsize + 8) in
  let ser = List.mapi (fun k r ->
      match serialize fuel s (nat_of_int r) (k > 0) with
      | SerOk evs ->
        String.concat " " (List.map (fun e -> match call_of s e with
            | VStart (q, a) -> Printf.sprintf "S %s %s" (fmt_qname q) (fmt_attrs a)
            | VEnd q -> "E " ^ fmt_qname q
            | VText t -> "T " ^ esc t
            | VComment t -> "C " ^ esc t
            | VDoctype n -> "D " ^ esc n
            | VPI (t, d) -> Printf.sprintf "P %s %s" (esc t) (esc d)
            | VNone -> "?") evs)
      | SerPanic -> "!"
      | SerFuel -> "FUEL") rs in
  Printf.sprintf "TREE %s | LINKS %s | SER %s | Q %s" (tree_string v rs) links (String.concat " / " ser)
    (quirks_name s.r_quirks)

let spec_snapshot (d : dom) : string =
  let v = view_of_dom d in
  Printf.sprintf "TREE %s | Q %s" (tree_string v (roots v d.d_names)) (quirks_name d.d_quirks)

let () =
  iter_lines (fun line ->
    let line = String.trim line in
    let body =
      if String.length line >= 2 && String.sub line 0 2 = "R " then String.sub line 2 (String.length line - 2)
      else if line = "R" then "" else line in
    try
      let snaps = ref [] in
      let st = ref (Ok rinit) in
      let sp = ref init in
      let contract = ref "ok" in
      let k = ref 0 in
      List.iter (fun l ->
          match (try Some (parse_op l) with Dump -> None) with
          | None -> (match !st with Ok s -> snaps := rc_snapshot s :: !snaps | Panic _ -> ())
          | Some op ->
            (match !st with
             | Ok s ->
               if !contract = "ok" && not (contract_ok !sp op) then
                 contract := Printf.sprintf "bad@%d %s" !k (op_name op);
               (* premise of C20_refines: the option's subtree (template contents included) is finite *)
               if !contract = "ok" && not (clone_finite_op !sp op) then
                 contract := Printf.sprintf "bad@%d clone_not_finite" !k;
               sp := apply !sp op;
               st := rapply fixed s op
             | Panic _ -> ());
            incr k) (split_ops body);
      (match !st with
       | Ok s -> snaps := rc_snapshot s :: !snaps
       | Panic site -> snaps := Printf.sprintf "PANIC %d" (int_of_n site) :: !snaps);
      print_string (String.concat " || " (List.rev !snaps));
      print_string (" ## SPEC " ^ (if !contract = "ok" then spec_snapshot !sp else "-"));
      print_string (" ## CONTRACT " ^ !contract);
      print_newline ()
    with Failure m | Invalid_argument m -> print_endline ("MODELERROR " ^ m)
       | Not_found -> print_endline "MODELERROR not_found")
