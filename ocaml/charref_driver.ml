(* C14 model driver: the extracted char-ref model (cr_new / cr_step / cr_eof on
   the generated table) inside a small emulation of how the HTML tokenizer uses
   it (step_char_ref_tokenizer / process_char_ref / end()): the text of a data,
   RCDATA or attribute-value context is read character by character with the
   tokenizer's newline normalisation (get_char: CR -> LF, LF after CR dropped);
   '&' starts a character reference, whose Done(chars) delivers the characters,
   or '&' itself when chars = []; Stuck waits for the next chunk; at end of
   input cr_eof runs on a fresh queue and what it un-consumes is then read
   normally.  Same line protocol as harness/src/bin/charref.rs:
     CTX FLAGS | cps | cps ..      ->   T cps | A cps or - | E codes
   Preconditions on cases (guaranteed by lib/checks/c14.py): in D/R a '<' only as
   the very last character before end of input; U bodies start with a
   non-space, non-quote, non-'>' character, contain no '>' and white space only
   as their last character; S/Q bodies do not contain their own quote. *)
let table = gen_table

let err_code exact = function
  | ErrSemicolonMissing -> "S"
  | ErrNoDigits -> "D"
  | ErrInvalidNumeric n -> if exact then "N:" ^ string_of_int (int_of_n n) else "N"
  | ErrInvalidName l ->
      if exact then "I:" ^ String.concat "," (List.map (fun c -> string_of_int (int_of_n c)) l) else "I"
  | ErrNoSemicolonNamed -> "M"
  | ErrEofNumeric -> "F"
  | ErrEofAfterHash -> "H"

let run_case line =
  let groups = String.split_on_char '|' line in
  let head = words (List.hd groups) in
  let ctx = (List.nth head 0).[0] in
  let flags = List.nth head 1 in
  let closed = flags.[0] = 'c' in
  let exact = flags.[1] = 'x' in
  let body = List.map (fun g -> List.map n_of_int (ints (words g))) (List.tl groups) in
  let closing =
    if not closed then []
    else match ctx with
      | 'U' -> [[62]] | 'S' -> [[39; 62]] | 'Q' -> [[34; 62]] | _ -> [] in
  let chunks = body @ List.map (List.map n_of_int) closing in
  let in_attr = (ctx = 'U' || ctx = 'S' || ctx = 'Q') in
  let out = ref [] and errs = ref [] in
  let q = ref [] and ignore_lf = ref false and cr = ref None in
  let attr_closed = ref false and panic = ref false in
  let emit c = out := c :: !out in
  let apply_out o =
    errs := List.rev_append (List.map (err_code exact) o.o_errs) !errs;
    if o.o_clear_ignore_lf then ignore_lf := false;
    q := o.o_q;
    match o.o_status with
    | CrStuck -> cr := Some o.o_st; false
    | CrProgress -> cr := Some o.o_st; true
    | CrDone chars ->
        (match chars with [] -> emit 38 | l -> List.iter (fun c -> emit (int_of_n c)) l);
        cr := None; true
    | CrPanic -> panic := true; false in
  let rec pump () =
    if !panic || !attr_closed then ()
    else match !cr with
      | Some st -> if apply_out (cr_step table st !q) then pump ()
      | None ->
          (match !q with
           | [] -> ()
           | c :: rest ->
               q := rest;
               let c = int_of_n c in
               if !ignore_lf then begin
                 ignore_lf := false;
                 if c = 10 then pump () else ordinary c
               end else ordinary c)
  and ordinary c =
    let c = if c = 13 then (ignore_lf := true; 10) else c in
    (match ctx with
     | 'D' -> if c = 38 then cr := Some (cr_new false) else emit c
     | 'R' -> if c = 38 then cr := Some (cr_new false) else emit (if c = 0 then 0xFFFD else c)
     | 'S' | 'Q' ->
         let quote = if ctx = 'S' then 39 else 34 in
         if c = quote then attr_closed := true
         else if c = 38 then cr := Some (cr_new true)
         else emit (if c = 0 then 0xFFFD else c)
     | _ ->
         if c = 9 || c = 10 || c = 12 || c = 32 || c = 62 then attr_closed := true
         else if c = 38 then cr := Some (cr_new true)
         else emit (if c = 0 then 0xFFFD else c));
    pump () in
  List.iter (fun ch -> if ch <> [] then begin q := !q @ ch; pump () end) chunks;
  (* Tokenizer::end *)
  (match !cr with
   | Some st when not !panic && not !attr_closed ->
       (* the queue is empty here (Stuck) ; end_of_file gets a fresh one *)
       if !q <> [] then panic := true
       else begin
         let o = cr_eof table st [] in
         ignore (apply_out o);
         (match o.o_status with CrDone _ -> () | _ -> panic := true);
         cr := None;
         pump ()
       end
   | _ -> ());
  if !panic then "PANIC"
  else if !cr <> None then "X char ref left open at end"
  else begin
    let txt = String.concat " " (List.rev_map string_of_int !out) in
    let e = String.concat " " (List.rev !errs) in
    if in_attr then Printf.sprintf "T  | A %s | E %s" (if closed then txt else "-") e
    else Printf.sprintf "T %s | A - | E %s" txt e
  end

let () =
  iter_lines (fun line ->
    if String.trim line <> "" then begin
      print_string (try run_case line with e -> "X " ^ Printexc.to_string e);
      print_newline ()
    end)
