(* tokenizer model driver.  argv[1] = entity dump file ("E name cp1 cp2" / "C index cp" lines).
   one case per line, '|'-separated fields:
     h|x | exact bom foreign | initial state name | last start tag (cps) | responses name=P/S/E/R<kind>,.. | inject cps | chunk;chunk;..
   output: tokens " ; "-separated then " # " feed results *)
let ent_tbl : (string, int * int) Hashtbl.t = Hashtbl.create 4096
let c1_tbl = Array.make 32 (-1)
let () =
  let ic = open_in Sys.argv.(1) in
  (try while true do
     let l = input_line ic in
     match String.split_on_char ' ' l with
     | ["E"; name; a; b] -> Hashtbl.replace ent_tbl name (int_of_string a, int_of_string b)
     | ["C"; i; c] -> c1_tbl.(int_of_string i) <- int_of_string c
     | _ -> ()
   done with End_of_file -> ());
  close_in ic
let key_of l = String.init (List.length l) (fun i -> let c = int_of_n (List.nth l i) in if c < 128 then Char.chr c else '\255')
let ent l =
  if List.exists (fun c -> int_of_n c >= 128) l then None
  else match Hashtbl.find_opt ent_tbl (key_of l) with
    | Some (a, b) -> Some (n_of_int a, n_of_int b) | None -> None
let c1 n = let i = int_of_n n - 0x80 in
  if i >= 0 && i < 32 && c1_tbl.(i) >= 0 then Some (n_of_int c1_tbl.(i)) else None
let use_flat = Array.exists (fun a -> a = "flat") Sys.argv
let use_golden = Array.exists (fun a -> a = "golden") Sys.argv
let show_cons = ref (Array.exists (fun a -> a = "cons") Sys.argv)
let cps s = List.map n_of_int (ints (words s))
let str_of_cps l = match l with [] -> "_" | _ -> String.concat "." (List.map (fun c -> string_of_int (int_of_n c)) l)
let ostr = function None -> "-" | Some l -> str_of_cps l
let kind_of_string = function
  | "rcdata" -> KRcdata | "rawtext" -> KRawtext | "script" -> KScriptData
  | "escaped" -> KScriptDataEscaped KEscaped | "dblescaped" -> KScriptDataEscaped KDoubleEscaped
  | s -> failwith ("kind " ^ s)
let parse_resp s =
  List.filter_map (fun item ->
    match String.index_opt item '=' with
    | None -> None
    | Some i ->
      let name = String.sub item 0 i and r = String.sub item (i + 1) (String.length item - i - 1) in
      let nm = List.init (String.length name) (fun j -> n_of_int (Char.code name.[j])) in
      let r = match r.[0] with
        | 'P' -> RespPlaintext | 'S' -> RespScript | 'E' -> RespEncoding
        | 'R' -> RespRawData (kind_of_string (String.sub r 1 (String.length r - 1)))
        | _ -> failwith "resp" in
      Some (nm, r)) (String.split_on_char ',' s)
let tk = function TStartTag -> "s" | TEndTag -> "e" | TShortTag -> "h" | TEmptyTag -> "m"
let show_token ((t, line), cons) =
  (match t with
   | TDoctype (n, p, s, q) -> Printf.sprintf "D %s %s %s %d" (ostr n) (ostr p) (ostr s) (if q then 1 else 0)
   | TTag (k, name, sc, attrs, dup) ->
     Printf.sprintf "T %s %s %d %d%s" (tk k) (str_of_cps name) (if sc then 1 else 0) (if dup then 1 else 0)
       (String.concat "" (List.map (fun (a, v) -> " " ^ str_of_cps a ^ "=" ^ str_of_cps v) attrs))
   | TComment s -> "C " ^ str_of_cps s
   | TChars s -> "S " ^ str_of_cps s
   | TNull -> "0" | TEof -> "E" | TError -> "!"
   | TPi (a, b) -> "P " ^ str_of_cps a ^ " " ^ str_of_cps b) ^ "@" ^ string_of_int (int_of_n line)
  ^ (if !show_cons then "~" ^ string_of_int (int_of_n cons) else "")
let show_res = function
  | SContinue -> "C" | SSuspend -> "D" | SScript -> "S" | SEncoding -> "N" | SPanic n -> "PANIC" ^ string_of_int (int_of_n n)
let lookup_state names s =
  let key = List.init (String.length s) (fun j -> n_of_int (Char.code s.[j])) in
  match List.find_opt (fun (k, _) -> k = key) names with Some (_, st) -> st | None -> failwith ("state " ^ s)
let () =
  iter_lines (fun line ->
    try
      match String.split_on_char '|' line with
      | [fl; flags; st; last; resp; inject; chunks] ->
        let fl = String.trim fl in
        let (ex, bom, fo) = match ints (words flags) with [a; b; c] -> (a = 1, b = 1, c = 1) | _ -> failwith "flags" in
        let last = match cps last with [] -> None | l -> Some l in
        let sk = { sk_resp = parse_resp (String.trim resp); sk_foreign = fo } in
        let inject = cps inject in
        let chunks = List.map cps (String.split_on_char ';' chunks) in
        let total = List.fold_left (fun a c -> a + List.length c) 0 chunks + List.length inject * 60 in
        let fuel = nat_of_int (8 * total + 200) in
        let simd = if use_golden then ((g_simd_first_guard, g_simd_tail_stop), g_simd_tail_newline) else ((simd_first_guard, simd_tail_stop), simd_tail_newline) in
        let (toks, log) =
          if fl = "h" then begin
            let s0 = lookup_state html_state_names (String.trim st) in
            if use_flat then begin
              let m0 = { mc = init_cfg s0 last bom; mq = []; mout = []; mcons = N0 } in
              let (m, log) = drive_flat html_flavour ex html_table simd ent c1 sk fuel inject chunks m0 [] in
              (List.rev m.mout, List.rev log)
            end else begin
            let m0 = { mc = init_cfg s0 last bom; mq = []; mout = []; mcons = N0 } in
            let (m, log) = drive_chunked html_flavour ex (if use_golden then g_html_table else html_table) simd ent c1 sk fuel inject chunks m0 [] in
            (List.rev m.mout, List.rev log) end
          end else begin
            let s0 = lookup_state xml_state_names (String.trim st) in
            if use_flat then begin
              let m0 = { mc = init_cfg s0 last bom; mq = []; mout = []; mcons = N0 } in
              let (m, log) = drive_flat xml_flavour ex xml_table simd ent c1 sk fuel inject chunks m0 [] in
              (List.rev m.mout, List.rev log)
            end else begin
            let m0 = { mc = init_cfg s0 last bom; mq = []; mout = []; mcons = N0 } in
            let (m, log) = drive_chunked xml_flavour ex (if use_golden then g_xml_table else xml_table) simd ent c1 sk fuel inject chunks m0 [] in
            (List.rev m.mout, List.rev log) end
          end in
        print_string (String.concat " ; " (List.map show_token toks));
        print_string " # ";
        print_string (String.concat " " (List.map show_res log));
        print_newline ()
      | _ -> print_endline "BADCASE"
    with e -> print_endline ("MODEL-EXCEPTION " ^ Printexc.to_string e))
