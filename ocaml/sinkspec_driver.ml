(* C05 / C06 / C18 judge.  One recorded trace per line (format of harness/src/tracesink.rs, calls joined
   by " ; ", plus the marker lines `#suspend H H ...` written by harness/src/bin/sinkmon.rs).
   Output, one line per trace:
     CONTRACT ok | bad@<k> <clause> <call name> {, bad@...}      Contract.monitor (first breach) /
                                                                   with --all: Contract.monitor_all
     ## DOMSPEC ok | bad                                          DomSpec.contract_run on the sinkop sub-list
     ## SKEL ok | <faults> | -                                    Skeleton.skeleton_ok / skeleton_faults on the final DOM
     ## TREE <forest> | Q <quirks>                                the final abstract DOM (text of rcdom_driver.ml)
                                                                  (both `-` when the contract was breached)
     ## GC ok | bad@<segment>.<call> h<handle> | off              Gc.gc_check        (only with --gc)
     ## COLLECTED n,n,...                                         Gc.gc_counts       (only with --gc)
   <k> counts the calls of the trace without the marker lines, from 0. *)
let want_gc = Array.exists (fun a -> a = "--gc") Sys.argv
let want_all = Array.exists (fun a -> a = "--all") Sys.argv

(* ---------- strings ---------- *)
let unesc (tok : string) : n list =
  let len = String.length tok in
  if len < 2 || tok.[0] <> '"' || tok.[len - 1] <> '"' then failwith ("not a string token: " ^ tok);
  let rec go i acc =
    if i >= len - 1 then List.rev acc
    else if tok.[i] = '\\' then begin
      let j = String.index_from tok i '}' in
      let hex = String.sub tok (i + 3) (j - i - 3) in
      go (j + 1) (n_of_int (int_of_string ("0x" ^ hex)) :: acc)
    end else go (i + 1) (n_of_int (Char.code tok.[i]) :: acc) in
  go 1 []

let esc (s : n list) : string =
  let b = Buffer.create 16 in
  Buffer.add_char b '"';
  List.iter (fun c ->
    let u = int_of_n c in
    if u >= 0x21 && u <= 0x7e && u <> 0x22 && u <> 0x5c then Buffer.add_char b (Char.chr u)
    else Buffer.add_string b (Printf.sprintf "\\u{%x}" u)) s;
  Buffer.add_char b '"';
  Buffer.contents b

(* ---------- parsing trace lines ---------- *)
type item = Call of call * string | Suspend of handle list

let parse_item (line : string) : item =
  let toks = ref (words line) in
  let next () = match !toks with t :: r -> toks := r; t | [] -> failwith ("missing token in: " ^ line) in
  let num () = nat_of_int (int_of_string (next ())) in
  let s () = unesc (next ()) in
  let opt_s () = let t = next () in if t = "-" then None else Some (unesc t) in
  let qn () = let p = opt_s () in let ns = s () in let l = s () in { q_prefix = p; q_ns = ns; q_local = l } in
  let attrs () =
    let k = int_of_string (next ()) in
    let rec go i acc = if i = 0 then List.rev acc else
        let q = qn () in let v = s () in go (i - 1) ({ d_name = q; d_value = v } :: acc) in
    go k [] in
  let child () = match next () with
    | "n" -> Inl (num ())
    | "t" -> Inr (s ())
    | x -> failwith ("bad child kind " ^ x) in
  let name = next () in
  let it = match name with
    | "#suspend" -> let hs = List.map (fun t -> nat_of_int (int_of_string t)) !toks in toks := []; Suspend hs
    | _ ->
      let c = match name with
        | "create_element" ->
          let h = num () in let q = qn () in let f = next () in let a = attrs () in
          Op (OpCreateElement (h, q, a, String.contains f 't', String.contains f 'm', String.contains f 'd'))
        | "create_comment" -> let h = num () in Op (OpCreateComment (h, s ()))
        | "create_pi" -> let h = num () in let t = s () in Op (OpCreatePi (h, t, s ()))
        | "append" -> let p = num () in Op (OpAppend (p, child ()))
        | "append_before_sibling" -> let p = num () in Op (OpAppendBeforeSibling (p, child ()))
        | "append_based_on_parent_node" -> let e = num () in let p = num () in Op (OpAppendBasedOnParent (e, p, child ()))
        | "append_doctype_to_document" -> let a = s () in let b = s () in Op (OpAppendDoctype (a, b, s ()))
        | "add_attrs_if_missing" -> let h = num () in Op (OpAddAttrsIfMissing (h, attrs ()))
        | "remove_from_parent" -> Op (OpRemoveFromParent (num ()))
        | "reparent_children" -> let a = num () in Op (OpReparentChildren (a, num ()))
        | "get_template_contents" -> let a = num () in Op (OpGetTemplateContents (a, num ()))
        | "mark_script_already_started" -> Op (OpMarkScriptStarted (num ()))
        | "pop" -> Op (OpPop (num ()))
        | "set_quirks_mode" ->
          Op (OpSetQuirks (n_of_int (match next () with
              | "Quirks" -> 0 | "LimitedQuirks" -> 1 | "NoQuirks" -> 2 | x -> failwith ("bad quirks mode " ^ x))))
        | "set_current_line" -> Op (OpSetLine (n_of_int (int_of_string (next ()))))
        | "associate_with_form" ->
          let t = num () in let f = num () in let e = num () in
          let p = next () in
          Op (OpAssociateForm (t, f, e, if p = "-" then None else Some (nat_of_int (int_of_string p))))
        | "maybe_clone_an_option_into_selectedcontent" -> Op (OpCloneOption (num ()))
        | "parse_error" -> ignore (s ()); Op OpParseError
        | "elem_name" -> Op (OpElemName (num ()))
        | "is_mathml_annotation_xml_integration_point" -> Op (OpIsMathmlIp (num ()))
        | "same_node" -> let x = num () in QSameNode (x, num ())
        | "get_document" -> QGetDocument
        | "allow_declarative_shadow_roots" -> QAllowShadow (num ())
        | "attach_declarative_shadow" -> let l = num () in let t = num () in QAttachShadow (l, t, attrs ())
        | x -> failwith ("unknown op " ^ x) in
      Call (c, name) in
  if !toks <> [] then failwith ("trailing tokens in: " ^ line);
  it

let split_ops (line : string) : string list =
  let parts = Str.split (Str.regexp_string " ; ") line in
  List.filter (fun s -> String.trim s <> "") (List.map String.trim parts)

let clause_name = function
  | CUnknownHandle -> "unknown-handle" | CHandleNumbering -> "handle-numbering"
  | CDuplicateAttribute -> "duplicate-attribute" | CTemplateFlag -> "template-flag" | CMathmlIpFlag -> "mathml-ip-flag"
  | CNotElement -> "not-element" | CNotTemplate -> "not-template" | CNotForm -> "not-form"
  | CNotAssociatable -> "not-form-associatable" | CNotScript -> "not-script" | CNotOption -> "not-option"
  | CParentNotContainer -> "parent-not-container" | CChildNotCreated -> "child-not-created"
  | CChildHasParent -> "child-has-parent" | CCycle -> "cycle" | CSiblingIsText -> "sibling-is-text"
  | CSiblingNoParent -> "sibling-without-parent" | CSecondDoctype -> "second-doctype"
  | CDoctypeAfterElement -> "doctype-after-element" | CCloneModel -> "clone-model"

(* ---------- printing the final DOM (text of rcdom_driver.ml) ---------- *)
let quirks_name q = match int_of_n q with 0 -> "Quirks" | 1 -> "LimitedQuirks" | _ -> "NoQuirks"
let fmt_opt = function None -> "-" | Some s -> esc s
let fmt_qname q = Printf.sprintf "%s %s %s" (fmt_opt q.q_prefix) (esc q.q_ns) (esc q.q_local)
let fmt_attrs (l : dattr list) =
  if l = [] then "0" else
    Printf.sprintf "%d %s" (List.length l)
      (String.concat " " (List.map (fun a -> fmt_qname a.d_name ^ " " ^ esc a.d_value) l))

type view = { vsize : int; vdata : int -> data; vkids : int -> int list; vparent : int -> int option; vname : int -> string }

let view_of_dom (d : dom) : view =
  let nodes = Array.of_list d.d_nodes in
  let size = Array.length nodes in
  let names = Array.make size "-" in
  List.iteri (fun h n -> let i = int_of_nat n in if i < size && names.(i) = "-" then names.(i) <- string_of_int h) d.d_names;
  let par = Array.make size None in
  for p = size - 1 downto 0 do
    List.iter (fun k -> let k = int_of_nat k in if k < size then par.(k) <- Some p) nodes.(p).n_kids
  done;
  { vsize = size;
    vdata = (fun i -> nodes.(i).n_data);
    vkids = (fun i -> List.map int_of_nat nodes.(i).n_kids);
    vparent = (fun i -> par.(i));
    vname = (fun i -> names.(i)) }

let max_depth = 4000
let rec print_node (b : Buffer.t) (v : view) (i : int) (depth : int) : unit =
  if depth > max_depth then Buffer.add_string b "(TOO-DEEP)" else begin
  (match v.vdata i with
   | Document -> Buffer.add_string b ("(doc " ^ v.vname i)
   | Doctype (n, p, s) -> Buffer.add_string b (Printf.sprintf "(doctype %s %s %s" (esc n) (esc p) (esc s))
   | Text t -> Buffer.add_string b ("(text " ^ esc t)
   | Comment t -> Buffer.add_string b (Printf.sprintf "(comment %s %s" (v.vname i) (esc t))
   | PI (t, d) -> Buffer.add_string b (Printf.sprintf "(pi %s %s %s" (v.vname i) (esc t) (esc d))
   | Element (q, a, tm, ip) ->
     Buffer.add_string b (Printf.sprintf "(elem %s %s %s %s" (v.vname i) (fmt_qname q) (if ip then "m" else "-") (fmt_attrs a));
     (match tm with
      | Some t -> Buffer.add_string b " tmpl "; print_node b v (int_of_nat t) (depth + 1)
      | None -> ()));
  List.iter (fun c -> Buffer.add_char b ' '; print_node b v c (depth + 1)) (v.vkids i);
  Buffer.add_char b ')' end

let is_document = function Document -> true | _ -> false

let roots (v : view) (names : nid list) : int list =
  0 :: List.filter_map (fun n ->
      let i = int_of_nat n in
      if i <> 0 && i < v.vsize && v.vparent i = None && not (is_document (v.vdata i)) then Some i else None)
    (match names with _ :: t -> t | [] -> [])

let tree_string (d : dom) : string =
  let v = view_of_dom d in
  let b = Buffer.create 256 in
  List.iteri (fun k r -> if k > 0 then Buffer.add_char b ' '; print_node b v r 0) (roots v d.d_names);
  Buffer.contents b

let fault_name (d : dom) = function
  | FDocChildren -> "doc-children"
  | FHtmlChildKind -> "html-child-kind"
  | FHtmlElements -> "html-elements"
  | FAdjacentText n -> Printf.sprintf "adjacent-text@%d" (int_of_nat n)
  | FEmptyText n -> Printf.sprintf "empty-text@%d" (int_of_nat n)
  | FChildrenOfLeaf n -> Printf.sprintf "children-of-leaf@%d" (int_of_nat n)

(* ---------- main ---------- *)
let () =
  iter_lines (fun line ->
    let line = String.trim line in
    try
      let items = List.map parse_item (split_ops line) in
      let calls = List.filter_map (function Call (c, n) -> Some (c, n) | Suspend _ -> None) items in
      let cs = List.map fst calls in
      let names = Array.of_list (List.map snd calls) in
      let show (k, cl) =
        let k = int_of_nat k in
        Printf.sprintf "bad@%d %s %s" k (clause_name cl) (if k < Array.length names then names.(k) else "?") in
      let contract =
        if want_all then
          (match monitor_all O init cs with [] -> "ok" | l -> String.concat " , " (List.map show l))
        else
          (match monitor init cs with None -> "ok" | Some v -> show v) in
      let domspec = if contract_run init (ops_of cs) then "ok" else "bad" in
      let d = run_calls init cs in
      (* after a breach the abstract DOM may be cyclic: neither printed nor judged *)
      let accepted = (contract = "ok") in
      let skel =
        if not accepted then "-"
        else if skeleton_ok d then "ok"
        else (match skeleton_faults d with
            | [] -> "INCONSISTENT"
            | l -> String.concat " " (List.map (fault_name d) l)) in
      let tree = Printf.sprintf "%s | Q %s" (if accepted then tree_string d else "-") (quirks_name d.d_quirks) in
      let gc, counts =
        if not want_gc then "off", "-" else begin
          (* segments: calls up to each marker with the handles traced there; the calls after the last marker
             form a final segment with nothing traced *)
          let segs = ref [] and cur = ref [] in
          List.iter (function
              | Call (c, _) -> cur := c :: !cur
              | Suspend hs -> segs := (List.rev !cur, hs) :: !segs; cur := []) items;
          let segs = List.rev ((List.rev !cur, []) :: !segs) in
          let verdict = match gc_check segs with
            | None -> "ok"
            | Some ((i, k), h) -> Printf.sprintf "bad@%d.%d h%d" (int_of_nat i) (int_of_nat k) (int_of_nat h) in
          (* consistency of the two extracted entry points *)
          let verdict = if gc_ok segs = (verdict = "ok") then verdict else "INCONSISTENT" in
          verdict, String.concat "," (List.map (fun n -> string_of_int (int_of_nat n)) (gc_counts init [] segs))
        end in
      Printf.printf "CONTRACT %s ## DOMSPEC %s ## SKEL %s ## TREE %s ## GC %s ## COLLECTED %s\n"
        contract domspec skel tree gc counts
    with Failure m | Invalid_argument m -> print_endline ("MODELERROR " ^ m)
       | Not_found -> print_endline "MODELERROR not_found")
