(* conversions between OCaml ints and the extracted inductive numbers *)
let rec pos_of_int i =
  if i <= 1 then XH
  else if i land 1 = 0 then XO (pos_of_int (i lsr 1)) else XI (pos_of_int (i lsr 1))
let n_of_int i = if i = 0 then N0 else Npos (pos_of_int i)
let rec int_of_pos = function XH -> 1 | XO p -> 2 * int_of_pos p | XI p -> 2 * int_of_pos p + 1
let int_of_n = function N0 -> 0 | Npos p -> int_of_pos p
let rec nat_of_int i = if i <= 0 then O else S (nat_of_int (i - 1))
let rec int_of_nat_acc acc = function O -> acc | S n -> int_of_nat_acc (acc + 1) n
let int_of_nat n = int_of_nat_acc 0 n
(* unsigned 64-bit decimal string -> N *)
let n_of_u64_string s =
  let v = Int64.of_string ("0u" ^ s) in
  let rec bits i acc =
    if i > 63 then acc
    else
      let b = Int64.logand (Int64.shift_right_logical v i) 1L = 1L in
      bits (i + 1) (b :: acc) in
  let msb_first = bits 0 [] in
  let rec drop = function false :: t -> drop t | l -> l in
  match drop msb_first with
  | [] -> N0
  | _ :: rest -> Npos (List.fold_left (fun p b -> if b then XI p else XO p) XH rest
                       |> fun p -> (* fold built msb-first correctly *) p)
let words line = List.filter (fun s -> s <> "") (String.split_on_char ' ' line)
let ints l = List.map int_of_string l
let hex_of_ints l = String.concat "" (List.map (fun i -> Printf.sprintf "%02x" i) l)
let rec take n l = if n = 0 then [] else match l with [] -> [] | x :: t -> x :: take (n - 1) t
let rec drop n l = if n = 0 then l else match l with [] -> [] | _ :: t -> drop (n - 1) t
let iter_lines f =
  try while true do f (input_line stdin) done with End_of_file -> ()
