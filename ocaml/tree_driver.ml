(* C02 model driver.  Input: the output lines of harness/src/bin/treetrace.rs
     HEADER ;; EVENT ; EVENT ; ...
   Only the HEADER and the `tok`, `q`, `end`, `fin` events are read; the model
   (coq/Tree/TreeModel.v) is run on them and the whole event log is printed
   again in the same format, followed by ` ## m.k m.k ...` = the (mode, arm)
   pairs that fired in this case (mode 21 = foreign content).
   The input line `#arms` is answered with `ARMS mode:number_of_arms ...`.
   `TREE <log line>` (implementation's or model's) replays the sink operations of the log into the
   abstract DOM (DomSpec.apply) and prints  <tree without handle numbers> | Q <quirks> | R <non-Continue results>.
   HEADER flags may carry a 9th number: bit i set = deviation switch i OFF (WHATWG variant, TreeTypes.dev_on).
   NB: the extracted model defines a type called [string] (Coq strings); OCaml
   strings are [String.t] below. *)

(* ---------- strings ---------- *)
let unesc (tok : String.t) : n list =
  let len = String.length tok in
  if len < 2 || tok.[0] <> '"' || tok.[len - 1] <> '"' then failwith ("not a string token: " ^ tok);
  let rec go i acc =
    if i >= len - 1 then List.rev acc
    else if tok.[i] = '\\' then begin
      let j = String.index_from tok i '}' in
      let hex = String.sub tok (i + 3) (j - i - 3) in
      go (j + 1) (n_of_int (int_of_string ("0x" ^ hex)) :: acc)
    end else go (i + 1) (n_of_int (Char.code tok.[i]) :: acc) in
  go 1 []

let esc (s : n list) : String.t =
  let b = Buffer.create 16 in
  Buffer.add_char b '"';
  List.iter (fun c ->
    let u = int_of_n c in
    if u >= 0x21 && u <= 0x7e && u <> 0x22 && u <> 0x5c then Buffer.add_char b (Char.chr u)
    else Buffer.add_string b (Printf.sprintf "\\u{%x}" u)) s;
  Buffer.add_char b '"';
  Buffer.contents b

let str_of_ocaml (s : String.t) : n list =
  List.init (String.length s) (fun i -> n_of_int (Char.code s.[i]))

let opt_s t = if t = "-" then None else Some (unesc t)
let fmt_opt = function None -> "-" | Some s -> esc s
let fmt_qname q = Printf.sprintf "%s %s %s" (fmt_opt q.q_prefix) (esc q.q_ns) (esc q.q_local)
let fmt_attrs (l : dattr list) =
  if l = [] then "0" else
    Printf.sprintf "%d %s" (List.length l)
      (String.concat " " (List.map (fun a -> fmt_qname a.d_name ^ " " ^ esc a.d_value) l))
let fmt_child = function Inl h -> Printf.sprintf "n %d" (int_of_nat h) | Inr s -> "t " ^ esc s
let quirks_name q = match int_of_n q with 0 -> "Quirks" | 1 -> "LimitedQuirks" | _ -> "NoQuirks"
let h = int_of_nat

let print_op (op : sinkop) : String.t =
  match op with
  | OpCreateElement (x, q, a, t, m, d) ->
    let f = (if t then "t" else "") ^ (if m then "m" else "") ^ (if d then "d" else "") in
    Printf.sprintf "create_element %d %s %s %s" (h x) (fmt_qname q) (if f = "" then "-" else f) (fmt_attrs a)
  | OpCreateComment (x, s) -> Printf.sprintf "create_comment %d %s" (h x) (esc s)
  | OpCreatePi (x, t, d) -> Printf.sprintf "create_pi %d %s %s" (h x) (esc t) (esc d)
  | OpAppend (p, c) -> Printf.sprintf "append %d %s" (h p) (fmt_child c)
  | OpAppendBeforeSibling (p, c) -> Printf.sprintf "append_before_sibling %d %s" (h p) (fmt_child c)
  | OpAppendBasedOnParent (e, p, c) ->
    Printf.sprintf "append_based_on_parent_node %d %d %s" (h e) (h p) (fmt_child c)
  | OpAppendDoctype (a, b, c) -> Printf.sprintf "append_doctype_to_document %s %s %s" (esc a) (esc b) (esc c)
  | OpAddAttrsIfMissing (x, a) -> Printf.sprintf "add_attrs_if_missing %d %s" (h x) (fmt_attrs a)
  | OpRemoveFromParent x -> Printf.sprintf "remove_from_parent %d" (h x)
  | OpReparentChildren (a, b) -> Printf.sprintf "reparent_children %d %d" (h a) (h b)
  | OpGetTemplateContents (a, b) -> Printf.sprintf "get_template_contents %d %d" (h a) (h b)
  | OpMarkScriptStarted x -> Printf.sprintf "mark_script_already_started %d" (h x)
  | OpPop x -> Printf.sprintf "pop %d" (h x)
  | OpSetQuirks q -> "set_quirks_mode " ^ quirks_name q
  | OpSetLine l -> Printf.sprintf "set_current_line %d" (int_of_n l)
  | OpAssociateForm (t, f, e, p) ->
    Printf.sprintf "associate_with_form %d %d %d %s" (h t) (h f) (h e)
      (match p with None -> "-" | Some x -> string_of_int (h x))
  | OpCloneOption x -> Printf.sprintf "maybe_clone_an_option_into_selectedcontent %d" (h x)
  | OpElemName x -> Printf.sprintf "elem_name %d" (h x)
  | OpIsMathmlIp x -> Printf.sprintf "is_mathml_annotation_xml_integration_point %d" (h x)
  | OpParseError -> "parse_error"

let raw_name = function Rcdata -> "Rcdata" | Rawtext -> "Rawtext" | ScriptData -> "ScriptData"
let print_res = function
  | SContinue -> "Continue"
  | SScript x -> Printf.sprintf "Script %d" (h x)
  | SPlaintext -> "Plaintext"
  | SRawData k -> "RawData " ^ raw_name k
  | SEncoding l -> "Encoding " ^ esc l

(* ---------- tokens ---------- *)
let parse_token (w : String.t list) : token =
  match w with
  | "D" :: a :: b :: c :: fq :: [] -> TDoctype (opt_s a, opt_s b, opt_s c, fq = "1")
  | "T" :: k :: name :: sc :: dup :: n :: rest ->
    let n = int_of_string n in
    let rec attrs i l acc =
      if i = 0 then List.rev acc
      else match l with
        | a :: v :: r -> attrs (i - 1) r ((unesc a, unesc v) :: acc)
        | _ -> failwith "attribute list too short" in
    TTag ((if k = "s" then StartTag else EndTag), unesc name, sc = "1", attrs n rest [], dup = "1")
  | "C" :: s :: [] -> TComment (unesc s)
  | "S" :: s :: [] -> TChars (unesc s)
  | "N" :: [] -> TNull
  | "E" :: [] -> TEof
  | "X" :: [] -> TError
  | _ -> failwith ("bad token: " ^ String.concat " " w)

let split_events (line : String.t) : String.t list =
  List.filter (fun s -> s <> "") (List.map String.trim (Str.split (Str.regexp_string " ; ") line))

exception Stop of String.t

(* ---------- replaying a log into the abstract DOM (DomSpec) ---------- *)
let parse_op (ev : String.t) : sinkop option =
  let toks = ref (words ev) in
  let next () = match !toks with t :: r -> toks := r; t | [] -> failwith ("missing token in: " ^ ev) in
  let num () = nat_of_int (int_of_string (next ())) in
  let s () = unesc (next ()) in
  let qn () = let p = opt_s (next ()) in let ns = s () in let l = s () in { q_prefix = p; q_ns = ns; q_local = l } in
  let attrs () =
    let k = int_of_string (next ()) in
    let rec go i acc = if i = 0 then List.rev acc else
        let q = qn () in let v = s () in go (i - 1) ({ d_name = q; d_value = v } :: acc) in
    go k [] in
  let child () = match next () with
    | "n" -> Inl (num ())
    | "t" -> Inr (s ())
    | x -> failwith ("bad child kind " ^ x) in
  match next () with
  | "create_element" ->
    let x = num () in let q = qn () in let f = next () in let a = attrs () in
    Some (OpCreateElement (x, q, a, String.contains f 't', String.contains f 'm', String.contains f 'd'))
  | "create_comment" -> let x = num () in Some (OpCreateComment (x, s ()))
  | "append" -> let p = num () in Some (OpAppend (p, child ()))
  | "append_before_sibling" -> let p = num () in Some (OpAppendBeforeSibling (p, child ()))
  | "append_based_on_parent_node" -> let e = num () in let p = num () in Some (OpAppendBasedOnParent (e, p, child ()))
  | "append_doctype_to_document" -> let a = s () in let b = s () in Some (OpAppendDoctype (a, b, s ()))
  | "add_attrs_if_missing" -> let x = num () in Some (OpAddAttrsIfMissing (x, attrs ()))
  | "remove_from_parent" -> Some (OpRemoveFromParent (num ()))
  | "reparent_children" -> let a = num () in Some (OpReparentChildren (a, num ()))
  | "get_template_contents" -> let a = num () in Some (OpGetTemplateContents (a, num ()))
  | "set_quirks_mode" ->
    Some (OpSetQuirks (n_of_int (match next () with "Quirks" -> 0 | "LimitedQuirks" -> 1 | _ -> 2)))
  | "maybe_clone_an_option_into_selectedcontent" -> Some (OpCloneOption (num ()))
  | _ -> None

let tree_of_log (line : String.t) : String.t =
  let body = match Str.bounded_split_delim (Str.regexp_string " ;; ") line 2 with [_; b] -> b | _ -> line in
  let body = match Str.bounded_split_delim (Str.regexp_string " ## ") body 2 with a :: _ -> a | [] -> body in
  let d = ref init in
  let results = ref [] in
  List.iter (fun ev ->
      (match words ev with
       | "res" :: r -> if r <> ["Continue"] then results := String.concat " " r :: !results
       | "PANIC" :: _ | "FUEL" :: _ -> results := ev :: !results
       | _ -> ());
      match (try parse_op ev with Failure _ -> None) with
      | Some op -> d := apply !d op
      | None -> ()) (split_events body);
  let nodes = Array.of_list (!d).d_nodes in
  let b = Buffer.create 256 in
  let rec pr i depth =
    if depth > 20000 then failwith "tree too deep";
    let nd = nodes.(i) in
    (match nd.n_data with
     | Document -> Buffer.add_string b "(doc"
     | Doctype (n, p, s) -> Buffer.add_string b (Printf.sprintf "(doctype %s %s %s" (esc n) (esc p) (esc s))
     | Text t -> Buffer.add_string b ("(text " ^ esc t)
     | Comment t -> Buffer.add_string b ("(comment " ^ esc t)
     | PI (t, x) -> Buffer.add_string b (Printf.sprintf "(pi %s %s" (esc t) (esc x))
     | Element (q, a, tm, ip) ->
       Buffer.add_string b (Printf.sprintf "(elem %s %s %s" (fmt_qname q) (if ip then "m" else "-") (fmt_attrs a));
       (match tm with
        | Some t -> Buffer.add_string b " tmpl "; pr (int_of_nat t) (depth + 1)
        | None -> ()));
    List.iter (fun c -> Buffer.add_char b ' '; pr (int_of_nat c) (depth + 1)) nd.n_kids;
    Buffer.add_char b ')' in
  pr 0 0;
  Printf.sprintf "%s | Q %s | R %s" (Buffer.contents b) (quirks_name (!d).d_quirks) (String.concat "," (List.rev !results))

let run_case (line : String.t) : String.t =
  let (header, body) =
    match Str.bounded_split_delim (Str.regexp_string " ;; ") line 2 with
    | [a; b] -> (a, b)
    | [a] -> (a, "")
    | _ -> failwith "no header" in
  let f = Array.of_list (String.split_on_char '|' header) in
  if Array.length f < 3 then failwith "bad header";
  let fl = Array.of_list (List.map int_of_string (words f.(1))) in
  let opts = { o_exact_errors = fl.(0) = 1; o_scripting = fl.(2) = 1; o_iframe_srcdoc = fl.(4) = 1;
               o_drop_doctype = fl.(3) = 1;
               o_quirks = n_of_int (match fl.(5) with 1 -> 1 | 2 -> 0 | _ -> 2);
               o_allow_dsr = true; o_attach_ok = false;
               (* optional 9th flag: bit i set = deviation i switched OFF (WHATWG behaviour) *)
               o_dev = (let mask = if Array.length fl > 8 then fl.(8) else 0 in
                        List.init 16 (fun i -> (mask lsr i) land 1 = 0)) } in
  let st = ref (init_state opts) in
  let out = ref [] in
  let arms = Hashtbl.create 16 in
  (* what the sink (RcDom / DomSpec.d_quirks) ends up with: the last set_quirks_mode, initially NoQuirks *)
  let sink_quirks = ref (n_of_int 2) in
  let emit s = out := s :: !out in
  let flush_events () =
    let (evs, s') = take_out !st in
    st := s';
    List.iter (function
        | EvOp op -> (match op with OpSetQuirks q -> sink_quirks := q | _ -> ()); emit (print_op op)
        | EvArm (m, k) -> Hashtbl.replace arms (int_of_nat m, int_of_nat k) ()) evs in
  let run m =
    match m !st with
    | Ok (a, s') -> st := s'; a
    | Panic site -> raise (Stop (Printf.sprintf "PANIC %d" (int_of_n site)))
    | OutOfFuel -> raise (Stop "FUEL") in
  (try
     if String.trim f.(0) = "F" then begin
       let ctx = Array.of_list (String.split_on_char ':' (String.trim f.(2))) in
       let ns = match ctx.(0) with "svg" -> ns_svg | "math" -> ns_mathml | _ -> ns_html in
       let attrs =
         if Array.length ctx > 2 then
           (* everything after the second ':' *)
           let v = String.concat ":" (Array.to_list (Array.sub ctx 2 (Array.length ctx - 2))) in
           [ { d_name = qn_plain (str_of_ocaml "encoding"); d_value = str_of_ocaml v } ]
         else [] in
       run (init_fragment (qn_elem ns (str_of_ocaml ctx.(1))) attrs (fl.(7) = 1));
       flush_events ();
       let ts = run (tokenizer_state_for_context_elem (fl.(6) = 1)) in
       emit ("init " ^ (match ts with TsData -> "Data" | TsPlaintext -> "Plaintext" | TsRawData k -> "RawData " ^ raw_name k))
     end;
     List.iter (fun ev ->
         match words ev with
         | "tok" :: ln :: w ->
           emit ev;
           let tk = parse_token w in
           let r = (try Some (run (process_token tk (n_of_int (int_of_string ln)))) with Stop m -> flush_events (); raise (Stop m)) in
           flush_events ();
           (match r with Some r -> emit ("res " ^ print_res r) | None -> ())
         | "q" :: _ ->
           let a = run adjusted_current_node_present_but_not_in_html_namespace in
           flush_events ();
           emit (if a then "q 1" else "q 0")
         | "end" :: [] ->
           emit "end";
           run tb_end;
           flush_events ()
         | "fin" :: _ -> emit ("fin quirks=" ^ quirks_name !sink_quirks)
         | _ -> ()) (split_events body)
   with Stop m -> emit m);
  let cov = Hashtbl.fold (fun (m, k) () acc -> (m, k) :: acc) arms [] in
  let cov = List.sort compare cov in
  header ^ " ;; " ^ String.concat " ; " (List.rev !out) ^ " ## " ^
  String.concat " " (List.map (fun (m, k) -> Printf.sprintf "%d.%d" m k) cov)

let () =
  iter_lines (fun line ->
    try
      if String.length line > 5 && String.sub line 0 5 = "TREE " then
        print_endline (tree_of_log (String.sub line 5 (String.length line - 5)))
      else if String.trim line = "#arms" then
        print_endline ("ARMS " ^ String.concat " " (List.map (fun (m, k) -> Printf.sprintf "%d:%d" (int_of_nat m) (int_of_nat k)) arm_counts))
      else print_endline (run_case line)
    with Failure m | Invalid_argument m -> print_endline ("MODELERROR " ^ m)
       | Not_found -> print_endline "MODELERROR not_found")
