(* one history per line:  <A|N> <npool> ; op ; op ; ...      (all numbers decimal)
     new d f n b1..bn | wcap d f n | clone d s | drop s | clear s | push s n b1..bn | pusht d s
     sub d s off len | subp d s off len | popf s n | popfp s n | popb s n | popbp s n
     popc s | popr d s kind m | pushc s c | ext s n b | send d s | reint s f | reserve s n
     setb s i b | upper s                      formats f: 0 Bytes 1 UTF8 2 ASCII 3 Latin1 4 WTF8
   output: per op  "<result> [<alloc events>] | <slot> <slot> ..."  joined by " ; ",
   then " ; END [<events of the final drops>] live=<n>"
   (the atomicity letter does not change the sequential model) *)
let fmt_of = function
  | 0 -> FBytes | 1 -> FUtf8 | 2 -> FAscii | 3 -> FLatin1 | 4 -> FWtf8 | _ -> failwith "fmt"
let fmt_ch = function FBytes -> "b" | FUtf8 -> "u" | FAscii -> "a" | FLatin1 -> "l" | FWtf8 -> "w"
let kind_ch = function KInline -> "i" | KOwned -> "o" | KShared -> "s"
let nn s = n_of_int (int_of_string s)
let ni s = nat_of_int (int_of_string s)
let parse_op ws =
  match ws with
  | "new" :: d :: f :: _ :: bs -> ONew (ni d, fmt_of (int_of_string f), List.map nn bs)
  | ["wcap"; d; f; n] -> OWithCap (ni d, fmt_of (int_of_string f), nn n)
  | ["clone"; d; s] -> OClone (ni d, ni s)
  | ["drop"; s] -> ODrop (ni s)
  | ["clear"; s] -> OClear (ni s)
  | "push" :: s :: _ :: bs -> OPush (ni s, List.map nn bs)
  | ["pusht"; d; s] -> OPushT (ni d, ni s)
  | ["sub"; d; s; o; l] -> OSub (false, ni d, ni s, nn o, nn l)
  | ["subp"; d; s; o; l] -> OSub (true, ni d, ni s, nn o, nn l)
  | ["popf"; s; n] -> OPopF (false, ni s, nn n)
  | ["popfp"; s; n] -> OPopF (true, ni s, nn n)
  | ["popb"; s; n] -> OPopB (false, ni s, nn n)
  | ["popbp"; s; n] -> OPopB (true, ni s, nn n)
  | ["popc"; s] -> OPopChar (ni s)
  | ["popr"; d; s; k; m] -> OPopRun (ni d, ni s, nn k, nn m)
  | ["pushc"; s; c] -> OPushChar (ni s, nn c)
  | ["ext"; s; n; b] -> OExt (ni s, nn n, nn b)
  | ["send"; d; s] -> OSend (ni d, ni s)
  | ["reint"; s; f] -> OReint (ni s, fmt_of (int_of_string f))
  | ["reserve"; s; n] -> OReserve (ni s, nn n)
  | ["setb"; s; i; b] -> OSetByte (ni s, nn i, nn b)
  | ["upper"; s] -> OUpper (ni s)
  | _ -> failwith ("bad op: " ^ String.concat " " ws)
let show_ev evs =
  let f = function
    | Alloc (_, c) -> Some ("A" ^ string_of_int (int_of_n c))
    | Realloc (_, c) -> Some ("R" ^ string_of_int (int_of_n c))
    | Free (_, c) -> Some ("F" ^ string_of_int (int_of_n c))
    | _ -> None in
  "[" ^ String.concat "," (List.filter_map f evs) ^ "]"
let show_out = function
  | ROk -> "ok"
  | RErr (uw, e) -> (if uw then "!E" else "E") ^ string_of_int (int_of_n e)
  | RChar None -> "cnone" | RChar (Some c) -> "c" ^ string_of_int (int_of_n c)
  | RClass None -> "knone" | RClass (Some c) -> "k" ^ string_of_int (int_of_n c)
  | RBad -> "bad"
let show_slot = function
  | None -> "-"
  | Some (((f, k), len), bs) ->
    fmt_ch f ^ kind_ch k ^ ":" ^ string_of_int (int_of_n len) ^ ":" ^ hex_of_ints (List.map int_of_n bs)
let show_step = function
  | SOk (r, ev, snap) -> show_out r ^ " " ^ show_ev ev ^ " | " ^ String.concat " " (List.map show_slot snap)
  | SPanic k -> "PANIC" ^ string_of_int (int_of_n k)
  | SUB k -> "UB" ^ string_of_int (int_of_n k)
let () =
  iter_lines (fun line ->
    match String.split_on_char ';' line with
    | [] -> print_newline ()
    | hd :: ops ->
      let npool = match words hd with [_; n] -> int_of_string n | _ -> 4 in
      let ops = List.filter (fun w -> w <> []) (List.map words ops) in
      let ops = List.map parse_op ops in
      let (outs, fin) = run_history (nat_of_int npool) ops in
      let parts = List.map show_step outs in
      let last = match fin with
        | None -> "DEAD"
        | Some (ev, live) -> "END " ^ show_ev ev ^ " live=" ^ string_of_int (List.length live) in
      print_string (String.concat " ; " (parts @ [last]));
      print_newline ())
