(* one case per line:
     X <hex bytes | ->   extract_impl on the BYTES           -> N | S<hex label> | ! (panic) | F (fuel)
     Y <hex utf-8 | ->   extract_spec on the CODE POINTS     -> N | S<hex utf-8 of label>
     A {<hex name> <hex value>} meta_arm on BYTES -> E<hex label> | D | !
     B {<hex name> <hex value>} meta_label_spec on CODE POINTS -> E<hex> | D
   same protocol as harness/src/bin/meta.rs mode X *)
let unhex s =
  if s = "-" then []
  else List.init (String.length s / 2) (fun i -> int_of_string ("0x" ^ String.sub s (2 * i) 2))
(* plain UTF-8 decoder of well-formed input (the check only sends well-formed text) *)
let rec decode = function
  | [] -> []
  | b :: t when b < 0x80 -> b :: decode t
  | b :: b1 :: t when b < 0xE0 -> (((b land 0x1F) lsl 6) lor (b1 land 0x3F)) :: decode t
  | b :: b1 :: b2 :: t when b < 0xF0 ->
    (((b land 0x0F) lsl 12) lor ((b1 land 0x3F) lsl 6) lor (b2 land 0x3F)) :: decode t
  | b :: b1 :: b2 :: b3 :: t ->
    (((b land 0x07) lsl 18) lor ((b1 land 0x3F) lsl 12) lor ((b2 land 0x3F) lsl 6) lor (b3 land 0x3F)) :: decode t
  | _ -> failwith "bad utf-8"
let encode c =
  if c < 0x80 then [c]
  else if c < 0x800 then [0xC0 lor (c lsr 6); 0x80 lor (c land 0x3F)]
  else if c < 0x10000 then [0xE0 lor (c lsr 12); 0x80 lor ((c lsr 6) land 0x3F); 0x80 lor (c land 0x3F)]
  else [0xF0 lor (c lsr 18); 0x80 lor ((c lsr 12) land 0x3F); 0x80 lor ((c lsr 6) land 0x3F); 0x80 lor (c land 0x3F)]
let () =
  iter_lines (fun line ->
    match words line with
    | "X" :: rest ->
      let b = List.map n_of_int (unhex (match rest with h :: _ -> h | [] -> "-")) in
      print_endline (match extract_impl b with
        | XNone -> "N"
        | XSome l -> "S" ^ hex_of_ints (List.map int_of_n l)
        | XPanic -> "!"
        | XFuel -> "F")
    | "Y" :: rest ->
      let cs = List.map n_of_int (decode (unhex (match rest with h :: _ -> h | [] -> "-"))) in
      print_endline (match extract_spec cs with
        | None -> "N"
        | Some l -> "S" ^ hex_of_ints (List.concat_map (fun c -> encode (int_of_n c)) l))
    | "A" :: rest ->
      (* A {<hex name> <hex value>} : the meta arm on the tag's attributes (bytes) -> E<hex label> | D | ! *)
      let rec pairs = function
        | n :: v :: t -> (List.map n_of_int (unhex n), List.map n_of_int (unhex v)) :: pairs t
        | _ -> [] in
      print_endline (match meta_arm (pairs rest) with
        | AIndicator l -> "E" ^ hex_of_ints (List.map int_of_n l)
        | ADone -> "D"
        | APanic -> "!")
    | "B" :: rest ->
      (* B {<hex name> <hex value>} : meta_label_spec on the CODE POINTS -> E<hex utf-8 of label> | D *)
      let rec pairs = function
        | n :: v :: t -> (List.map n_of_int (decode (unhex n)), List.map n_of_int (decode (unhex v))) :: pairs t
        | _ -> [] in
      print_endline (match meta_label_spec (pairs rest) with
        | Some l -> "E" ^ hex_of_ints (List.concat_map (fun c -> encode (int_of_n c)) l)
        | None -> "D")
    | _ -> print_endline "?")
