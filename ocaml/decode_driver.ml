(* one case per line (bytes in hex, chunks separated by '|', an empty chunk is "_",
   no chunks at all is "-"):
     U c1|c2|...    Utf8LossyDecoder: new; process(c1); process(c2); ...; finish
     A c1|c2|...    decode_utf8_lossy / IncompleteUtf8::try_complete streaming
     K bytes        std::str::from_utf8
     X prefix n     from_utf8 on every string prefix ++ (n free bytes), hashed
   output (must equal harness/src/bin/decode.rs):
     U/A: events " ; " lossy-hex " " replacements
          events: s<hex> (a text piece; U+FFFD pieces are sefbfbd), e / E
          (error(): invalid / incomplete at end of stream), "!" = panic
     K:   ok | err <valid_up_to> <error_len or ->
     X:   x <hash> <#ok> <#err>                                            *)
let bytes_of_hex s =
  let n = String.length s / 2 in
  List.init n (fun i -> int_of_string ("0x" ^ String.sub s (2 * i) 2))
let chunks_of s =
  if s = "" || s = "-" then [] else
  List.map (fun h -> if h = "_" then [] else List.map n_of_int (bytes_of_hex h))
    (String.split_on_char '|' s)
let hexn l = hex_of_ints (List.map int_of_n l)
let show_ev = function
  | Str bs -> "s" ^ hexn bs
  | Replacement -> "sefbfbd"
  | Error false -> "e"
  | Error true -> "E"
let show_res = function
  | Panic -> "!"
  | Done evs -> String.concat " " (List.map show_ev evs)
let code_of = function
  | COk -> 0
  | CErr (v, e) -> 1 + 4 * int_of_nat v + (match e with None -> 0 | Some k -> int_of_nat k)
let mask = (1 lsl 40) - 1
let () =
  iter_lines (fun line ->
    let line = String.trim line in
    let kind, arg =
      match String.index_opt line ' ' with
      | None -> line, ""
      | Some i -> String.sub line 0 i, String.trim (String.sub line (i + 1) (String.length line - i - 1)) in
    (match kind with
     | "U" | "A" ->
       let cs = chunks_of arg in
       let r = if kind = "U" then run cs else api_run cs in
       let all = List.concat cs in
       Printf.printf "%s ; %s %d\n" (show_res r) (hexn (lossy all)) (int_of_nat (lossy_replacements all))
     | "K" ->
       (match check (List.map n_of_int (bytes_of_hex arg)) with
        | COk -> print_string "ok\n"
        | CErr (v, e) ->
          Printf.printf "err %d %s\n" (int_of_nat v)
            (match e with None -> "-" | Some k -> string_of_int (int_of_nat k)))
     | "X" ->
       (match words arg with
        | [n] | [_; n] as ws ->
          let prefix = match ws with [p; _] -> bytes_of_hex p | _ -> [] in
          let n = int_of_string n in
          let h = ref 0 and nok = ref 0 and nerr = ref 0 in
          let rec go k suffix =
            if k = 0 then begin
              let c = code_of (check (List.map n_of_int (prefix @ List.rev suffix))) in
              if c = 0 then incr nok else incr nerr;
              h := ((!h * 1000003) + c + 1) land mask
            end else
              for b = 0 to 255 do go (k - 1) (b :: suffix) done in
          go n [];
          Printf.printf "x %x %d %d\n" !h !nok !nerr
        | _ -> print_string "bad-case\n")
     | _ -> print_string "bad-case\n"))
