(* usage: htmlser_model <fix_c2 0|1><fix_ns 0|1>      (e.g. 00 = the code as it is, 11 = both repairs)
   one case per line (same tree description as harness/src/bin/htmlser.rs):
     T <scripting> <node>      -> f1 TAB f2 TAB f3 TAB per-element list   (fields 1,2,3,6 of the harness)
     Q <scripting> <cmp> <scope> {call} -> the Serializer trait driven directly: hex | !
     W <attr> <hex bytes>      -> write_escaped_impl on the BYTES: hex | ! | F
     S <attr> <hex utf-8>      -> escape_spec on the CODE POINTS: hex of utf-8
     U <attr> <hex utf-8>      -> unescape on the CODE POINTS: N | S<hex of utf-8> *)
let unhex s =
  if s = "-" then []
  else List.init (String.length s / 2) (fun i -> int_of_string ("0x" ^ String.sub s (2 * i) 2))
let hexs l = if l = [] then "-" else hex_of_ints l
let bytes_of s = List.map n_of_int (unhex s)
let rec decode = function
  | [] -> []
  | b :: t when b < 0x80 -> b :: decode t
  | b :: b1 :: t when b < 0xE0 -> (((b land 0x1F) lsl 6) lor (b1 land 0x3F)) :: decode t
  | b :: b1 :: b2 :: t when b < 0xF0 ->
    (((b land 0x0F) lsl 12) lor ((b1 land 0x3F) lsl 6) lor (b2 land 0x3F)) :: decode t
  | b :: b1 :: b2 :: b3 :: t ->
    (((b land 0x07) lsl 18) lor ((b1 land 0x3F) lsl 12) lor ((b2 land 0x3F) lsl 6) lor (b3 land 0x3F)) :: decode t
  | _ -> failwith "bad utf-8"
let encode c =
  if c < 0x80 then [c]
  else if c < 0x800 then [0xC0 lor (c lsr 6); 0x80 lor (c land 0x3F)]
  else if c < 0x10000 then [0xE0 lor (c lsr 12); 0x80 lor ((c lsr 6) land 0x3F); 0x80 lor (c land 0x3F)]
  else [0xF0 lor (c lsr 18); 0x80 lor ((c lsr 12) land 0x3F); 0x80 lor ((c lsr 6) land 0x3F); 0x80 lor (c land 0x3F)]
let ns_of = function
  | "h" -> NsHtml | "m" -> NsMathml | "s" -> NsSvg | "x" -> NsXlink | "X" -> NsXml | "N" -> NsXmlns
  | "-" -> NsNone | _ -> NsOther
let ns_code = function
  | NsHtml -> "h" | NsMathml -> "m" | NsSvg -> "s" | NsXlink -> "x" | NsXml -> "X" | NsXmlns -> "N"
  | NsNone -> "-" | NsOther -> "o"
(* prefix-notation parser over a token array *)
let rec build ws i =
  let k = ws.(!i) in
  incr i;
  match k with
  | "E" ->
    let ns = ns_of ws.(!i) in
    let name = bytes_of ws.(!i + 1) in
    let na = int_of_string ws.(!i + 2) in
    i := !i + 3;
    let attrs = ref [] in
    for _ = 1 to na do
      attrs := ((ns_of ws.(!i), bytes_of ws.(!i + 1)), bytes_of ws.(!i + 2)) :: !attrs;
      i := !i + 3
    done;
    let nc = int_of_string ws.(!i) in
    incr i;
    let ch = ref [] in
    for _ = 1 to nc do ch := build ws i :: !ch done;
    Element ((ns, name), List.rev !attrs, List.rev !ch)
  | "T" -> incr i; Text (bytes_of ws.(!i - 1))
  | "C" -> incr i; Comment (bytes_of ws.(!i - 1))
  | "D" -> incr i; Doctype (bytes_of ws.(!i - 1))
  | "P" -> i := !i + 2; ProcInst (bytes_of ws.(!i - 2), bytes_of ws.(!i - 1))
  | _ -> failwith "bad node kind"
let () =
  let a = if Array.length Sys.argv > 1 then Sys.argv.(1) else "00" in
  let v = { fix_c2 = (a.[0] = '1'); fix_ns = (a.[1] = '1') } in
  let ser scripting scope n =
    (* the deque traversal (rcdom as written); proved equal to ser_bytes *)
    match ser_deque_bytes v { scripting_enabled = scripting; traversal_scope = scope; create_missing_parent = false } n with
    | Some b -> hexs (List.map int_of_n b)
    | None -> "!" in
  let rec elements scripting n acc =
    match n with
    | Element (name, _, ch) ->
      let e = Printf.sprintf "%s:%s:%s:%s:%s" (ns_code (fst name)) (hexs (List.map int_of_n (snd name)))
          (ser scripting IncludeNode n) (ser scripting (ChildrenOnly (Some name)) n)
          (ser scripting (ChildrenOnly None) n) in
      List.fold_left (fun acc c -> elements scripting c acc) (e :: acc) ch
    | _ -> acc in
  iter_lines (fun line ->
    match words line with
    | "T" :: s :: rest ->
      let scripting = (s = "1") in
      let ws = Array.of_list rest in
      let root = build ws (ref 0) in
      let f3 = match root with
        | Element (name, _, _) -> ser scripting (ChildrenOnly (Some name)) root
        | _ -> "-" in
      let els = List.rev (elements scripting root []) in
      print_endline (String.concat "\t" [ser scripting IncludeNode root; ser scripting (ChildrenOnly None) root; f3;
                                         if els = [] then "-" else String.concat "," els])
    | "Q" :: s :: cmp :: sc :: rest ->
      (* Q <scripting> <create_missing_parent> <scope: i | n | ns:hexname> {call}
         calls: s <ns> <name> <nattrs> {<ns> <name> <value>} | e <ns> <name> | t <x> | c <x> | d <x> | p <x> <y> *)
      let ws = Array.of_list rest in
      let i = ref 0 in
      let calls = ref [] in
      while !i < Array.length ws do
        let k = ws.(!i) in
        incr i;
        (match k with
         | "s" ->
           let ns = ns_of ws.(!i) in
           let name = bytes_of ws.(!i + 1) in
           let na = int_of_string ws.(!i + 2) in
           i := !i + 3;
           let attrs = ref [] in
           for _ = 1 to na do
             attrs := ((ns_of ws.(!i), bytes_of ws.(!i + 1)), bytes_of ws.(!i + 2)) :: !attrs;
             i := !i + 3
           done;
           calls := CStart ((ns, name), List.rev !attrs) :: !calls
         | "e" -> calls := CEnd (ns_of ws.(!i), bytes_of ws.(!i + 1)) :: !calls; i := !i + 2
         | "t" -> calls := CText (bytes_of ws.(!i)) :: !calls; incr i
         | "c" -> calls := CComment (bytes_of ws.(!i)) :: !calls; incr i
         | "d" -> calls := CDoctype (bytes_of ws.(!i)) :: !calls; incr i
         | "p" -> calls := CPI (bytes_of ws.(!i), bytes_of ws.(!i + 1)) :: !calls; i := !i + 2
         | _ -> failwith "bad call")
      done;
      let scope = match sc with
        | "i" -> IncludeNode
        | "n" -> ChildrenOnly None
        | x -> (match String.split_on_char ':' x with
                | [n; h] -> ChildrenOnly (Some (ns_of n, bytes_of h))
                | _ -> failwith "bad scope") in
      print_endline (match ser_calls v { scripting_enabled = (s = "1"); traversal_scope = scope;
                                         create_missing_parent = (cmp = "1") } (List.rev !calls) with
        | Some b -> hexs (List.map int_of_n b)
        | None -> "!")
    | ["W"; m; h] ->
      print_endline (match write_escaped_impl v (m = "1") (bytes_of h) with
        | WOk b -> hexs (List.map int_of_n b) | WPanic -> "!" | WFuel -> "F")
    | ["S"; m; h] ->
      let cs = List.map n_of_int (decode (unhex h)) in
      print_endline (hexs (List.concat_map (fun c -> encode (int_of_n c)) (escape_spec (m = "1") cs)))
    | ["U"; m; h] ->
      let cs = List.map n_of_int (decode (unhex h)) in
      print_endline (match unescape (m = "1") cs with
        | None -> "N"
        | Some l -> "S" ^ hexs (List.concat_map (fun c -> encode (int_of_n c)) l))
    | _ -> print_endline "?")
