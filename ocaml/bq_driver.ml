(* one case per line:  ops separated by " ; "
   B n b1..bn | F n b1..bn | N | P | X mask | E ic n b1..bn       (bytes decimal)
   output: one token per op, then "|" and the remaining buffers in hex *)
let parse_op ws =
  match ws with
  | "B" :: _ :: bs -> PushBack (List.map n_of_int (ints bs))
  | "F" :: _ :: bs -> PushFront (List.map n_of_int (ints bs))
  | ["N"] -> Next
  | ["P"] -> Peek
  | ["X"; m] -> PopExcept (n_of_u64_string m)
  | "E" :: ic :: _ :: bs -> Eat (List.map n_of_int (ints bs), ic = "1")
  | _ -> failwith "bad op"
let show = function
  | ONone -> "-" | OChar c -> "c" ^ string_of_int (int_of_n c) | OSet c -> "s" ^ string_of_int (int_of_n c)
  | ORun r -> "r" ^ hex_of_ints (List.map int_of_n r)
  | OBool true -> "t" | OBool false -> "f" | OUnit -> "u" | OPanic -> "!"
let () =
  iter_lines (fun line ->
    let ops = List.map (fun s -> parse_op (words s)) (String.split_on_char ';' line) in
    let (q, outs) = run [] ops in
    print_string (String.concat " " (List.map show outs));
    print_string " |";
    List.iter (fun b -> print_string (" " ^ hex_of_ints (List.map int_of_n b))) q;
    print_newline ())
