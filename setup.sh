#!/bin/sh
# Build the framework from files on disk only (offline).
set -e
cd "$(dirname "$0")"
export CARGO_NET_OFFLINE=true CARGO_TARGET_DIR="$PWD/build/target"
mkdir -p build/ocaml evidence/replay
[ -x gen/regen_all.py ] && python3 gen/regen_all.py || true
COQMAKE_TIMEOUT=3000 ./coqmake > build/coq_setup.log 2>&1 || { tail -40 build/coq_setup.log; exit 1; }
(cd harness && cargo build --release --offline)
echo setup ok
