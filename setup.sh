#!/bin/sh
# Build the framework from files on disk only (offline).
set -e
cd "$(dirname "$0")"
export CARGO_NET_OFFLINE=true CARGO_TARGET_DIR="$PWD/build/target"
mkdir -p build/ocaml evidence/replay
[ -x gen/regen_all.py ] && python3 gen/regen_all.py || true
(cd coq && coq_makefile -f _CoqProject -o Makefile && timeout 3000 make -j16)
(cd harness && cargo build --release --offline)
echo setup ok
