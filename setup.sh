#!/bin/sh
# Build the framework from files on disk only (offline).
set -e
cd "$(dirname "$0")"
export CARGO_NET_OFFLINE=true CARGO_TARGET_DIR="$PWD/build/target"
mkdir -p build/ocaml evidence/replay
[ -x gen/regen_all.py ] && python3 gen/regen_all.py || true
# keep going past a file that does not build: every check (re)builds exactly the targets it needs and reports a broken one itself
COQMAKE_TIMEOUT=3000 ./coqmake -k > build/coq_setup.log 2>&1 || { echo "setup: some Coq targets did not build (see build/coq_setup.log)"; tail -15 build/coq_setup.log; }
(cd harness && cargo build --release --offline) || echo "setup: harness build incomplete"
echo setup ok
