"""Shared plumbing for the per-property checks (see DESIGN.md section 2).

A check module (lib/checks/cNN.py) defines  run(ck: Check) -> None  and uses
the helpers here to (1) regenerate/bui1d the Coq development and read back the
`Print Assumptions` of its property theorems, (2) build the Rust harness against
/repo's working tree and the extracted OCaml model, (3) run correspondence and
implementation oracles, (4) report violations / known findings and write the
evidence file.
"""
import fcntl
import hashlib
import json
import os
import random
import re
import subprocess
import sys
import time

ROOT = os.path.dirname(os.path.dirname(os.path.abspath(__file__)))
COQ = os.path.join(ROOT, "coq")
BUILD = os.path.join(ROOT, "build")
TARGET = os.path.join(BUILD, "target")
OCAML_OUT = os.path.join(BUILD, "ocaml")
EVID = os.path.join(ROOT, "evidence")
REPLAY = os.path.join(EVID, "replay")
REPO = os.environ.get("VERIF_REPO", "/repo")
NPROC = os.cpu_count() or 4

ENV = dict(os.environ)
ENV.update({"CARGO_NET_OFFLINE": "true", "CARGO_TARGET_DIR": TARGET,
            "RUSTFLAGS": os.environ.get("RUSTFLAGS", ""),
            "OCAMLRUNPARAM": "l=1000M"})

FORBIDDEN = re.compile(
    r"\b(Admitted|admit|Axiom|Axioms|Parameter|Parameters|Conjecture|Admit Obligations|"
    r"Unset Guard Checking|Unset Positivity Checking|Unset Universe Checking|bypass_check|"
    r"type-in-type|impredicative-set)\b")
STMT = re.compile(r"^\s*(Theorem|Lemma|Corollary|Example|Fact|Proposition)\s+([A-Za-z0-9_']+)", re.M)


def sh(cmd, timeout=1200, cwd=None, env=None, inp=None):
    """run a command, return (rc, combined output)"""
    try:
        p = subprocess.run(cmd, shell=isinstance(cmd, str), cwd=cwd, env=env or ENV,
                           input=inp, stdout=subprocess.PIPE, stderr=subprocess.STDOUT,
                           timeout=timeout, text=True, errors="replace")
        return p.returncode, p.stdout
    except subprocess.TimeoutExpired as e:
        out = e.stdout if isinstance(e.stdout, str) else (e.stdout or b"").decode("utf8", "replace")
        return 124, out + "\n[timeout after %ss]" % timeout


class Lock:
    def __init__(self, name):
        os.makedirs(BUILD, exist_ok=True)
        self.path = os.path.join(BUILD, "." + name + ".lock")

    def __enter__(self):
        self.f = open(self.path, "w")
        fcntl.flock(self.f, fcntl.LOCK_EX)

    def __exit__(self, *a):
        fcntl.flock(self.f, fcntl.LOCK_UN)
        self.f.close()


def write_if_changed(path, text):
    try:
        if open(path).read() == text:
            return False
    except OSError:
        pass
    os.makedirs(os.path.dirname(path), exist_ok=True)
    tmp = path + ".tmp%d" % os.getpid()
    open(tmp, "w").write(text)
    os.replace(tmp, path)
    return True


_KNOWN_CACHE = None


def load_known():
    """known_findings.json, read once per process (retry on a concurrent rewrite)"""
    global _KNOWN_CACHE
    if _KNOWN_CACHE is not None:
        return _KNOWN_CACHE
    p = os.path.join(ROOT, "known_findings.json")
    for _ in range(5):
        try:
            _KNOWN_CACHE = json.load(open(p))["findings"]
            return _KNOWN_CACHE
        except OSError:
            _KNOWN_CACHE = []
            return _KNOWN_CACHE
        except ValueError:
            time.sleep(0.2)
    _KNOWN_CACHE = []
    return _KNOWN_CACHE


class Check:
    def __init__(self, pid, argv):
        self.pid = pid
        self.tier = os.environ.get("VERIF_TIER", "quick")
        self.replay = None
        self.seed = int(os.environ.get("VERIF_SEED", "20260925"))
        i = 0
        while i < len(argv):
            if argv[i] == "--tier":
                self.tier = argv[i + 1]; i += 2
            elif argv[i] == "--replay":
                self.replay = argv[i + 1]; i += 2
            elif argv[i] == "--seed":
                self.seed = int(argv[i + 1]); i += 2
            else:
                i += 1
        if self.tier not in ("quick", "thorough"):
            self.tier = "quick"
        self.t0 = time.time()
        self.rng = random.Random(self.seed)
        self.violations = []      # (what, replay path)
        self.known_hits = []      # strings
        self.notes = []
        self.cov = {}
        self.assumptions = []
        self.proof = {"obligations": 0, "discharged": 0, "theorems": [], "checker_cmd": "",
                      "print_assumptions": []}
        self.broken = []          # names of obligations / correspondences that no longer check
        os.makedirs(REPLAY, exist_ok=True)
        os.makedirs(OCAML_OUT, exist_ok=True)

    # ------------------------------------------------------------------ logging
    def log(self, *a):
        print("[%s %6.1fs]" % (self.pid, time.time() - self.t0), *a, flush=True)

    @property
    def quick(self):
        return self.tier == "quick"

    # ------------------------------------------------------------------ Coq
    def coq_makefile(self):
        import mkproject
        mkproject.main()
        mk = os.path.join(COQ, "Makefile")
        cp = os.path.join(COQ, "_CoqProject")
        if not os.path.exists(mk) or os.path.getmtime(mk) < os.path.getmtime(cp):
            rc, out = sh("coq_makefile -f _CoqProject -o Makefile", cwd=COQ, timeout=120)
            if rc != 0:
                raise RuntimeError("coq_makefile failed: " + out)

    def coq_make(self, targets, timeout=1500):
        """full .vo build of the given targets (and their dependencies)"""
        with Lock("coq"):
            # every generated file must describe /repo as it is NOW, whichever check ran last and on whichever tree:
            # a check re-translates its own tables and reports a failing translator itself, but its Props file may
            # depend on tables of other translators (Props/C18 -> Tree/* -> Gen/GenDispatch.v), and a stale table left
            # behind by a run against a different working tree would break - or wrongly pass - the build.  All
            # translators rewrite only on change (about 1 s in all); failures are reported by the owning check.
            sh("%s %s" % (sys.executable, os.path.join(ROOT, "gen", "regen_all.py")), cwd=ROOT, timeout=600)
            self.coq_makefile()
            cmd = "make -j%d %s" % (NPROC, " ".join(targets) if targets else "all")
            rc, out = sh(cmd, cwd=COQ, timeout=timeout)
        return rc == 0, out

    def coq_deps(self, vfile):
        """project .v files the given file depends on (transitively), via coqdep"""
        rc, out = sh("coqdep -Q . HV -sort %s" % vfile, cwd=COQ, timeout=120)
        # -sort prints a topologically sorted list of the reachable files
        files = [f for f in out.split() if f.endswith(".v")]
        return files

    def coq_props(self, props_file=None, extra_targets=(), allow_axioms=()):
        """(re)compile Props/<pid>.v, collect Print Assumptions, count obligations.
        Returns True iff everything compiled, the hygiene gate is clean and every
        property theorem is closed under the global context (or only uses
        allow-listed standard-library axioms)."""
        props_file = props_file or "Props/%s.v" % self.pid
        vo = props_file[:-2] + ".vo"
        # hygiene gate over the whole development
        bad = []
        for dp, dn, fn in os.walk(COQ):
            for f in fn:
                if f.endswith(".v"):
                    txt = open(os.path.join(dp, f)).read()
                    txt = re.sub(r"\(\*.*?\*\)", "", txt, flags=re.S)
                    for m in FORBIDDEN.finditer(txt):
                        bad.append("%s: %s" % (os.path.relpath(os.path.join(dp, f), COQ), m.group(0)))
        if bad:
            self.broken.append("hygiene gate: " + "; ".join(bad[:5]))
        try:
            os.remove(os.path.join(COQ, vo))
        except OSError:
            pass
        t = time.time()
        ok, out = self.coq_make([vo] + list(extra_targets))
        self.proof["checker_cmd"] = ("cd coq && coq_makefile -f _CoqProject -o Makefile && make -j%d %s  "
                                     "(coqc 8.16.1, full .vo build)" % (NPROC, vo))
        self.proof["build_s"] = round(time.time() - t, 1)
        deps = self.coq_deps(props_file)
        names = []
        for f in deps:
            try:
                txt = open(os.path.join(COQ, f)).read()
            except OSError:
                continue
            names += ["%s:%s" % (f, m.group(2)) for m in STMT.finditer(txt)]
        top = [m.group(2) for m in STMT.finditer(open(os.path.join(COQ, props_file)).read())]
        self.proof["theorems"] = top
        self.proof["obligations"] = len(names)
        if not ok:
            m = re.search(r'File "\./([^"]+)", line (\d+)', out)
            where = "%s:%s" % (m.group(1), m.group(2)) if m else "?"
            # count what did compile: statements in files whose .vo exists
            done = 0
            for f in deps:
                if os.path.exists(os.path.join(COQ, f[:-2] + ".vo")):
                    done += len(STMT.findall(open(os.path.join(COQ, f)).read()))
            self.proof["discharged"] = done
            tail = "\n".join(out.strip().splitlines()[-12:])
            self.broken.append("Coq build of %s failed at %s: %s" % (vo, where, tail))
            self.log("Coq build FAILED at", where)
            return False
        pa = re.findall(r"^(Closed under the global context|Axioms:.*?(?=^\S|\Z))", out, flags=re.M | re.S)
        self.proof["print_assumptions"] = [p.strip().replace("\n", " ") for p in pa]
        notclosed = []
        for p in pa:
            if p.startswith("Closed"):
                continue
            used = re.findall(r"^\s*([A-Za-z0-9_.']+)\s*:", p, flags=re.M)
            for u in used:
                if u not in allow_axioms:
                    notclosed.append(u)
        if notclosed:
            self.broken.append("Print Assumptions reports axioms not in the allow-list: %s" % sorted(set(notclosed)))
        if len(pa) == 0:
            self.broken.append("no Print Assumptions output seen for " + props_file)
        self.proof["discharged"] = len(names) if not (bad or notclosed) else 0
        self.log("Coq: %d statements in %d files compiled, %d property theorems, assumptions: %s" % (
            len(names), len(deps), len(top), sorted(set(self.proof["print_assumptions"]))[:3]))
        chk_bad = False
        if self.tier == "thorough" and not os.environ.get("VERIF_NO_COQCHK"):
            chk_bad = not self.coqchk(props_file)
        return not (bad or notclosed or len(pa) == 0 or chk_bad)

    def coqchk(self, props_file, timeout=3000):
        """thorough tier: re-check the compiled property file and everything it depends on with the independent
        checker; its context summary must report no axiom, no type-in-type, no unsafe fixpoint, no assumed positivity"""
        lib = "HV." + props_file[:-2].replace("/", ".")
        t = time.time()
        with Lock("coq"):
            rc, out = sh("coqchk -o -silent -Q . HV %s" % lib, cwd=COQ, timeout=timeout)
        summ = {}
        for m in re.finditer(r"^\* ([^:\n]+):\s*(.*?)(?=^\* |\Z)", out, flags=re.M | re.S):
            summ[m.group(1).strip()] = " ".join(m.group(2).split())
        self.proof["coqchk"] = {"cmd": "cd coq && coqchk -o -silent -Q . HV %s" % lib, "exit": rc, "summary": summ,
                                "wall_s": round(time.time() - t, 1)}
        want = ["Axioms", "Constants/Inductives relying on type-in-type", "Constants/Inductives relying on unsafe (co)fixpoints",
                "Inductives whose positivity is assumed"]
        ok = rc == 0 and all(summ.get(k) == "<none>" for k in want)
        if not ok:
            self.broken.append("coqchk on %s: exit %s, summary %s; %s" % (lib, rc, summ, out.strip()[-400:]))
        self.log("coqchk %s: %s (%.0fs)" % (lib, "clean" if ok else "NOT CLEAN", time.time() - t))
        return ok

    # ------------------------------------------------------------------ Rust harness
    def cargo_build(self, bins=None, release=True, timeout=1500):
        with Lock("cargo"):
            cmd = "cargo build --offline %s %s" % ("--release" if release else "",
                                                   " ".join("--bin " + b for b in (bins or [])))
            rc, out = sh(cmd, cwd=os.path.join(ROOT, "harness"), timeout=timeout)
        if rc != 0:
            self.log("cargo build failed:\n" + "\n".join(out.splitlines()[-30:]))
            raise SystemExit(self.infra_fail("harness does not build against /repo's working tree:\n" +
                                             "\n".join(out.splitlines()[-30:])))
        return os.path.join(TARGET, "release" if release else "debug")

    def infra_fail(self, msg):
        """the machinery itself could not run: report as broken tie, exit 1"""
        self.broken.append(msg)
        self.finish()
        return 1

    # ------------------------------------------------------------------ OCaml model
    def ocaml_build(self, name, model_ml, driver_ml):
        """cat extracted model + conv.ml + driver into one unit, compile with ocamlopt"""
        with Lock("ocaml"):
            src = [os.path.join(COQ, "Extract", model_ml), os.path.join(ROOT, "ocaml", "conv.ml"),
                   os.path.join(ROOT, "ocaml", driver_ml)]
            h = hashlib.sha256()
            for s in src:
                h.update(open(s, "rb").read())
            exe = os.path.join(OCAML_OUT, name)
            stamp = exe + ".sha"
            if os.path.exists(exe) and os.path.exists(stamp) and open(stamp).read() == h.hexdigest():
                return exe
            main = os.path.join(OCAML_OUT, name + "_main.ml")
            with open(main, "w") as f:
                for s in src:
                    f.write("# 1 \"%s\"\n" % s)
                    f.write(open(s).read())
                    f.write("\n")
            rc, out = sh("ocamlfind ocamlopt -O2 -w -a -package str -linkpkg %s -o %s 2>&1 || "
                         "ocamlfind ocamlopt -w -a -package str -linkpkg %s -o %s" % (main, exe, main, exe),
                         cwd=OCAML_OUT, timeout=600)
            if rc != 0:
                raise SystemExit(self.infra_fail("ocamlopt failed for %s:\n%s" % (name, out[-2000:])))
            open(stamp, "w").write(h.hexdigest())
            return exe

    # ------------------------------------------------------------------ running things
    def run_lines(self, exe, args, lines, timeout=1800, shards=None):
        """feed case lines to a line-in/line-out program, sharded over the cores;
        returns the list of output lines (one per case, order preserved)."""
        if not lines:
            return []
        shards = shards or min(NPROC, max(1, len(lines) // 200))
        chunks = [lines[i::shards] for i in range(shards)]
        procs = []
        for ch in chunks:
            p = subprocess.Popen([exe] + list(args), stdin=subprocess.PIPE, stdout=subprocess.PIPE,
                                 stderr=subprocess.PIPE, env=ENV, text=True, errors="replace")
            procs.append(p)
        import threading
        outs = [None] * shards
        errs = [None] * shards

        def feed(i):
            try:
                o, e = procs[i].communicate("\n".join(chunks[i]) + "\n", timeout=timeout)
            except subprocess.TimeoutExpired:
                procs[i].kill()
                o, e = procs[i].communicate()
                e = (e or "") + "\n[timeout]"
            outs[i] = o.splitlines()
            errs[i] = e
        th = [threading.Thread(target=feed, args=(i,)) for i in range(shards)]
        [t.start() for t in th]
        [t.join() for t in th]
        res = [None] * len(lines)
        for i in range(shards):
            o = outs[i]
            n = len(chunks[i])
            if len(o) != n:
                # a crash of the process: mark the missing tail
                o = o + ["<no-output rc=%s %s>" % (procs[i].returncode, (errs[i] or "").strip()[-200:].replace("\n", " "))] * (n - len(o))
            for j in range(n):
                res[i + j * shards] = o[j]
        return res

    # ------------------------------------------------------------------ verdicts
    def match_known(self, case_class):
        """case_class: a short machine-checkable signature string computed by the check.
        Returns the known-finding entry (status 'known') whose class equals it, else None."""
        for k in load_known():
            if k.get("property") == self.pid and k.get("status") == "known" and k.get("class") == case_class:
                return k
        return None

    def violation(self, what, payload, case_class=None):
        """record a violation (or a known finding if case_class is listed)"""
        if case_class is not None:
            k = self.match_known(case_class)
            if k is not None:
                msg = "%s [%s]" % (k.get("what", what), case_class)
                if msg not in self.known_hits:
                    self.known_hits.append(msg)
                return False
        payload = dict(payload)
        payload.update({"property": self.pid, "what": what, "seed": self.seed, "tier": self.tier})
        if case_class:
            payload["class"] = case_class
        blob = json.dumps(payload, sort_keys=True, ensure_ascii=True)
        path = os.path.join(REPLAY, "%s-%s.json" % (self.pid, hashlib.sha256(blob.encode()).hexdigest()[:12]))
        open(path, "w").write(json.dumps(payload, indent=1, ensure_ascii=True))
        self.violations.append((what, path))
        return True

    def finish(self, level="proof", extra_cov=None, assumptions=None, trusted=None):
        cov = dict(self.cov)
        cov.update(extra_cov or {})
        # a broken obligation with no concrete failing input
        tail = ""
        if self.broken and not self.violations:
            payload = {"kind": "obligation-broken", "broken": self.broken}
            blob = json.dumps(payload, sort_keys=True)
            path = os.path.join(REPLAY, "%s-broken-%s.json" % (self.pid, hashlib.sha256(blob.encode()).hexdigest()[:12]))
            payload.update({"property": self.pid, "seed": self.seed, "tier": self.tier})
            open(path, "w").write(json.dumps(payload, indent=1))
            self.violations.append(("; ".join(b.splitlines()[0] for b in self.broken)[:300], path))
            tail = " no-failing-input-found"
        cov.setdefault("obligations", self.proof["obligations"])
        cov.setdefault("discharged", self.proof["discharged"])
        cov.setdefault("checker_cmd", self.proof["checker_cmd"] or "n/a")
        cov.setdefault("trusted_base", trusted or [])
        cov["property_theorems"] = self.proof["theorems"]
        cov["print_assumptions"] = sorted(set(self.proof["print_assumptions"]))
        if "coqchk" in self.proof:
            cov["coqchk"] = self.proof["coqchk"]
        cov["broken_obligations"] = self.broken
        cov["known_findings_hit"] = self.known_hits
        cov["notes"] = self.notes
        ev = {"property_id": self.pid, "tier": self.tier, "seed": self.seed, "level": level,
              "coverage": cov, "assumptions": assumptions or self.assumptions,
              "wall_s": round(time.time() - self.t0, 2), "violations": len(self.violations)}
        os.makedirs(EVID, exist_ok=True)
        open(os.path.join(EVID, self.pid + ".json"), "w").write(json.dumps(ev, indent=1, ensure_ascii=True))
        for k in self.known_hits:
            print("KNOWN-FINDING: property=%s %s" % (self.pid, k), flush=True)
        for what, path in self.violations:
            print("  violation: " + what.replace("\n", " ")[:400])
            print("VIOLATION property=%s replay=%s%s" % (self.pid, os.path.relpath(path, ROOT), tail), flush=True)
        if self.violations:
            return 1
        self.log("OK (%s tier, %.1fs)" % (self.tier, time.time() - self.t0))
        return 0


# ---------------------------------------------------------------------- text pools
TEXT_POOL = [
    "a", "b", "Z", "0", " ", "\t", "\n", "\r", "\r\n", "\x0c", "\0", "<", ">", "&", "\"", "'", "=", "/", "!", "-",
    "?", ";", "#", "[", "]", "`", ":", "x", "X", "@", "?", "\x3f", "\x40", "\x7f", "\u0080", "\u00a0", "\u00a9",
    "\u00e9", "\u07ff", "\u0800", "\u2028", "\ud7ff", "\ue000", "\ufeff", "\ufffd", "\uffff", "\U00010000",
    "\U0001f600", "\U0010ffff",
]


def rand_text(rng, maxlen=8, pool=None):
    pool = pool or TEXT_POOL
    return "".join(rng.choice(pool) for _ in range(rng.randint(0, maxlen)))


def cps(s):
    return [ord(c) for c in s]
