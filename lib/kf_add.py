#!/usr/bin/env python3
"""lib/kf_add.py '<json object>'  - append one entry to known_findings.json under a lock.
entry keys: property, id, status ("known"|"fixed"), class (exact signature string the check computes),
what (one line: what fails), witness (the concrete input/history), commit (for fixed)."""
import fcntl, json, os, sys
ROOT = os.path.dirname(os.path.dirname(os.path.abspath(__file__)))
p = os.path.join(ROOT, "known_findings.json")
e = json.loads(sys.argv[1])
with open(p + ".lock", "w") as lk:
    fcntl.flock(lk, fcntl.LOCK_EX)
    d = json.load(open(p))
    d["findings"] = [x for x in d["findings"] if x.get("id") != e.get("id")] + [e]
    tmp = p + ".tmp%d" % os.getpid()
    open(tmp, "w").write(json.dumps(d, indent=1, ensure_ascii=True) + "\n")
    os.replace(tmp, p)
print("ok")
