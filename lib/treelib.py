"""Machinery for the tree-builder checks (C02 and the properties that reuse its model: C04 C05 C06 C18 C19):
case format of harness/src/bin/treetrace.rs, input grammar biased towards tree construction, runners for the
implementation (treetrace) and the extracted Coq model (ocaml/tree_driver.ml), log comparison, arm coverage."""
import os
import re

import toklib as T
import vcommon

# --------------------------------------------------------------------------------------------- cases
def mk_case(chunks, frag=None, exact=0, bom=1, scripting=1, dropdt=0, srcdoc=0, quirks=0, ctxscripting=1, form=0):
    """frag: None (document) or 'nsabbr:local[:encoding]'"""
    return "%s|%d %d %d %d %d %d %d %d|%s|%s" % ("F" if frag else "D", exact, bom, scripting, dropdt, srcdoc, quirks,
                                                ctxscripting, form, frag or "", ";".join(T.enc(c) for c in chunks))


def case_text(case):
    f = case.split("|")
    return ["".join(chr(int(x)) for x in ch.split()) for ch in f[3].split(";")]


def describe(case):
    f = case.split("|")
    fl = f[1].split()
    names = ["exact_errors", "discard_bom", "scripting", "drop_doctype", "iframe_srcdoc", "quirks(0 no,1 limited,2 quirks)",
             "ctx_scripting", "form_pointer"]
    return {"kind": "fragment" if f[0] == "F" else "document", "context": f[2],
            "opts": {n: int(v) for n, v in zip(names, fl)}, "chunks": case_text(case)}


# --------------------------------------------------------------------------------------------- vocabulary
SPECIAL = ("address applet area article aside base basefont bgsound blockquote body br button caption center col "
           "colgroup dd details dir div dl dt embed fieldset figcaption figure footer form frame frameset h1 h2 h3 h4 h5 "
           "h6 head header hgroup hr html iframe img input isindex keygen li link listing main marquee menu meta nav "
           "noembed noframes noscript object ol p param plaintext pre script search section select source style summary "
           "table tbody td template textarea tfoot th thead title tr track ul wbr xmp").split()
FORMATTING = "a b big code em font i nobr s small strike strong tt u".split()
TABLE = "table caption colgroup col tbody thead tfoot tr td th".split()
SELECT = "select option optgroup selectedcontent hr input button datalist".split()
HEAD = "base basefont bgsound link meta title style script noscript noframes template head".split()
RUBY = "ruby rb rt rtc rp".split()
OTHER = "span x-y dialog image output menuitem math svg sub sup var label legend".split()
SVG = "svg g path title desc foreignObject foreignobject script style clippath lineargradient altglyph font a image".split()
MATH = "math mi mo mn ms mtext annotation-xml mglyph malignmark semantics mrow".split()
BREAKOUT = ("b big blockquote body br center code dd div dl dt em embed h1 h2 h3 h4 h5 h6 head hr i img li listing menu "
            "meta nobr ol p pre ruby s small span strong strike sub sup table tt u ul var font").split()
ALL_NAMES = sorted(set(SPECIAL + FORMATTING + TABLE + SELECT + HEAD + RUBY + OTHER))

ATTR_POOL = [
    ("type", "hidden"), ("type", "HIDDEN"), ("type", "text"), ("charset", "utf-8"), ("http-equiv", "Content-Type"),
    ("content", "text/html; charset=latin1"), ("content", "x"), ("encoding", "text/html"),
    ("encoding", "application/xhtml+xml"), ("encoding", "TEXT/HTML"), ("encoding", "text/plain"),
    ("color", "red"), ("face", "x"), ("size", "1"), ("shadowrootmode", "open"), ("shadowrootmode", "closed"),
    ("shadowrootmode", "x"), ("selected", ""), ("multiple", ""), ("form", "f"), ("definitionurl", "u"),
    ("xlink:href", "#a"), ("xml:lang", "en"), ("xmlns", "http://www.w3.org/2000/svg"), ("xmlns:xlink", "l"),
    ("viewbox", "0 0 1 1"), ("attributename", "x"), ("id", "i"), ("class", "c"), ("href", "h"), ("name", "n"),
    ("a", "1"), ("b", "2"), ("A", "3"),
]
TEXTS = ["x", "y z", " ", "\n", "\nq", "\n\n", " a ", "\t", "a\0b", "\0", "  \n", "text", "é", "&amp;", "<", "a b c d", "\x0c",
         " \n x \n ", "1",
         # white space by Unicode's reckoning but not by HTML's (and the other way round: FF is HTML white space)
         "\x0b", " \x0b", "\xa0", "\u3000", "\u2028", "\x0b\n", "\x85", "\x1f", "\xa0 \xa0"]
DOCTYPES = ["<!DOCTYPE html>", "<!doctype html>", "<!DOCTYPE>", "<!DOCTYPE foo>", "<!DOCTYPE html SYSTEM \"about:legacy-compat\">",
            "<!DOCTYPE html PUBLIC \"-//W3C//DTD HTML 4.01//EN\" \"http://www.w3.org/TR/html4/strict.dtd\">",
            "<!DOCTYPE html PUBLIC \"-//W3C//DTD HTML 4.01 Transitional//EN\">",
            "<!DOCTYPE html PUBLIC \"-//W3C//DTD HTML 4.01 Transitional//EN\" \"http://www.w3.org/TR/html4/loose.dtd\">",
            "<!DOCTYPE html PUBLIC \"-//W3C//DTD XHTML 1.0 Transitional//EN\" \"x\">",
            "<!DOCTYPE html PUBLIC \"-//W3C//DTD XHTML 1.0 Frameset//EN\">",
            "<!DOCTYPE html PUBLIC \"-//W3C//DTD HTML 3.2 Final//EN\">", "<!DOCTYPE html PUBLIC \"HTML\">",
            "<!DOCTYPE html PUBLIC \"html\">", "<!DOCTYPE html PUBLIC \"-//W3O//DTD W3 HTML Strict 3.0//EN//\">",
            "<!DOCTYPE html SYSTEM \"http://www.ibm.com/data/dtd/v11/ibmxhtml1-transitional.dtd\">",
            "<!DOCTYPE html PUBLIC \"-//IETF//DTD HTML//EN\">", "<!DOCTYPE html PUBLIC \"-//W3C//DTD HTML 4.0//EN\">",
            "<!DOCTYPE html PUBLIC \"-//W3C//DTD XHTML 1.0 Strict//EN\" \"http://www.w3.org/TR/xhtml1/DTD/xhtml1-strict.dtd\">",
            "<!DOCTYPE html PUBLIC \"-//W3C//DTD XHTML 1.1//EN\" \"http://www.w3.org/TR/xhtml11/DTD/xhtml11.dtd\">",
            "<!DOCTYPE HTML PUBLIC \"-/W3C/DTD HTML 4.0 Transitional/EN\">", "<!DOCTYPE html PUBLIC \"\" \"\">",
            "<!DOCTYPE html PUBLIC \"-//w3c//dtd html 4.01 frameset//\" \"\">", "<!DOCTYPE html public 'x' 'y'>",
            "<!DOCTYPE html bogus>", "<!DOCTYPE html", "<!DOCTYPE svg:svg>"]

FRAG_CONTEXTS = (["html:" + n for n in SPECIAL + ["option", "optgroup", "a", "b", "span", "ruby", "math", "svg", "selectedcontent"]] +
                 ["svg:" + n for n in ["svg", "title", "desc", "foreignObject", "path", "script", "g", "a"]] +
                 ["math:" + n for n in ["math", "mi", "mo", "mn", "ms", "mtext", "annotation-xml", "mrow",
                                        "annotation-xml:text/html", "annotation-xml:application/xhtml+xml",
                                        "annotation-xml:text/plain"]])


def g_attrs(r, name=None, p=0.35):
    out = []
    seen = set()
    while r.random() < p:
        k, v = r.choice(ATTR_POOL)
        if r.random() < 0.15 and seen:
            k = r.choice(sorted(seen))          # duplicate attribute (dropped by the tokenizer, sets the flag)
        seen.add(k)
        q = r.choice(['"', "'", ""])
        if q == "" and (not v or re.search(r"[ \t\n\r\x0c>\"'=<`]", v)):
            q = '"'
        out.append(" %s=%s%s%s" % (k, q, v, q) if (v or r.random() < 0.5) else " " + k)
    return "".join(out)


def g_start(r, name):
    return "<%s%s%s>" % (name, g_attrs(r, name), "/" if r.random() < 0.08 else "")


def g_item(r, names, open_stack):
    k = r.random()
    if k < 0.50:
        n = r.choice(names)
        open_stack.append(n)
        return g_start(r, n)
    if k < 0.72:
        if open_stack and r.random() < 0.7:
            n = open_stack.pop(r.randrange(len(open_stack))) if r.random() < 0.3 else open_stack.pop()
        else:
            n = r.choice(names)
        return "</%s>" % n
    if k < 0.90:
        return r.choice(TEXTS)
    if k < 0.95:
        return "<!--%s-->" % r.choice(["", "c", " x ", "-", ">"])
    if k < 0.98:
        return r.choice(DOCTYPES)
    return r.choice(["<![CDATA[x]]>", "<?pi?>", "</>", "<br/>", "</br>", "</p>", "<image>", "&#10;", "&#10x", "\r\n",
                     "<![CDATA[]]>", "<svg><![CDATA[]]>", "<math><![CDATA[]]>x", "<!---->"])


def seq(r, names, n=None):
    st = []
    return "".join(g_item(r, names, st) for _ in range(n or r.randint(2, 14)))


# each family: a weighted vocabulary and a few hand-made skeletons that are randomly extended
FAMILIES = {
    "tables": TABLE * 4 + FORMATTING[:4] + ["p", "div", "form", "input", "select", "script", "style", "template", "a", "x-y",
                                            "svg", "math", "button", "li", "body", "html", "frameset", "textarea", "pre"],
    "adoption": FORMATTING * 4 + ["p", "div", "table", "td", "tr", "li", "button", "object", "applet", "marquee", "address",
                                  "search", "isindex", "svg", "math", "mi", "desc", "template", "select", "x-y"],
    "select": SELECT * 4 + ["select", "option", "optgroup", "p", "div", "b", "table", "tr", "td", "template", "script",
                            "textarea", "keygen", "svg", "hr", "input"],
    "template": ["template"] * 8 + TABLE + HEAD + ["p", "b", "div", "frameset", "body", "html", "select", "option", "svg", "math"],
    "frameset": ["frameset", "frame", "noframes", "body", "html", "head"] * 3 + ["p", "b", "s", "div", "input", "br", "table",
                                                                              "template", "script", "li", "pre", "textarea"],
    "head": HEAD * 4 + ["html", "body", "p", "frameset", "br", "b"],
    "forms": ["form", "input", "button", "fieldset", "select", "textarea", "img", "object", "output", "label"] * 3 +
             ["table", "tr", "td", "template", "p", "div", "b"],
    "foreign": SVG + MATH + BREAKOUT[:20] + ["p", "b", "table", "font", "template", "select", "title", "script", "textarea"] +
               # names that mean something to the HTML rules but stay foreign elements inside svg / math (no break-out):
               # every rule that looks for "a td", "a template", "an li" ... must look at the namespace too
               ["td", "th", "tr", "caption", "tbody", "li", "dd", "option", "button", "html", "head", "frameset", "a", "nobr",
                "foreignObject", "desc", "mi", "annotation-xml"] * 2,
    "lists": ["li", "dd", "dt", "ul", "ol", "dl", "p", "div", "address", "button", "h1", "h2", "h3", "menu", "dir", "pre",
              "listing", "blockquote", "center", "b", "a", "span"] + RUBY * 2,
    "rawtext": ["plaintext", "noscript", "title", "textarea", "style", "script", "xmp", "iframe", "noembed", "noframes", "pre",
                "listing", "p", "b", "svg", "math", "table", "select"],
    "any": ALL_NAMES,
}
SKELETONS = [
    "<b><p>x</b>y", "<a><div><a>", "<b><i><u><s><p></b></i>", "<table><b><tr><td>aaa</td></tr>bbb</table>ccc",
    "<a><table><td><a><table></table><a></tr><a></table><b>X</b>C<a>Y", "<b><b><b><b><b><b><b><b><b><b><p></b>x",
    "<b a=1><b a=1><b a=1><b a=1><p></b>", "<p><b><div><marquee></p></b></div>X", "<table>x<tr>y<td>z</table>w",
    "<table><tr><td><select><option>a<table>", "<select><option>a<optgroup><option>b</select>c",
    "<select><button><selectedcontent></selectedcontent></button><option selected>a</option><option>b</select>",
    "<template><tr><td>x</template>y", "<template><template><col></template><td>", "<table><template><tr>",
    "<frameset><frame></frameset><noframes>x</noframes>", "<s><frameset></frameset></html> ", "<body><frameset>",
    "<head></head><title>x</title><meta charset=a><body>", "<html a=1><head><html b=2><body c=3><body d=4>",
    "<form><table><form><input type=hidden><input></table></form><input>", "<table><form><tr><td><input form=f></table>",
    "<svg><desc><p>x</svg>", "<math><mi><p>x<mglyph></mi><annotation-xml encoding=text/html><div>", "<svg><p>x", "<svg><font color=red>",
    "<math><annotation-xml><svg><foreignObject><math><mtext><b>", "<p><math><annotation-xml></p>x", "<b><math><mi></b>x",
    "<svg></p><title><table></svg>", "<plaintext><b>x</plaintext>", "<noscript><p>x</noscript>y", "<head><noscript><link><b>",
    "<pre>\nx</pre><listing>\n\ny</listing><textarea>\nz</textarea>", "<pre>&#10x", "<pre>&#10;x", "<textarea>\n", "<ul><li><div><li>", "<dl><dd><dt><p><dd>",
    "<ruby>a<rb>b<rt>c<rtc>d<rp>e", "<button><p><button>x", "<h1><h2></h3>", "<p><table>", "<nobr><nobr><nobr>", "<applet><b></applet>x</b>",
    "<table><caption><b><td>", "<table><colgroup><col><b>x<td>", "<table><tbody><tr></tbody><td></thead></table>",
    "<table><input type=hidden><input type=text>", "<table><td><caption><col><tfoot>", "<title>a</title><script>b</script><style>c",
    "<template shadowrootmode=open>x</template>", "<div><template shadowrootmode=closed>x", "<option><option><optgroup><hr>",
    "<select><input><select><textarea>", "<body><image a=b><br/></br><hr><keygen>", "<!--a--><!DOCTYPE html><!--b--><html><!--c--></html><!--d-->",
    "</head>x", "</body>x</html>y<p>", "<frameset></frameset></html><noframes>", "<a><svg><a>", "<math><mo><a><b></math></a>",
    "<table><tr><td><svg><desc><td>", "<xmp><b>", "<iframe></iframe><noembed>x</noembed>", "<html><frameset>", "<dd><svg><dd>",
    "<table> x<!--c--><tr> <td> </table>", "<table><tr>\0x", "<svg>\0a\0", "<template>\0</template>", "<table><select><tr>",
    "<link charset=x><base charset=y><meta http-equiv=Content-Type content='a;charset=b'>",
    "<head><noscript></br>", "<frameset></frameset></html><html a=b>", "<b><i><em><s><u><p>x</b>y",
    "<b><p><div><div><div><div><div><div><div><div><div>x</b>y", "<a><b><i><em><s><u><tt><div><a>",
    "<b a=1><b a=2><b a=3><b a=4><b a=5><b a=6><b a=7><b a=8><b a=9><p></b>x",
]


# an HTML element N is open; inside it foreign content holds an element with the SAME local name N, and below that an
# HTML integration point puts the parser back into HTML rules; then N's end tag (or start tag) arrives.  Every rule that
# looks for "an N element" on the stack must take the namespace into account.
_SHADOW_OPENERS = {"td": "<table><tr><td>", "th": "<table><tr><th>", "caption": "<table><caption>", "template": "<template>",
                   "li": "<ul><li>", "p": "<p>", "button": "<button>", "a": "<a href=x>", "select": "<select>", "dd": "<dl><dd>",
                   "dt": "<dl><dt>", "h1": "<h1>", "form": "<form>", "nobr": "<nobr>", "b": "<b>", "table": "<table>",
                   "option": "<select><option>", "body": "<body>", "div": "<div>", "tr": "<table><tr>", "tbody": "<table><tbody>",
                   "applet": "<applet>", "marquee": "<marquee>", "object": "<object>", "rp": "<ruby><rp>", "address": "<address>"}
_INTEGRATION = ["<foreignObject>", "<desc>", "<title>"]
_MATH_INTEGRATION = ["<mi>", "<mtext>", "<annotation-xml encoding=text/html>", "<annotation-xml encoding=application/xhtml+xml>"]


def gen_foreign_shadow(r):
    n = r.choice(sorted(_SHADOW_OPENERS))
    if r.random() < 0.7:
        inner = "<svg><%s>%s" % (n, r.choice(_INTEGRATION))
    else:
        inner = "<math><%s>%s" % (n, r.choice(_MATH_INTEGRATION))
    body = r.choice(["", "<b>", "<p>q", "t", "<i><b>", "<div>"])
    closer = r.choice(["</%s>" % n, "</%s>" % n, "<%s>" % n, "</%s></%s>" % (n, n)])
    tail = r.choice(["x", "x</table>y", "<p>z", " w", ""]) + (seq(r, FAMILIES["any"], r.randint(1, 3)) if r.random() < 0.3 else "")
    return _SHADOW_OPENERS[n] + inner + body + closer + tail


def gen_tree_html(r):
    k = r.random()
    if k < 0.05:
        return gen_foreign_shadow(r)
    if k < 0.30:
        s = r.choice(SKELETONS)
        fam = r.choice(sorted(FAMILIES))
        if r.random() < 0.6:
            s = s + seq(r, FAMILIES[fam], r.randint(1, 5))
        if r.random() < 0.3:
            s = seq(r, FAMILIES[fam], r.randint(1, 3)) + s
        return s
    if k < 0.85:
        fam = r.choice(sorted(FAMILIES))
        s = seq(r, FAMILIES[fam])
        if r.random() < 0.15:
            s = r.choice(DOCTYPES) + s
        return s
    if k < 0.95:
        return T.gen_html(r)
    # deep nesting of one formatting / block element
    n = r.choice(FORMATTING + ["div", "p", "li", "table", "template", "svg", "select"])
    d = r.randint(3, 25)
    return ("<%s>" % n) * d + r.choice(["", "x", "<p>", "</b>", "</%s>" % n * (d // 2)]) + seq(r, FAMILIES["any"], 2)


def gen_case(r, frag_p=0.3):
    s = gen_tree_html(r)
    chunks = r.choice(T.chunkings(r, s, 1)) if r.random() < 0.25 else [s]
    frag = r.choice(FRAG_CONTEXTS) if r.random() < frag_p else None
    return mk_case(chunks, frag=frag, exact=int(r.random() < 0.2), bom=int(r.random() < 0.8),
                   scripting=int(r.random() < 0.6), dropdt=int(r.random() < 0.1), srcdoc=int(r.random() < 0.15),
                   quirks=r.choice([0, 0, 0, 1, 2]), ctxscripting=int(r.random() < 0.7), form=int(frag is not None and r.random() < 0.2))


def systematic_cases():
    """every fragment context x a few bodies; every skeleton as document under both scripting settings"""
    out = []
    bodies = ["x<p>y</p>", "<td>a<tr><td>b", "<option>a<input>", "</template><col>", "<b>1</b><svg><a/></svg>", "\n<li>x",
              "<frameset><frame>", "<html a=1><body b=2>x", "</p></br>", "<script>x</script>y", "<title>x</title>", "<caption><col>"]
    for c in FRAG_CONTEXTS:
        for b in bodies:
            out.append(mk_case([b], frag=c))
    for s in SKELETONS:
        for scripting in (0, 1):
            out.append(mk_case([s], scripting=scripting))
        out.append(mk_case([s], quirks=2, srcdoc=1))
    for d in DOCTYPES:
        for srcdoc in (0, 1):
            out.append(mk_case([d + "<p><table>"], srcdoc=srcdoc))
            out.append(mk_case([d + "x"], srcdoc=srcdoc, dropdt=1, exact=1))
    return out


# --------------------------------------------------------------------------------------------- running
def build(ck):
    """-> (treetrace path, model path or None)"""
    bindir = ck.cargo_build(["treetrace"])
    ok, log = ck.coq_make(["Extract/ExtractTree.vo"])
    if not ok:
        ck.broken.append("tree-builder model does not compile: " + "\n".join(log.strip().splitlines()[-8:]))
        return os.path.join(bindir, "treetrace"), None
    model = ck.ocaml_build("tree_model", "tree_model.ml", "tree_driver.ml")
    return os.path.join(bindir, "treetrace"), model


def run_impl(ck, exe, cases):
    return ck.run_lines(exe, [], cases)


def run_model(ck, model, impl_lines):
    return ck.run_lines(model, [], impl_lines)


def split_cov(model_line):
    body, sep, cov = model_line.rpartition(" ## ")
    if not sep:
        return model_line, []
    return body, [tuple(map(int, x.split("."))) for x in cov.split()]


def first_diff(a, b):
    ea, eb = a.split(" ; "), b.split(" ; ")
    for i, (x, y) in enumerate(zip(ea, eb)):
        if x != y:
            return i, x, y
    if len(ea) != len(eb):
        i = min(len(ea), len(eb))
        return i, (ea[i] if i < len(ea) else "<end>"), (eb[i] if i < len(eb) else "<end>")
    return None


def events(line):
    _, _, body = line.partition(" ;; ")
    return body.split(" ; ")


# --------------------------------------------------------------------------------------------- dispatch probes (golden)
MODE_PREFIX = [
    ("Initial", "", 1), ("BeforeHtml", "<!DOCTYPE html>", 1), ("BeforeHead", "<html>", 1), ("InHead", "<head>", 1),
    ("InHeadNoscript", "<head><noscript>", 0), ("AfterHead", "<head></head>", 1), ("InBody", "<body><p>", 1),
    ("InBodyDeep", "<body><div><b><ul><li>", 1), ("Text", "<title>", 1), ("InTable", "<table>", 1),
    ("InCaption", "<table><caption>", 1), ("InColumnGroup", "<table><colgroup>", 1), ("InTableBody", "<table><tbody>", 1),
    ("InRow", "<table><tr>", 1), ("InCell", "<table><tr><td>", 1), ("InTemplate", "<template>", 1),
    ("InTemplateRow", "<template><tr>", 1), ("AfterBody", "<body></body>", 1), ("InFrameset", "<frameset>", 1),
    ("AfterFrameset", "<frameset></frameset>", 1), ("AfterAfterBody", "<body></body></html>", 1),
    ("AfterAfterFrameset", "<frameset></frameset></html>", 1), ("ForeignSvg", "<svg><g>", 1), ("ForeignMath", "<math><mrow>", 1),
    ("MathTextIP", "<math><mi>", 1), ("SvgHtmlIP", "<svg><desc>", 1), ("InSelect", "<select><option>", 1),
    ("InButtonP", "<p><button>", 1), ("Ruby", "<ruby><rb>", 1), ("Heading", "<h1>", 1), ("Formatting", "<a><b><nobr>", 1),
]


def probe_names():
    """every tag name mentioned in an arm head of rules.rs or in a tag set, as of the regenerated tables"""
    names = set()
    for f in ("GenDispatch.v", "GenTagSets.v", "GenAdjust.v"):
        txt = open(os.path.join(vcommon.COQ, "Gen", f)).read()
        names.update(re.findall(r'A(?:Start|End) "([^"]+)"', txt))
        names.update(re.findall(r'\(Ns\w+, "([^"]+)"\)', txt))
    return sorted(n for n in names if re.fullmatch(r"[A-Za-z0-9:-]+", n)) + ["x-y"]


def probe_cases():
    out = []
    names = probe_names()
    for _, prefix, scripting in MODE_PREFIX:
        for n in names:
            out.append(mk_case(["%s<%s>x<b>y" % (prefix, n)], scripting=scripting))
            out.append(mk_case(["%s</%s>x<b>y" % (prefix, n)], scripting=scripting))
        for tok in ["x", " ", "<!--c-->", "\0", "<!DOCTYPE html>", ""]:
            out.append(mk_case([prefix + tok + "<i>z"], scripting=scripting))
    # frameset-ok probes: which tokens clear the flag (the implicit body is replaced by <frameset> iff it is still set)
    for n in names:
        for s in ("<%s><frameset><frame>" % n, "<%s></%s><frameset><frame>" % (n, n), "</%s><frameset><frame>" % n,
                  "<%s> <frameset><frame>" % n):
            out.append(mk_case([s]))
    for s in ("x<frameset>", " <frameset>", "\0<frameset>", "<input type=hidden><frameset>", "<input type=text><frameset>",
              "<svg>x</svg><frameset>", "<svg> </svg><frameset>", "<math>\0</math><frameset>", "<table> </table><frameset>",
              "<select> </select><frameset>", "<template></template><frameset>", "<!--c--><frameset>"):
        out.append(mk_case([s]))
    # foreign content: every name of the SVG tag / attribute adjustment tables, as start and end tag in mixed case,
    # in documents and in svg / math fragments; integration points with break-out tags inside
    adj = open(os.path.join(vcommon.COQ, "Gen", "GenAdjust.v")).read()
    svg_tags = re.findall(r'\("([a-z]+)", "([A-Za-z]+)"\)', adj.split("Definition svg_attr_adjust")[0])
    attr_names = re.findall(r'\("([a-z:]+)", \(', adj)
    for low, camel in svg_tags:
        for opener, closer in ((low, low), (camel, camel), (low, camel), (low.upper(), low)):
            out.append(mk_case(["<svg><%s id=c><rect></rect></%s><g>x</g></svg><p>after" % (opener, closer)]))
        out.append(mk_case(["<%s><stop/></%s><rect/>" % (low, camel)], frag="svg:svg"))
        out.append(mk_case(["<%s>a</%s>b" % (low, low)], frag="math:math"))
        out.append(mk_case(["<p><%s>a</%s>b" % (low, low)]))
    for a in attr_names:
        out.append(mk_case(["<svg %s=1 %s=2><g %s=3>" % (a, a.upper(), a)]))
        out.append(mk_case(["<math %s=1><mi %s=3>" % (a, a)]))
        out.append(mk_case(["<p %s=1>" % a]))
    for ip in ("<svg><foreignObject>", "<svg><desc>", "<svg><title>", "<math><mi>", "<math><mtext>", "<math><annotation-xml>",
               "<math><annotation-xml encoding=text/html>", "<math><annotation-xml encoding=APPLICATION/XHTML+XML>"):
        for b in ("<b>x</b>y", "<p>x</p>y", "<table><tr><td>x", "<svg><b>x", "<math><b>x", "</p>x", "</br>x", "<font color=red>x",
                  "<font>x", "<mglyph>x", "<malignmark>x", "</svg>x", "</math>x", "<svg></svg>x", "<li>x"):
            out.append(mk_case([ip + b]))
    # pending-LF probes
    for n in ("pre", "listing", "textarea", "div", "title"):
        for t in ("\nx", "\n\nx", "&#10;x", "&#10x", "<!--c-->\nx", "\r\nx", "x\n"):
            out.append(mk_case(["<%s>%s" % (n, t)]))
    return out
