#!/usr/bin/env python3
"""Seeded-change bookkeeping (manual tool, not a check).

  seedtest.py confirm <seed-worktree> <i> <id>     re-confirm in the scratch worktree that demo<i> fails with patch<i>
                                                   and passes without it; copy patch/demo/meta to /verif/seeded/<id>/
  seedtest.py run <id> <check> [<check>...]        apply /verif/seeded/<id>/patch.diff to /repo, run the checks (quick),
                                                   undo it straight afterwards, record the outcome in meta.json
"""
import json
import os
import re
import shutil
import subprocess
import sys
import time

ROOT = os.path.dirname(os.path.dirname(os.path.abspath(__file__)))
SEEDED = os.path.join(ROOT, "seeded")


def sh(cmd, cwd=None, timeout=3000, env=None):
    e = dict(os.environ)
    e.update(env or {})
    e["CARGO_NET_OFFLINE"] = "true"
    p = subprocess.run(cmd, shell=True, cwd=cwd, stdout=subprocess.PIPE, stderr=subprocess.STDOUT, text=True, timeout=timeout, env=e)
    return p.returncode, p.stdout


def demo_target(demo_path):
    """where the demo says it goes: '<crate>/tests/<name>.rs' from its leading comment"""
    txt = open(demo_path).read()
    m = re.search(r"([a-z0-9_]+)/tests/([A-Za-z0-9_-]+)\.rs", txt)
    if not m:
        return None
    return m.group(1), m.group(2)


def confirm(wt, i, sid):
    out = os.path.join(wt, "out")
    patch, demo, meta = (os.path.join(out, "%s%s.%s" % (n, i, e)) for n, e in (("patch", "diff"), ("demo", "rs"), ("meta", "json")))
    tgt = demo_target(demo)
    if not tgt:
        print("cannot find the demo's destination in its leading comment"); return 2
    crate, name = tgt
    pkg = {"rcdom": "markup5ever_rcdom"}.get(crate, crate)
    dest = os.path.join(wt, crate, "tests", name + ".rs")
    env = {"CARGO_TARGET_DIR": os.path.join(wt, "target")}
    feat = " --features encoding_rs" if (pkg == "tendril" and "encoding_rs" in open(demo).read()) else ""
    sh("git checkout -- . ", cwd=wt)
    made_dir = not os.path.isdir(os.path.dirname(dest))
    os.makedirs(os.path.dirname(dest), exist_ok=True)
    shutil.copy(demo, dest)
    res = {}
    try:
        rc0, o0 = sh("cargo test --offline -p %s --test %s%s 2>&1 | tail -15" % (pkg, name, feat), cwd=wt, env=env)
        ok0 = "test result: ok" in o0
        rc, o = sh("git apply %s" % patch, cwd=wt)
        if rc != 0:
            print("patch does not apply:", o); return 2
        rc1, o1 = sh("cargo test --offline -p %s --test %s%s 2>&1 | tail -15" % (pkg, name, feat), cwd=wt, env=env)
        fail1 = "test result: FAILED" in o1 or "panicked" in o1
        # the existing suite must still pass with the patch (compare the per-target result lines with the pristine ones)
        os.remove(dest)
        rc2, o2 = sh("cargo test --workspace --no-fail-fast --offline 2>&1 | grep -E '^test result|^error: test failed' ", cwd=wt, env=env)
        sh("git checkout -- .", cwd=wt)
        rc3, o3 = sh("cargo test --workspace --no-fail-fast --offline 2>&1 | grep -E '^test result|^error: test failed' ", cwd=wt, env=env)
        strip = lambda t: re.sub(r"finished in [0-9.]+s", "", t)
        suite_same = strip(o2) == strip(o3)
        res = {"demo_passes_on_pristine": ok0, "demo_fails_with_patch": fail1, "existing_suite_unchanged_by_patch": suite_same,
               "suite_summary_with_patch": strip(o2).splitlines()}
    finally:
        sh("git checkout -- .", cwd=wt)
        if os.path.exists(dest):
            os.remove(dest)
        if made_dir and os.path.isdir(os.path.dirname(dest)) and not os.listdir(os.path.dirname(dest)):
            os.rmdir(os.path.dirname(dest))
    print(json.dumps({k: v for k, v in res.items() if k != "suite_summary_with_patch"}))
    if not (res.get("demo_passes_on_pristine") and res.get("demo_fails_with_patch") and res.get("existing_suite_unchanged_by_patch")):
        print("NOT CONFIRMED"); return 1
    d = os.path.join(SEEDED, sid)
    os.makedirs(d, exist_ok=True)
    shutil.copy(patch, os.path.join(d, "patch.diff"))
    shutil.copy(demo, os.path.join(d, "demo.rs"))
    m = json.load(open(meta))
    m["confirmed_by_coordinator"] = res
    m["demo_destination"] = "%s/tests/%s.rs (cargo test --offline -p %s --test %s)" % (crate, name, pkg, name)
    json.dump(m, open(os.path.join(d, "meta.json"), "w"), indent=1)
    print("kept as", d)
    return 0


def run(sid, checks):
    d = os.path.join(SEEDED, sid)
    patch = os.path.join(d, "patch.diff")
    rc, o = sh("git -C /repo status --porcelain")
    if o.strip():
        print("refusing: /repo working tree is not clean:\n" + o); return 2
    rc, o = sh("git -C /repo apply %s" % patch)
    if rc != 0:
        print("patch does not apply to /repo:", o); return 2
    results = {}
    # the evidence files describe /repo itself: keep them out of reach of a run against a seeded change
    saved = {}
    for c in checks:
        ev = os.path.join(ROOT, "evidence", c + ".json")
        if os.path.exists(ev):
            saved[ev] = open(ev, "rb").read()
    try:
        for c in checks:
            t = time.time()
            rc, o = sh("./check %s --tier quick" % c, cwd=ROOT, timeout=3000)
            viol = [l for l in o.splitlines() if l.startswith("VIOLATION")]
            results[c] = {"exit": rc, "violation_lines": viol[:3], "first_violation": next((l.strip() for l in o.splitlines() if l.strip().startswith("violation:")), "")[:300],
                          "wall_s": round(time.time() - t, 1)}
            print(c, "exit", rc, (viol[:1] or ["-"])[0])
    finally:
        sh("git -C /repo checkout -- .")
        for ev, data in saved.items():
            with open(ev + ".tmp", "wb") as f:
                f.write(data)
            os.replace(ev + ".tmp", ev)
    m = json.load(open(os.path.join(d, "meta.json")))
    m.setdefault("checks_run_against_it", {}).update(results)
    m["caught_by"] = sorted(c for c, r in m["checks_run_against_it"].items() if r["exit"] == 1)
    json.dump(m, open(os.path.join(d, "meta.json"), "w"), indent=1)
    rc, o = sh("git -C /repo status --porcelain")
    print("repo clean again:", not o.strip())
    return 0


if __name__ == "__main__":
    if sys.argv[1] == "confirm":
        sys.exit(confirm(sys.argv[2], sys.argv[3], sys.argv[4]))
    if sys.argv[1] == "run":
        sys.exit(run(sys.argv[2], sys.argv[3:]))
