#!/bin/sh
# manual tool: does /repo's working tree give the same test-suite summary as HEAD?  (used before every fix: commit)
cd /repo || exit 2
strip() { sed -E 's/finished in [0-9.]+s//'; }
run() { CARGO_NET_OFFLINE=true cargo test --workspace --no-fail-fast --offline 2>&1 | grep -E "^test result|^error" | strip | sort | uniq -c; }
W=$(mktemp); H=$(mktemp)
run > "$W"
git stash -q || exit 2
run > "$H"
git stash pop -q
if diff "$W" "$H" >/dev/null; then echo "SUITE SAME ($(awk '/passed/{s+=$5} END{print s}' "$W") passed)"; rc=0; else echo "SUITE DIFFERS"; diff "$W" "$H"; rc=1; fi
rm -f "$W" "$H"; exit $rc
