#!/usr/bin/env python3
"""manual tool: print the markdown table of seeded changes (seeded/*/meta.json) for DESIGN.md section 19"""
import json, os, glob
ROOT = os.path.dirname(os.path.dirname(os.path.abspath(__file__)))
print("| seed | change (one line) | caught by (quick tier) | first violation reported by the property's own check |")
print("|---|---|---|---|")
for d in sorted(glob.glob(os.path.join(ROOT, "seeded", "*", ""))):
    sid = os.path.basename(d[:-1])
    m = json.load(open(d + "meta.json"))
    summ = " ".join(m.get("summary", "").split())
    if len(summ) > 210:
        summ = summ[:207] + "..."
    if m.get("retired"):
        print("| %s | %s | retired | patch no longer applies after the serializer fix: commits; same change as C17-seed3 |" % (sid, summ.replace("|", "\\|")))
        continue
    runs = m.get("checks_run_against_it", {})
    own = runs.get(m["property"], {})
    fv = " ".join((own.get("first_violation") or "").replace("violation: ", "").split())[:120]
    print("| %s | %s | %s | %s |" % (sid, summ.replace("|", "\\|"), ", ".join(m.get("caught_by", [])) or "-", fv.replace("|", "\\|")))
