"""Tree-builder tables of C02 (tag sets, quirks tables, adjustment tables, dispatch census): regeneration from the
Rust source, build of the Coq comparison with the WHATWG lists, and naming of the differing cells.

    import treetables
    ok = treetables.regen(ck)          # runs gen/gen_treetables.py; False + ck.broken entry on TRANSLATE-ERROR
    ok = treetables.build_inst(ck)     # builds coq/Inst/InstTreeTables.vo; on failure names table + cells
    ok = treetables.build_findings(ck) # builds coq/Inst/FindingsTreeTables.vo (the listed deviations are still present);
                                       # a failure is NOT appended to ck.broken: it means a finding no longer reproduces
    w  = treetables.witness(ck)        # {group: printed list of (lemma name, (only in html5ever, only in standard))}
    treetables.setup(ck)               # regen + build_inst, fills ck.notes / ck.cov / ck.broken

Stand-alone:  python3 lib/treetables.py     (prints a JSON summary; exit 0 iff everything agrees)
"""
import json
import os
import re
import sys

sys.path.insert(0, os.path.dirname(os.path.abspath(__file__)))
import vcommon
from vcommon import ROOT, COQ

GEN = os.path.join(ROOT, "gen", "gen_treetables.py")
GEN_FILES = ["GenTagSets.v", "GenQuirks.v", "GenAdjust.v", "GenDispatch.v"]
INST = "Inst/InstTreeTables.vo"
FINDINGS = "Inst/FindingsTreeTables.vo"
WITNESS = "Inst/WitnessTreeTables.vo"

TRUSTED = [
    "gen/gen_treetables.py (fail-closed translator of declare_tag_set!, data.rs tables, adjustment matches, rules.rs "
    "arm heads into Coq lists; pins the text of the macros declare_tag_set!/tag!/qualname!)",
    "coq/TreeTables/WhatwgLists.v, WhatwgDispatch.v: the lists and cases of the WHATWG standard transcribed by hand "
    "(revision: living standard 2025, after the customizable-select parser change)",
    "coq/TreeTables/Deviations.v: the named exception lists (each proved exact)",
]


def regen(ck):
    """re-translate the tables of /repo into coq/Gen/Gen{TagSets,Quirks,Adjust,Dispatch}.v (written only on change).
    Returns False (and records a broken tie) when the translator does not recognise the source."""
    rc, out = vcommon.sh([sys.executable, GEN], timeout=120)
    last = out.strip().splitlines()[-1] if out.strip() else ""
    if rc != 0:
        ck.broken.append("translator gen/gen_treetables.py failed on /repo's tree-builder source (tie broken): " + out.strip()[-600:])
        return False
    try:
        info = json.loads(last)
        ck.cov["treetables"] = info
        ck.notes.append("treetables: " + last)
    except ValueError:
        ck.notes.append("treetables: " + last[:300])
    return True


def witness(ck):
    """compile Inst/WitnessTreeTables.v (always compiles) and return {group: printed value}; groups whose value is
    not "[]" contain (lemma name, (only in html5ever, only in the standard)) entries"""
    try:
        os.remove(os.path.join(COQ, WITNESS))
    except OSError:
        pass
    ok, out = ck.coq_make([WITNESS])
    res = {}
    if not ok:
        ck.broken.append("Inst/WitnessTreeTables.v does not compile: " + "\n".join(out.strip().splitlines()[-8:]))
        return res
    flat = re.sub(r"\s+", " ", out)
    for m in re.finditer(r'= \("((?:FAILING|STALE) [\w ]+|SIZES)", (.*?)\) : ', flat):
        res[m.group(1)] = m.group(2).strip()
    return res


def _split_top(val):
    """split a printed Coq list "[a; b; c]" at its top-level semicolons"""
    val = val.strip()
    if val.startswith("[") and val.endswith("]"):
        val = val[1:-1]
    parts, cur, depth, instr = [], [], 0, False
    for ch in val:
        if instr:
            cur.append(ch)
            if ch == '"':
                instr = False
            continue
        if ch == '"':
            instr = True
        elif ch in "([":
            depth += 1
        elif ch in ")]":
            depth -= 1
        elif ch == ";" and depth == 0:
            parts.append("".join(cur).strip())
            cur = []
            continue
        cur.append(ch)
    if "".join(cur).strip():
        parts.append("".join(cur).strip())
    return parts


def failing(w, kind="FAILING"):
    """names of the Inst lemmas that fail according to a witness dict, with their cells
    (kind="STALE": exceptions of Deviations.v that are no longer exactly present)"""
    bad = {}
    for grp, val in w.items():
        if not grp.startswith(kind) or val == "[]":
            continue
        if grp == "FAILING split discipline":
            bad["split_discipline_all_modes"] = val
            continue
        for part in _split_top(val):
            m = re.match(r'\("(\w+)", (.*)\)$', part, flags=re.S)
            if m:
                bad[m.group(1)] = m.group(2)
            else:
                bad.setdefault(grp, "")
                bad[grp] += part
    return bad


def build_inst(ck):
    """build the vm_compute instantiations; on failure record which lemma broke and which cells differ"""
    ok, out = ck.coq_make([INST])
    if ok:
        return True
    m = re.search(r'File "\./([^"]+)", line (\d+)', out)
    where = "%s:%s" % (m.group(1), m.group(2)) if m else "?"
    lemma = None
    if m and m.group(1) == "Inst/InstTreeTables.v":
        try:
            lines = open(os.path.join(COQ, "Inst", "InstTreeTables.v")).read().splitlines()
            for i in range(int(m.group(2)) - 1, -1, -1):
                mm = re.match(r"\s*(Lemma|Theorem|Example)\s+(\w+)", lines[i])
                if mm:
                    lemma = mm.group(2)
                    break
        except OSError:
            pass
    w = witness(ck)
    bad = failing(w)
    ck.cov["treetables_failing"] = bad
    ck.broken.append("tree-builder table differs from the WHATWG list: Coq build of %s failed at %s (first broken lemma: %s); "
                     "differing cells: %s" % (INST, where, lemma, json.dumps(bad)[:1500]))
    return False


def build_findings(ck):
    """the deviations listed in TreeTables/Deviations.v are still present, exactly.  Returns True/False; on False a note
    (not a broken obligation) says which finding no longer reproduces."""
    ok, out = ck.coq_make([FINDINGS])
    if ok:
        return True
    m = re.search(r'File "\./([^"]+)", line (\d+)', out)
    w = witness(ck)
    st = failing(w, "STALE")
    ck.cov["treetables_stale_findings"] = st
    ck.notes.append("treetables: a listed deviation of html5ever from the standard no longer reproduces exactly "
                    "(Inst/FindingsTreeTables.v fails at %s): %s" % ("%s:%s" % (m.group(1), m.group(2)) if m else "?",
                                                                      json.dumps(st)[:1000]))
    return False


def setup(ck):
    """regenerate + build; returns True iff every table agrees with the standard (up to the named exceptions)"""
    if not regen(ck):
        return False
    ok = build_inst(ck)
    if ok:
        build_findings(ck)
    return ok


if __name__ == "__main__":
    ck = vcommon.Check("C02T", sys.argv[1:])
    ok = setup(ck)
    print(json.dumps({"ok": ok, "broken": ck.broken, "failing": ck.cov.get("treetables_failing", {}),
                      "stale_findings": ck.cov.get("treetables_stale_findings", {}),
                      "notes": [n for n in ck.notes if "no longer reproduces" in n],
                      "info": ck.cov.get("treetables")}, indent=1))
    sys.exit(0 if ok else 1)
