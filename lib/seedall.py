#!/usr/bin/env python3
"""manual tool: run every kept seeded change against the check of its own property (and the checks that caught it
before); prints one line per seed.  Uses lib/seedtest.py run, so /repo is restored after every seed."""
import json, os, subprocess, sys
ROOT = os.path.dirname(os.path.dirname(os.path.abspath(__file__)))
only = sys.argv[1:]
for sid in sorted(os.listdir(os.path.join(ROOT, "seeded"))):
    if only and sid not in only and sid.split("-")[0] not in only:
        continue
    m = json.load(open(os.path.join(ROOT, "seeded", sid, "meta.json")))
    if m.get("retired"):
        print(sid, "retired (patch no longer applies; see meta.json)", flush=True)
        continue
    checks = [m["property"]]
    p = subprocess.run([sys.executable, os.path.join(ROOT, "lib", "seedtest.py"), "run", sid] + checks, capture_output=True, text=True)
    m = json.load(open(os.path.join(ROOT, "seeded", sid, "meta.json")))
    r = m.get("checks_run_against_it", {}).get(checks[0], {})
    print(sid, "caught" if r.get("exit") == 1 else "MISSED(exit %s)" % r.get("exit"), r.get("wall_s"), (r.get("first_violation") or "")[:140], flush=True)
    if "repo clean again: True" not in p.stdout:
        print("  !! repo not clean after", sid, p.stdout[-300:]); break
