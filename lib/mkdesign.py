#!/usr/bin/env python3
"""manual tool: re-assemble Part II of DESIGN.md from docs_src/part2_[a-d].md (hand-written) and the seed table
generated from seeded/*/meta.json.  Part I of DESIGN.md (everything before the Part II heading) is left as it is."""
import os, subprocess
ROOT = os.path.dirname(os.path.dirname(os.path.abspath(__file__)))
d = open(os.path.join(ROOT, "DESIGN.md")).read()
marker = "\n---------------------------------------------------------------------------\n\n# Part II — as built"
if marker in d:
    d = d[:d.index(marker)]
parts = "".join(open(os.path.join(ROOT, "docs_src", "part2_%s.md" % x)).read() for x in "abcd")
table = subprocess.run(["python3", os.path.join(ROOT, "lib", "mkseedtable.py")], capture_output=True, text=True).stdout
parts = parts.replace("SEEDTABLE\n", table)
open(os.path.join(ROOT, "DESIGN.md"), "w").write(d.rstrip("\n") + "\n" + parts)
print("DESIGN.md: %d lines" % (d.count("\n") + parts.count("\n")))
