#!/usr/bin/env python3
"""(re)generate coq/_CoqProject from the .v files present (sorted); returns True if it changed"""
import os, sys
sys.path.insert(0, os.path.dirname(os.path.abspath(__file__)))
COQ = os.path.join(os.path.dirname(os.path.dirname(os.path.abspath(__file__))), "coq")

def main():
    files = []
    for dp, dn, fn in os.walk(COQ):
        dn[:] = [d for d in dn if not d.startswith(".") and d not in ("scratch",)]
        for f in fn:
            if f.endswith(".v") and not f.startswith("."):
                files.append(os.path.relpath(os.path.join(dp, f), COQ))
    text = "-Q . HV\n-arg -w -arg -notation-overridden,-deprecated-hint-without-locality,-deprecated-instance-without-locality\n" + "\n".join(sorted(files)) + "\n"
    p = os.path.join(COQ, "_CoqProject")
    try:
        if open(p).read() == text:
            return False
    except OSError:
        pass
    open(p, "w").write(text)
    return True

if __name__ == "__main__":
    print("changed" if main() else "unchanged")
