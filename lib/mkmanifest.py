#!/usr/bin/env python3
"""Regenerate MANIFEST.json from the table below (run by hand after editing; validates against the schema when
python3-vt's jsonschema is available)."""
import json
import os
import subprocess
import sys

ROOT = os.path.dirname(os.path.dirname(os.path.abspath(__file__)))
TOK_NOTE = ("Trusted: Coq kernel (vm_compute for reflective checks); gen/rs2ir.py translator (fail-closed, cross-validated each run); "
            "hand-written TokIR interpreter coq/TokIR/Interp.v (tied to the Rust tokenizers by differential correspondence only); "
            "extraction (ExtrOcamlBasic) + ocamlopt; Rust/OCaml drivers; generators. Not modelled: SIMD intrinsics beyond their lane "
            "semantics, wall-clock, stack depth, the `profile` option.")

CLAIMS = {
    "C13": dict(cat="proof", ref="DESIGN.md section 5 C13",
                text="Coq theorems (Props/C13.v, closed under the global context): a byte-level executable model of BufferQueue/SmallCharSet "
                     "refines a flat character-string specification for every history of public operations over every buffer partition "
                     "of valid UTF-8 text (refinement, no-panic, run maximality within the first buffer, eat = prefix comparison, no loss). "
                     "The model is tied to the Rust code by differential runs of the extracted model against markup5ever::BufferQueue; the "
                     "flat-String oracle on the implementation's outputs yields concrete failing inputs.",
                note="Trusted: Coq kernel; extraction (ExtrOcamlBasic) + ocamlopt; OCaml/Rust drivers; python generator/oracle; tendril "
                     "pop_front_char/unsafe_subtendril modelled as UTF-8 decode/list split (tie = differential testing, not proof).",
                tech="Coq refinement proof (byte-level model -> flat string) + model/implementation correspondence"),
    "C01": dict(cat="proof", ref="DESIGN.md section 5 C01",
                text="PARTIAL proof. The html tokenizer's step()/eof_step() are re-translated from the Rust source into a TokIR table on "
                     "every run; Props/C01.v proves (vm_compute, closed) that this table equals cell-for-cell the committed golden table "
                     "audited against WHATWG 13.2.5, that every arm ends in a transition and character references start only where "
                     "the spec allows. The table's meaning (interpreter) is tied to the real Tokenizer by differential runs over "
                     "every (state, character class) cell and grammar-generated inputs; the golden-table interpreter is one oracle "
                     "that produces failing inputs; the second is an independent transcription of WHATWG 13.2.5 in Python "
                     "(lib/whatwg_tok.py, written from the standard, entity table from CPython) run on the same inputs "
                     "(tokens compared without parse errors). Stage A of the refinement against a FORMAL specification: "
                     "coq/TokIR/WhatwgSpec.v is the WHATWG tokenization algorithm as an executable Coq state machine (all 80 states, "
                     "input preprocessing, named references by maximal munch over the WHATWG table, scripted tree-construction "
                     "feedback), transcribed from the standard via lib/whatwg_tok.py and independent of html5ever and of the tables; "
                     "C01_whatwg_cross_check evaluates it against the interpreter on the regenerated table on 33 nasty inputs "
                     "inside Coq (a test by computation). Stage B, the refinement THEOREM for the text states "
                     "(TokIR/WhatwgRefine.v + Inst/InstWhatwgRefine.v, C01_refines_whatwg_text_and_attributeless_tags_partial): for every input, "
                     "start state among Data / PLAINTEXT / RCDATA / RAWTEXT / script data (escaped, double escaped), last start tag, "
                     "sink whose answers are state switches only (no Script, no EncodingIndicator) and fuel, if feed + end() return "
                     "normally and every machine the run visits is in one of 33 covered states (Data, PLAINTEXT, RCDATA, RAWTEXT, script "
                     "data and their 17 less-than-sign / end-tag-open / end-tag-name / escape states, tag open, end tag open, tag name, "
                     "self-closing start tag, bogus comment) with no character reference pending, the formal WHATWG tokenizer stops with the "
                     "same tokens (parse errors dropped, character data compared character by character, U+0000 its own token; start "
                     "tags switch both tokenizers as the sink answers): a simulation relating the interpreter's CR/LF handling inside "
                     "get_char to the standard's preprocessing pass, reconsume, temporary buffer, appropriate end tag, end-of-file "
                     "clauses; obligations discharged per state by symbolic execution of both machines. NOT covered (runs reaching them "
                     "are outside the theorem): the 8 attribute states, markup declaration open, the comment states, the "
                     "DOCTYPE states, CDATA sections, character references; script pauses and encoding suspensions. "
                     "C01_default_mode_refines_whatwg_partial transports the theorem to the REAL default configuration (exact_errors = "
                     "false, chunked BufferQueue, bulk reads, SIMD scan; Inst/InstWhatwgDefault.v): with fuel >= html_fuel |text| the "
                     "default-mode run returns normally and its observation equals the WHATWG tokens, under the same covered-states "
                     "hypothesis on the reference run (C01_observation_factors_through_obs: the C01 observation is a function of the "
                     "observation of the C03/C08 default-mode simulation).",
                note=TOK_NOTE + " The golden table is an audited snapshot, not an independent transcription.",
                tech="source-to-Coq translation + reflective Coq checks + golden-table differential + independent WHATWG tokenizer oracle"),
    "C03": dict(cat="proof", ref="DESIGN.md section 5 C03",
                text="PARTIAL proof, with the core theorem closed. Props/C03.v proves (generic Coq theorem TokIR/Chunk.v, instantiated on the "
                     "table regenerated from html5ever/src/tokenizer/mod.rs on every run) that for the tokenizer's reference semantics "
                     "(TokIR interpreter over a flat queue, exact_errors = true) any two chunkings of the same input - with script "
                     "pauses injecting text and EncodingIndicator suspensions at the same logical positions - reach the SAME machine: "
                     "token stream with parse errors and line numbers, configuration, unread input (suspend/resume lemmas for every "
                     "read kind, character-reference sub-tokenizer included); the run relation is proved to be the fuelled executable "
                     "loop. Also proved (TokIR/QueueSim.v, generic): with exact_errors = true the interpreter over the chunked "
                     "queue - the one run against the Rust code - equals the reference interpreter token for token (errors, "
                     "lines, configuration, unread input, results) for the whole driver (feed, BOM, script injection, end). "
                     "And at the level of the executable driver (TokIR/ChunkExec.v): two chunkings through drive_flat - feed loops with "
                     "script injection, then end() - reach the same final machine and end() result whenever every feed call ended "
                     "regularly, byte order mark handling included (except a first chunk that is U+FEFF alone). The regularity "
                     "hypothesis is discharged for the reference driver (TokIR/Termination.v + NoPanic.v): from a fresh tokenizer in a "
                     "well-kinded state with a well-kinded sink and fuel above the explicit bound (T+1)(2T+10) on the total input "
                     "length, every feed call ends regularly unless the driver model's limit of 50 script pauses per chunk is hit "
                     "(C03_driver_chunking_independent_total: only that 96-hypothesis and the fuel bound remain; "
                     "C03_driver_chunking_independent_no_pauses: nothing but the fuel bound for sinks that never pause). "
                     "Also proved (TokIR/BulkSim.v, generic in the queue and the table; Inst/InstBulk.v decides its two table "
                     "conditions on the regenerated html table): for exact_errors = false - the tokenizer's default mode - the "
                     "chunked-queue interpreter with bulk reads (runs up to the end of the first buffer, the SIMD scan of the "
                     "data state with its own newline count, stale current_char, no bad-character errors on the fast path) is in "
                     "a stuttering simulation with the reference interpreter (flat queue, one character at a time, exact_errors = "
                     "true), whole driver included (feed, BOM, script injection, encoding suspension, end()): for every list of "
                     "chunks, sink script, injected text and start machine, if the default-mode run ends without fuel exhaustion "
                     "then the reference run with any fuel from some bound on reports the same results, unread input, consumed "
                     "count, configuration up to current_char, and the same tokens up to obs = parse errors dropped, each "
                     "maximal group of adjacent character tokens merged into one carrying the line and consumed-count of its "
                     "last member, all other tokens kept with their lines (C03_default_mode_against_reference, "
                     "C03_default_mode_is_reference_up_to_obs); composed with the chunk theorem: in default mode the observable "
                     "token stream and the end() result do not depend on the chunking "
                     "(C03_default_mode_chunking_independent_obs). html only; the hypothesis 'no fuel exhaustion' stays. "
                     "Not proved, tied by differential runs in the check: the Rust "
                     "tokenizer agrees with that interpreter (the reference_leg comparison interpreter-vs-interpreter is now "
                     "redundant with the theorem and kept as a regression test). Tree-builder half (that splitting a character token does not change the "
                     "tree), over the tree-builder model of C02, PARTIAL: per-token split theorems for the 'text' insertion mode "
                     "(C03_tree_text_mode_split_partial: one character token or two give the same answers, states equal up to "
                     "the event log - leading-LF dropping included - and the same abstract DOM, because DomSpec merges adjacent "
                     "text: C03_tree_append_text_merges), for 'in body' with its delegators 'in caption' / 'in template' / 'in cell' "
                     "(C03_tree_body_mode_split_partial: the second reconstruct-the-active-formatting-elements is a no-op, "
                     "frameset-ok is the OR over the pieces; 'in cell' under its shape assumption, carried through reconstruct) "
                     "and for tokens handled by the foreign-content rules in any mode (C03_tree_foreign_split_partial, "
                     "C03_tree_foreign_test_on_chars); the frame property - the event log of the model is write-only, one "
                     "lemma per definition of the model (C03_tree_event_log_is_write_only, C03_tree_token_line_irrelevant); and on "
                     "top of them the statement for whole token lists (C03_tree_split_run_partial: a token list and the same list "
                     "with character tokens cut into pieces end in states with the same core and the same DOM), RESTRICTED by the "
                     "explicit side condition TreeSplitRun.splits_cov that every cut happens in a covered state (foster parenting "
                     "off, current node not a template element, shape assumption of the mode, and mode 'text', or 'in body' / "
                     "'in caption' / 'in template' / 'in cell' with an HTML adjusted current node, or a token handled by the "
                     "foreign rules; or a token of white space only in 'after body' / 'after after body' / 'after after frameset' "
                     "- handed to 'in body' - and in the other modes that cut character tokens into runs, initial .. after head, "
                     "in column group, in frameset, after frameset: C03_tree_early_modes_whitespace_split_partial); the side "
                     "condition has a sound boolean checker and computed examples "
                     "(C03_tree_split_side_condition_checker_sound, C03_tree_split_example, C03_tree_split_example_cell_foreign, "
                     "C03_tree_split_example_whitespace: a document with white space between all its tags). Also the invariance of the "
                     "pending-table-text white-space test (C03_tree_pending_table_text_test) and the flush of a white-space-only "
                     "pending table text with one entry cut in two (C03_tree_table_text_flush_ws_split_partial, "
                     "C03_tree_appends_split; not integrated into the list statement). NOT proved: cuts in the table-text "
                     "queue in general (queueing steps, foster-parenting branch of the flush), of tokens with a non-white-space character in the modes that split off leading white space "
                     "(SplitWhitespace; plan in the header of TreeSplitEarly.v; of that plan only the cut at the end of the first "
                     "run is proved, conditionally on the calls answering Ok and outside the list statement: "
                     "C03_tree_run_boundary_split_partial, C03_tree_loop_queue_decomposition), "
                     "with foster parenting on or a template element as the current node - see the headers of "
                     "coq/Tree/TreeSplit.v and TreeSplitRun.v. Oracle: metamorphic chunking / script-injection "
                     "runs on the implementation (tokens, errors, lines, final tree). FUEL DISCHARGED for the default mode too (TokIR/BulkTerm.v, Inst/InstBulkTerm.v): the `regular` hypotheses of the C03_default_mode_* theorems are replaced by the explicit bound (T+1)(2T+10) on unread input + chunks + injectable text (C03_default_mode_run_is_regular, C03_default_mode_against_reference_total, C03_default_mode_is_reference_up_to_obs_total, C03_default_mode_chunking_independent_obs_total - the last still with the all_done hypotheses on the default-mode logs): a default-mode step is n >= 1 exact-mode steps, ended runs are fuel-monotone, EOF loops run in lock step, and the exact-mode chunked interpreter is the terminating reference one. With the no-panic theorem transported to the default mode the all_done hypotheses go too: C03_default_mode_chunking_independent_total (fresh tokenizer: fuel bounds + no driver pause limit 96 in the logs) and C03_default_mode_chunking_independent_no_pauses (sinks that never pause: fuel bounds only).",
                note=TOK_NOTE, tech="generic Coq suspend/resume proof over regenerated TokIR table + reference/chunked/impl differential + chunking oracle"),
    "C04": dict(cat="proof", ref="DESIGN.md section 5 C04",
                text="PARTIAL proof (tokenizers). Props/C04.v proves on the regenerated html and xml tables: EOF handling reads no "
                     "input and reaches an EOF-emitting arm within |states| steps from every state (acyclic EOF graph), "
                     "process_char_ref's panic arm is unreachable, every arm ends in a transition. TERMINATION of the html tokenizer is "
                     "proved with an explicit fuel bound (TokIR/Termination.v generic in the table, Inst/InstTermination.v on the "
                     "regenerated html table; reference semantics: exact_errors = true, flat queue): with unread(m) = queue + eat() "
                     "look-ahead stash + what a pending character reference may put back + reconsume flag, every continuing step "
                     "decreases (unread, state rank) lexicographically, so run() with fuel >= (T+1)(2T+10), T = unread(m), never runs "
                     "out of fuel (C04_html_tokenizer_run_terminates), nor does end() with its EOF loop "
                     "(C04_html_tokenizer_end_terminates), nor any feed / end() of the whole driver for any chunking, sink answers and "
                     "injected text with fuel computed from the total input length (C04_html_driver_terminates; also "
                     "C03_reference_driver_is_regular_with_enough_fuel) - under decidable conditions re-decided on every run "
                     "(C04_html_arms_make_progress: every arm that may end without consuming goes to a state of smaller rank, rank "
                     "computed from the table; EOF arms neither read nor emit tags and stop within 4 arms) and an invariant true of "
                     "every fresh tokenizer. The bound is quadratic because the entity table is abstract. NO PANIC SITE is reached "
                     "(TokIR/NoPanic.v, Inst/InstNoPanic.v, C04_html_tokenizer_total): from a fresh tokenizer in a well-kinded state, "
                     "with a sink whose raw-text switches are well-kinded, for every input, chunking, injected text and sink script, "
                     "with fuel above the bound, the driver's log is answer-of-end() :: feed entries where every feed entry is done / "
                     "script pause / encoding indicator or the driver MODEL's own limit of 50 pauses per chunk (96), and end() answers "
                     "done or site 4 (assert!(matches!(run, Done)) in Tokenizer::end: in the model it needs a tag completed from put-back "
                     "character-reference input with a pausing answer; with a sink that never answers Script/EncodingIndicator it is "
                     "excluded and the whole log is 'done': C04_html_tokenizer_total_no_pauses); sites 99 (fall-through), 1 "
                     "(process_char_ref), 3, 5 and 98/97 never occur - through the invariant 'the state is well-kinded and "
                     "process_char_ref has an arm while a reference is pending' and the decidable conditions state_ok / noeofb on the "
                     "regenerated table. The XML tokenizer interpreter terminates with the same bound (TokIR/TermX.v: the flavour-specific "
                     "lemmas re-proved - discard_char through get_char, raw next() in eat(), xml's reference first state, tag-emitting "
                     "EOF arms, an EOF loop that continues after Script; Inst/InstTermX.v on the regenerated xml table: "
                     "C04_xml_tokenizer_run_terminates / _end_terminates / C04_xml_driver_terminates) and is total too "
                     "(TokIR/NoPanicX.v, C04_xml_tokenizer_total: xml's tag emission never switches the state and end() has no assert "
                     "sites, so end() always answers done and every feed entry is done / script pause / encoding indicator / the "
                     "driver model's limit 96; no condition on the sink). The DEFAULT mode over the chunked queue (exact_errors = false, bulk reads, SIMD scan) never runs out of fuel either "
                     "with the same bound, both tokenizers (TokIR/BulkTerm.v: step counting through BulkSim's simulation + QueueSim; "
                     "C03_default_mode_run_is_regular, C15_default_mode_run_is_regular); and NO PANIC SITE is reached there either (Inst/InstTotalDefault.v: a regular default-mode run has the log of the reference run; C04_html_tokenizer_total_default_mode(+_no_pauses), C04_xml_tokenizer_total_default_mode(+_no_pauses)) - the real default configuration of both tokenizers (exact_errors = false, BufferQueue chunks, bulk reads, SIMD scan) terminates and never panics, with the same caveats (driver pause limit 96; html end() assert site 4 unless the sink never pauses; for site 4 the exact condition - a character put back by the reference flush or stashed by eat() is '>', i.e. an entity key containing '>' - is decided false on the regenerated step table and the pinned entity table as reflective facts, C04_html_site4_condition_is_false_on_the_pinned_tables, but the invariant proof that end()'s final run reads nothing else is NOT done, so site 4 stays a stated caveat). "
                     "ALL INPUT CONSUMED is a theorem for the html tokenizer (TokIR/NoPanic.v feed_consumes / feed_loop_consumes; "
                     "C04_html_feed_done_means_all_input_consumed, C04_html_feed_loop_done_means_all_input_consumed): whenever feed() "
                     "- or the driver's feed loop with script pauses and injected text - answers Done, the input queue is empty (what "
                     "the tokenizer holds back lives in its own buffers); reference semantics, any machine satisfying the two "
                     "invariants, fuel above the bound; and WITHOUT any invariant or fuel hypothesis, for BOTH tokenizers "
                     "(TokIR/Consumed.v, Inst/InstConsumed.v: C04_html_feed_done_means_all_input_consumed_unconditional, "
                     "C04_html_feed_loop_..._unconditional, C04_xml_feed_done_means_all_input_consumed, C04_xml_feed_loop_done_...; "
                     "only table condition: no step arm ends in the Eof terminator, decided on both regenerated tables). "
                     "ONE EOF, LAST: whenever Tokenizer::end answers normally the newest token delivered is the EOF token "
                     "(C04_html_end_delivers_eof_last, C04_xml_end_delivers_eof_last: any machine, fuel and sink; EOF arms never read - "
                     "eof_ok on the regenerated tables - so they answer Done only through the Eof terminator). EXACTLY ONE EOF "
                     "(TokIR/SingleEof.v: a frame lemma for every primitive of the interpreter - get_char, bulk read, eat, every "
                     "command, emit_current_tag, the character-reference sub-tokenizer - shows that only the Eof terminator changes "
                     "the number of EOF tokens delivered): feed() never delivers one (C04_html/xml_feed_delivers_no_eof), an end() "
                     "that returns delivers exactly one (C04_html/xml_end_delivers_exactly_one_eof), and the whole driver from a "
                     "fresh tokenizer - any chunking, pauses, injected text, sink, fuel, start state - ends with exactly one "
                     "(C04_html/xml_driver_exactly_one_eof); the count of EOF tokens is a function of the observation of the default-mode "
                     "simulation, so the same holds in the REAL default configuration (exact_errors = false, chunked queue, bulk "
                     "reads, SIMD: C04_html/xml_default_mode_exactly_one_eof, Inst/InstEofDefault.v). All four clauses of the property are thereby theorems about the "
                     "tokenizer interpreters in reference semantics. Tree builders, stack depth and "
                     "time are covered by the harness only (panic/abort/hang watch, queue-empty and single-EOF oracles, deep nesting).",
                note=TOK_NOTE, tech="Coq proofs over the tokenizer interpreters on the regenerated tables: termination with explicit fuel bound (potential function, rank check), no-panic invariant, all-input-consumed and exactly-one-EOF (frame lemmas per interpreter primitive, no hypotheses), transported to default mode through the BulkSim simulation; reflective Coq checks (EOF rank, char-ref states, noeofb, eof_ok) + totality oracle incl. pathological inputs"),
    "C08": dict(cat="proof", ref="DESIGN.md section 5 C08",
                text="PARTIAL proof. Props/C08.v proves on the regenerated tables that every bulk-read state's character set contains "
                     "every character the slow path treats specially and that its default arm is the per-character form of the run "
                     "arm (with a proved soundness lemma for the arm-chain check), and that the SIMD helper's hard-wired sets agree "
                     "with the scalar path. For exact_errors whole runs are proved too, for BOTH tokenizers (TokIR/BulkSim.v, one "
                     "theory instantiated on the regenerated html and xml tables: C08_exact_errors_changes_only_errors_and_text_cuts, "
                     "C08_xml_exact_errors_changes_only_errors_and_text_cuts): the chunked-queue interpreter with exact_errors = false "
                     "(bulk reads, SIMD scan, no current_char update, no bad-character errors) and the same interpreter with "
                     "exact_errors = true, from the same machine, for every list of chunks, sink script, injected text: if the "
                     "default-mode run ends without fuel exhaustion, the exact-mode run with any large enough fuel reports the same "
                     "results, unread input, consumed count, configuration up to current_char, and the same tokens up to dropping "
                     "parse errors and merging adjacent character tokens (the merged token keeps the line of its last member, every "
                     "other token keeps its line) - a stuttering simulation (one bulk step on a run r = |r| single-character steps) "
                     "under two decidable table conditions decided on the regenerated table (C08_bulk_table_conditions: sets contain "
                     "CR, LF, NUL and every character the per-character arm singles out, the default per-character arm is the run "
                     "arm for one character up to Error commands, also w.r.t. the SIMD stop set, which lies inside the first-character "
                     "guard and counts only LF - html only; for xml NUL is in every set and LF need not stop a run because lines are not "
                     "counted by get_preprocessed_char; arms reconsume only after reading; EOF arms do not read; "
                     "C08_xml_bulk_table_conditions: no condition fails on the xml table). Still tested only: "
                     "the other options (discard_bom, drop_doctype, profile), the tree-builder level, and Rust "
                     "vs interpreter: metamorphic option oracle on the implementation (tokens and trees). The `regular` (no fuel exhaustion) hypothesis of the whole-run theorems is discharged for both tokenizers by the explicit fuel bound of C04 (C08_exact_errors_changes_only_errors_and_text_cuts_total, C08_xml_..._total; TokIR/BulkTerm.v). Also for the flat queue with unit runs (C08_exact_errors_flat_unit_runs_total).",
                note=TOK_NOTE, tech="reflective Coq checks on char sets + Coq stuttering simulation fast path vs slow path (whole driver, html and xml) + option metamorphic oracle"),
    "C09": dict(cat="proof", ref="DESIGN.md section 5 C09",
                text="PARTIAL proof. Props/C09.v proves the law itself for ALL inputs on the interpreter over the regenerated html "
                     "table (TokIR/LineInv.v, generic in the table; Inst/InstLine.v): reference semantics (html flavour, exact_errors = "
                     "true, flat queue, whole input fed at once then end(), any start state, any sink answers incl. script / raw-text "
                     "switches), every delivered token (parse errors and EOF included) carries line = 1 + breaks(first k characters of "
                     "the input), k the interpreter's ghost consumed-counter, breaks = LF + lone CR + CR LF once; a CR that is the last "
                     "consumed character is counted and the LF after it is not counted again. Proved through a step-boundary invariant "
                     "(consumed prefix / unread queue / eat() look-ahead stash / raw-consumed character-reference buffer that may be "
                     "put back / ignore_lf / reconsume / temp_buf discipline) kept by every step, under decidable table conditions "
                     "instantiated on the regenerated table on every run (start_ok: peek + raw discard only of characters statically "
                     "not CR/LF, DiscardWs only on a peeked character, eat patterns free of line breaks, reconsume only into get_char "
                     "states, eat states entered with empty temp_buf, tags emitted with empty temp_buf; eof_ok: EOF arms neither read "
                     "nor discard) and the hypothesis that entity-table keys contain no CR/LF, discharged for the pinned entity table. "
                     "Earlier reflective facts kept (raw_discard_safe, bulk sets stop at line breaks, SIMD sets consistent). "
                     "The law is also proved for the REAL default configuration (exact_errors = false, chunked BufferQueue, bulk reads, "
                     "SIMD scan; Inst/InstLineDefault.v): C09_default_mode_line_numbers_match_source (every entry of the observation of "
                     "the default-mode output - character runs merged, errors erased - for all inputs, fuel >= html_fuel |input|), "
                     "C09_default_mode_line_numbers_of_tags_comments_doctypes_eof (literally every delivered token that is neither "
                     "characters nor an error) and C09_default_mode_line_numbers_match_source_any_chunking (any non-empty chunking, "
                     "sink that never pauses), by transport through the default-mode simulation of C03/C08 (TokIR/BulkSim.v) with "
                     "the C04 fuel bound. Still _partial / tested: the line of the individual pieces of a character run and of the "
                     "error tokens in default mode (only the merged run is covered), chunked feeding with a pausing sink, "
                     "that the EOF token has k = |input| (needs termination), the Rust code vs the "
                     "interpreter (token-stream correspondence incl. line and consumed count), and the tree builder forwarding the "
                     "number to set_current_line. Per-token line numbers are still checked on the implementation against "
                     "1 + breaks(input consumed).",
                note=TOK_NOTE, tech="Coq invariant proof over the tokenizer interpreter (all inputs) under reflective table checks on the regenerated html table + per-token line oracle on the implementation"),
    "C15": dict(cat="proof", ref="DESIGN.md section 5 C15",
                text="PARTIAL proof. Props/C15.v proves on the regenerated xml table: bulk sets contain CR and NUL and every "
                     "singled-out character; reads come first; and chunk independence of the tokenizer's reference semantics (flat "
                     "queue, exact_errors = true) by the same generic theorem as C03; the run relation's side condition (reconsume flag "
                     "clear when a state starting with eat() is entered) is proved to be an invariant of the interpreter on the "
                     "regenerated table (TokIR/ChunkInv.v: kept by every step, by appended input and injected script text, true of "
                     "every initial machine), so the relation is the fuelled executable loop on every reachable machine. In exact mode the chunked-queue "
                     "interpreter equals the reference one token for token (TokIR/QueueSim.v), and the executable driver "
                     "(feed loops, script injection, end()) is chunk-independent (TokIR/ChunkExec.v). The tree-builder half: over "
                     "the token-level model of the XML tree builder (XmlNs/XTreeModel.v, tied to the code by C16's correspondence) the "
                     "document built, and every state component except the parse-error count, do not depend on how character data is "
                     "cut into character tokens (XmlNs/XSplit.v, C15_tree_builder_independent_of_character_token_splitting). "
                     "Also proved (TokIR/BulkSim.v, one theory for both flavours; its two table conditions are decided on the "
                     "regenerated xml table in Inst/InstBulk.v and none fails): for exact_errors = false - the default mode - the "
                     "chunked-queue interpreter with bulk reads (Data and the three attribute-value states take a run up to the end "
                     "of the first buffer, stale current_char, no bad-character errors) is in a stuttering simulation with the "
                     "reference interpreter, whole driver included (feed, BOM, Script pauses with injected text, end() with its EOF "
                     "loop going on after a Script answer): if the default-mode run ends without fuel exhaustion, the reference run "
                     "with any large enough fuel reports the same results, unread input, consumed count, configuration up to "
                     "current_char, and the same tokens up to dropping parse errors and merging adjacent character tokens "
                     "(C15_default_mode_against_reference, C15_default_mode_is_reference_up_to_obs); composed with the chunk "
                     "theorem, the observable token stream and the end() result of the default-mode interpreter do not depend on "
                     "the chunking (C15_default_mode_chunking_independent_obs, from every machine satisfying the invariant J). "
                     "The hypothesis 'no fuel exhaustion' stays. Still "
                     "_partial: the Rust code "
                     "vs the interpreter is tied differentially. Chunking / exact_errors / discard_bom independence of the real "
                     "parser and the normalisation law tree(x) = tree(normalise(x)) are checked metamorphically on the "
                     "implementation (tokens and trees); reference vs chunked interpreter vs Rust code tied differentially. The `regular` hypotheses of the xml default-mode theorems are discharged by the explicit fuel bound of C04_xml_tokenizer_run_terminates (C15_default_mode_run_is_regular, C15_default_mode_against_reference_total, C15_default_mode_is_reference_up_to_obs_total; TokIR/BulkTerm.v over TermX.v). Default-mode chunk independence from a fresh xml tokenizer without regularity hypotheses: C15_default_mode_chunking_independent_obs_total (fuel bounds + no 96) and C15_default_mode_chunking_independent_no_pauses.",
                note=TOK_NOTE, tech="generic Coq suspend/resume proof + reflective checks on regenerated xml table + chunking/option/normalisation oracles"),
}

PENDING_REASON = ("not yet registered in this round: the check is being built (see DESIGN.md section 9 staging); the technique applies, "
                  "the property is claimed only once its check runs end to end")


def main():
    props = [json.loads(l) for l in open(os.path.join(ROOT, "properties.jsonl"))]
    extra = os.path.join(ROOT, "lib", "claims_extra.json")
    claims = dict(CLAIMS)
    if os.path.exists(extra):
        claims.update(json.load(open(extra)))
    checks, na = [], []
    for p in props:
        pid = p["id"]
        c = claims.get(pid)
        if c and os.path.exists(os.path.join(ROOT, "lib", "checks", pid.lower() + ".py")):
            checks.append({
                "property_id": pid, "quick_cmd": "./check %s --tier quick" % pid, "thorough_cmd": "./check %s --tier thorough" % pid,
                "evidence_file": "evidence/%s.json" % pid, "replay_cmd_template": "./check %s --replay {path}" % pid,
                "engine": "coq-proof+correspondence",
                "level_claimed": {"category": c["cat"], "text": c["text"], "design_ref": c["ref"]},
                "level_note": c["note"], "technique": c["tech"]})
        else:
            na.append({"property_id": pid, "reason": PENDING_REASON})
    m = {"version": 1, "setup_cmd": "./setup.sh",
         "hooks": {"guard": "html5ever_verif",
                   "enable": "RUSTFLAGS=\"--cfg html5ever_verif\" (no hook exists: every observation goes through public API)",
                   "baseline_off_cmd": "cd /repo && cargo test --workspace --no-fail-fast --offline",
                   "source_commits": [], "add_only": True},
         "engines": [{"name": "coq-proof+correspondence", "path": "coq/ gen/ harness/ ocaml/ lib/",
                      "serves_properties": [c["property_id"] for c in checks],
                      "kind_free_text": "Coq 8.16 theorems over executable Gallina models; models regenerated from source (gen/) or tied by "
                                        "differential correspondence (extracted OCaml vs Rust harness); implementation oracles for failing inputs"}],
         "checks": checks, "not_applicable": na,
         "notes": "Single entry ./check Cnn --tier quick|thorough [--replay f]; known findings in known_findings.json; "
                  "fix: commits in /repo are listed there as fixed entries."}
    json.dump(m, open(os.path.join(ROOT, "MANIFEST.json"), "w"), indent=1)
    try:
        subprocess.run(["python3-vt", "-c", "import json,jsonschema;jsonschema.validate(json.load(open('%s/MANIFEST.json')),"
                        "json.load(open('/root/.vp/MANIFEST.schema.json')));print('manifest valid: %d checks')" % (ROOT, len(checks))], check=True)
    except Exception as e:
        print("validation skipped/failed:", e)


if __name__ == "__main__":
    main()
