"""Shared machinery for the tokenizer-level checks (C01 C03 C04 C08 C09 C15):
TokIR regeneration, model/implementation runners, input grammar, canonicalisation."""
import json
import os
import re
import subprocess
import sys

import vcommon
from vcommon import ROOT, BUILD

ENT_FILE = os.path.join(BUILD, "entities.txt")


# ----------------------------------------------------------------------------- regeneration / builds
def regen_tables(ck):
    """re-translate the tokenizers of /repo into coq/Gen/Gen*Tok.v; returns False (and records a broken tie)
    when the translator cannot parse the source"""
    rc, out = vcommon.sh([sys.executable, os.path.join(ROOT, "gen", "rs2ir.py")], timeout=120)
    if rc != 0:
        ck.broken.append("translator gen/rs2ir.py failed on /repo's tokenizer source (tie broken): " + out.strip()[-400:])
        return False
    try:
        ck.notes.append("tokir: " + out.strip().splitlines()[-1])
    except IndexError:
        pass
    return True


def build_all(ck):
    """harness `tok`, entity dump, extracted interpreter"""
    bindir = ck.cargo_build(["tok"])
    rc, out = vcommon.sh([os.path.join(bindir, "tok"), "dump-entities"], timeout=60)
    vcommon.write_if_changed(ENT_FILE, out)
    ok, log = ck.coq_make(["Extract/ExtractTok.vo"])
    if not ok:
        ck.broken.append("TokIR interpreter / generated tables do not compile: " + "\n".join(log.strip().splitlines()[-8:]))
        return bindir, None
    model = ck.ocaml_build("tok_model", "tok_model.ml", "tok_driver.ml")
    return bindir, model


def run_impl(ck, bindir, cases):
    return ck.run_lines(os.path.join(bindir, "tok"), [], cases)


def run_model(ck, model, cases):
    return ck.run_lines(model, [ENT_FILE], cases)


# ----------------------------------------------------------------------------- cases
def enc(s):
    return " ".join(str(ord(c)) for c in s)


def mk_case(fl, text_chunks, exact=False, bom=True, foreign=False, state="Data", last="", resp="", inject=""):
    return "%s|%d %d %d|%s|%s|%s|%s|%s" % (fl, exact, bom, foreign, state, enc(last), resp, enc(inject),
                                           ";".join(enc(c) for c in text_chunks))


def case_text(case):
    f = case.split("|")
    return ["".join(chr(int(x)) for x in ch.split()) for ch in f[6].split(";")]


def describe(case):
    f = case.split("|")
    return {"flavour": "html" if f[0] == "h" else "xml", "exact_errors/discard_bom/foreign": f[1], "state": f[2],
            "last_start_tag": "".join(chr(int(x)) for x in f[3].split()), "sink_responses": f[4],
            "inject": "".join(chr(int(x)) for x in f[5].split()), "chunks": case_text(case)}


def rechunk(case, chunks):
    f = case.split("|")
    f[6] = ";".join(enc(c) for c in chunks)
    return "|".join(f)


def with_flags(case, exact=None, bom=None, foreign=None):
    f = case.split("|")
    e, b, fo = f[1].split()
    if exact is not None:
        e = str(int(exact))
    if bom is not None:
        b = str(int(bom))
    if foreign is not None:
        fo = str(int(foreign))
    f[1] = "%s %s %s" % (e, b, fo)
    return "|".join(f)


NAMES = ["a", "b", "p", "div", "span", "script", "style", "title", "textarea", "plaintext", "svg", "math", "xmp",
         "table", "td", "select", "template", "meta", "br", "img", "x-y", "A", "DiV", "sCrIpT"]
ATTRS = ["id", "class", "href", "x", "X", "a:b", "xmlns", "xmlns:p", "p:x", "data-x", "checked", "id"]
ENTS = ["amp", "lt", "gt", "quot", "apos", "nbsp", "not", "notin", "noti", "copy", "AElig", "ampx", "am", "x", "NotEqualTilde",
        "#65", "#x41", "#X41", "#0", "#x80", "#x9f", "#xD800", "#x110000", "#99999999999", "#", "#x", "#xg", "#6x", "#x4g"]
# numeric references at the edges of every range the numeric rule distinguishes, in BOTH bases (decimal and hex take
# different multiply/add paths): 0, C0/C1 controls, surrogates, noncharacters, the Unicode limit, the u32 limit
_NUM_EDGES = [0, 1, 8, 9, 0xB, 0xC, 0xD, 0x1F, 0x20, 0x7E, 0x7F, 0x80, 0x9F, 0xA0, 0xD7FF, 0xD800, 0xDFFF, 0xE000, 0xFDCF, 0xFDD0,
              0xFDEF, 0xFDF0, 0xFFFD, 0xFFFE, 0xFFFF, 0x10000, 0x1FFFE, 0x10FFFD, 0x10FFFE, 0x10FFFF, 0x110000, 0x110001, 0x110007,
              0x110008, 0x11000F, 0x110010, 0x1FFFFF, 0x7FFFFFFF, 0x80000000, 0xFFFFFFFF, 0x100000000, 0x100000001, 0x10FFFF0,
              0x10FFFFF, 10 ** 12]
NUM_ENTS = ["#%d" % n for n in _NUM_EDGES] + ["#x%X" % n for n in _NUM_EDGES] + ["#0000%d" % n for n in _NUM_EDGES[20:34]]
# characters next to the boundaries of the ASCII classes the parsers test, and characters that Rust's Unicode-aware
# predicates (char::is_whitespace / is_alphanumeric / is_alphabetic / is_numeric / to_lowercase / str::trim) class
# differently from the ASCII ones the standard asks for
EDGE_WS = ["\x0b", "\x1c", "\x1d", "\x1e", "\x1f", "\x85", "\xa0", "\u1680", "\u2000", "\u2028", "\u2029", "\u202f", "\u205f", "\u3000"]
EDGE_ALNUM = ["\xe9", "\xdf", "\u0130", "\u0131", "\u212a", "\u017f", "\u01c5", "\u03a9", "\xb5", "\u0663", "\uff11", "\u2167",
              "\xb2", "\xbd", "\u0660", "\u00aa"]
EDGE_ASCII = ["@", "[", "`", "{", "/", ":", "G", "g", "Z", "z"]
EDGE = EDGE_WS + EDGE_ALNUM + EDGE_ASCII
WS = [" ", "\t", "\n", "\r", "\r\n", "\x0c", "  ", "\n\n", "\r\r", "\n\r"]
TEXTCH = ["a", "b", "z", "A", "0", "9", " ", "\n", "\r", "\r\n", "\t", "\x0c", "\0", "<", ">", "&", "\"", "'", "=", "/",
          "!", "-", "?", ";", "#", "[", "]", "`", ":", "x", "X", "é", " ", "﻿", "�", "\U0001f600",
          "\x01", "\x7f", "\u0080", "﷐", "￿", "]]>", "--", "<!--", "-->", "<![CDATA[", "]]"]


def g_ws(r, opt=True):
    if opt and r.random() < 0.4:
        return ""
    return r.choice(WS)


def g_ref(r):
    e = r.choice(ENTS) if r.random() < 0.8 else r.choice(NUM_ENTS)
    fol = ""
    if r.random() < 0.4:
        fol = r.choice(["", "=", "x", "1", " ", "\r", "\n", "<", "&"]) if r.random() < 0.7 else r.choice(EDGE)
    return "&" + e + (";" if r.random() < 0.6 else "") + fol


def g_text(r, n=6):
    out = []
    for _ in range(r.randint(0, n)):
        k = r.random()
        if k < 0.12:
            out.append(g_ref(r))
        elif k < 0.17:
            out.append(r.choice(EDGE))
        else:
            out.append(r.choice(TEXTCH))
    return "".join(out)


def g_value(r):
    q = r.choice(["", "\"", "'"])
    v = g_text(r, 4)
    if q == "":
        v = re.sub(r"[ \t\n\r\x0c>]", "", v) or "v"
    else:
        v = v.replace(q, "")
    return q + v + (q if r.random() < 0.9 else "")


def g_tag(r, xml=False):
    name = r.choice(NAMES)
    if r.random() < 0.1:
        name = name + r.choice(["\0", "é", ":", "<", "="])
    kind = r.random()
    if kind < 0.3:
        return "</" + name + g_ws(r) + (g_attr(r) if r.random() < 0.1 else "") + (">" if r.random() < 0.95 else "")
    s = "<" + name
    for _ in range(r.choice([0, 0, 1, 1, 2, 3])):
        s += g_ws(r, False) + g_attr(r)
    s += g_ws(r)
    if r.random() < 0.15:
        s += "/"
    if r.random() < 0.95:
        s += ">"
    return s


def g_attr(r):
    a = r.choice(ATTRS)
    if r.random() < 0.1:
        a += r.choice(["\0", "\"", "'", "<", "é"])
    k = r.random()
    if k < 0.2:
        return a
    return a + g_ws(r) + "=" + g_ws(r) + g_value(r)


def g_comment(r):
    k = r.random()
    body = g_text(r, 4)
    if k < 0.6:
        return "<!--" + body + r.choice(["-->", "--!>", "->", "--", "", "-- >", "--->"])
    if k < 0.8:
        return "<!" + body + ">"
    return "<?" + body + r.choice([">", "?>", ""])


def g_doctype(r):
    s = "<!" + r.choice(["DOCTYPE", "doctype", "DocType"]) + g_ws(r) + r.choice(["html", "HTML", "a", "", "\0x", "svg:svg"])
    k = r.random()
    if k < 0.5:
        kw = r.choice(["PUBLIC", "public", "SYSTEM", "system", "pUbLiC", "publi", "sys"])
        s += g_ws(r, False) + kw + g_ws(r) + g_dq(r)
        if r.random() < 0.5:
            s += g_ws(r) + g_dq(r)
    s += g_ws(r) + r.choice([">", ">", ">", "", "x>", "\0>"])
    return s


def g_dq(r):
    q = r.choice(["\"", "'"])
    return q + g_text(r, 3).replace(q, "").replace(">", "") + (q if r.random() < 0.9 else "")


def g_cdata(r):
    return "<![CDATA[" + g_text(r, 4) + r.choice(["]]>", "]]", "]>", "", "]]]>", "]] >"])


def g_script(r):
    n = r.choice(["script", "style", "title", "textarea", "xmp", "plaintext"])
    inner = g_text(r, 5) + r.choice(["", "<!--", "<!-- <script>", "</scrip", "</" + n + "x", "<" + n + ">", "-->", "<!--<script></script>-->"]) + g_text(r, 3)
    return "<" + n + ">" + inner + r.choice(["</" + n + ">", "</" + n.upper() + " >", "</" + n + "/>", "", "</" + n + " a=b>"])


def g_pi(r):
    return "<?" + r.choice(["xml", "a", "", " "]) + g_ws(r) + g_text(r, 3) + r.choice(["?>", "?", ">", "", "??>"])


def gen_html(r, n=None):
    n = n or r.randint(1, 7)
    parts = []
    for _ in range(n):
        k = r.random()
        if k < 0.3:
            parts.append(g_text(r))
        elif k < 0.6:
            parts.append(g_tag(r))
        elif k < 0.7:
            parts.append(g_comment(r))
        elif k < 0.8:
            parts.append(g_doctype(r))
        elif k < 0.88:
            parts.append(g_script(r))
        elif k < 0.94:
            parts.append(g_cdata(r))
        else:
            parts.append(g_ref(r))
    s = "".join(parts)
    if r.random() < 0.05:
        s = "﻿" + s
    return s


def gen_xml(r, n=None):
    n = n or r.randint(1, 7)
    parts = []
    for _ in range(n):
        k = r.random()
        if k < 0.3:
            parts.append(g_text(r))
        elif k < 0.6:
            parts.append(g_tag(r, True))
        elif k < 0.68:
            parts.append(g_comment(r))
        elif k < 0.76:
            parts.append(g_doctype(r))
        elif k < 0.84:
            parts.append(g_pi(r))
        elif k < 0.92:
            parts.append(g_cdata(r))
        elif k < 0.96:
            parts.append("</>")
        else:
            parts.append(g_ref(r))
    s = "".join(parts)
    if r.random() < 0.05:
        s = "﻿" + s
    return s


def gen_junk(r):
    return "".join(r.choice(TEXTCH + ["<", "<", "</", "&", "&#", "<!", "<!-", "<!d", "<?"]) for _ in range(r.randint(0, 12)))


def chunkings(r, s, k=3):
    """a few chunkings of s: whole, one-char, random, random with empties"""
    out = [[s]]
    if len(s) > 1:
        out.append(list(s))
        for _ in range(k):
            cuts = sorted(r.sample(range(0, len(s) + 1), min(len(s) + 1, r.randint(1, 4))))
            pieces = []
            prev = 0
            for c in cuts:
                pieces.append(s[prev:c]); prev = c
            pieces.append(s[prev:])
            if r.random() < 0.7:
                pieces = [p for p in pieces if p] or [""]
            out.append(pieces)
    return out


def all_two_way(s):
    return [[s[:i], s[i:]] for i in range(0, len(s) + 1)]


HTML_STATES = ["Data", "Data", "Data", "Data", "Plaintext", "RawData(Rcdata)", "RawData(Rawtext)", "RawData(ScriptData)",
               "RawData(ScriptDataEscaped(Escaped))", "RawData(ScriptDataEscaped(DoubleEscaped))", "CdataSection",
               "TagOpen", "BogusComment", "Comment", "AttributeValue(DoubleQuoted)", "BeforeAttributeName", "Doctype",
               "MarkupDeclarationOpen", "AfterDoctypeName"]
RESPS = ["", "", "script=S", "script=S,title=Rrcdata,textarea=Rrcdata,style=Rrawtext,xmp=Rrawtext,plaintext=P,meta=E",
         "script=Rscript,style=Rrawtext,title=Rrcdata,plaintext=P", "a=Rescaped,b=Rdblescaped", "meta=E,p=P"]


def gen_ref_context(r, xml=False):
    """a character reference in each of its contexts (data, the three attribute-value forms) followed by a character
    from the class-boundary pools: the rules that end a reference ('=', ASCII alphanumeric, ';', white space) are
    where ASCII and Unicode predicates part"""
    ref = g_ref(r)
    if r.random() < 0.5:
        ref = "&" + r.choice(ENTS[:12]) + r.choice(EDGE + ["=", ";", "a", "Z", "5", " ", "\n", "&", "<", "\"", "'", ">", ""])
    pre = r.choice(["", "x", "\xe9", " "])
    k = r.random()
    if k < 0.25:
        return "<p>" + pre + ref + r.choice(["", "y", "</p>"])
    q = r.choice(["\"", "'", ""])
    body = pre.strip() + ref + r.choice(["", "z"])
    if q == "":
        body = re.sub(r"[ \t\n\r\x0c>]", "", body) or "v"
    else:
        body = body.replace(q, "")
    tail = r.choice([">", "/>", " c=d>", ">t"])
    return "<a b=" + q + body + q + tail


def gen_case(r, fl=None):
    fl = fl or ("h" if r.random() < 0.6 else "x")
    k = r.random()
    if k < 0.06:
        s = gen_ref_context(r, fl != "h")
    else:
        s = (gen_html(r) if fl == "h" else gen_xml(r)) if k < 0.85 else gen_junk(r)
    if len(s) > 1 and r.random() < 0.15:
        # end of input in the middle of a construct (EOF handling of every state, also with a scripted sink)
        s = s[:r.randrange(1, len(s))]
    chunks = r.choice(chunkings(r, s, 2))
    if fl == "h":
        st = r.choice(HTML_STATES)
        last = r.choice(["", "", "script", "title", "a", "style", "xmp"]) if st.startswith("RawData") or r.random() < 0.2 else ""
        resp = r.choice(RESPS)
        inject = r.choice(["", "", "x", "<b>", "\nq", "&amp", "﻿z"]) if "=S" in resp else ""
        return mk_case("h", chunks, exact=r.random() < 0.3, bom=r.random() < 0.8, foreign=r.random() < 0.3, state=st,
                       last=last, resp=resp, inject=inject)
    st = r.choice(["Data", "Data", "Data", "Data", "Cdata", "Comment"])
    resp = r.choice(["", "", "script=S"])
    return mk_case("x", chunks, exact=r.random() < 0.3, bom=r.random() < 0.8, state=st, resp=resp,
                   inject=r.choice(["", "y", "<c/>"]) if resp else "")


# ----------------------------------------------------------------------------- canonical observation
def parse_out(line):
    """-> (tokens [(text, line)], log [str]) ; text is the token without @line"""
    if " # " in line:
        toks, _, log = line.rpartition(" # ")
    elif line.startswith("# "):
        toks, log = "", line[2:]
    elif line.endswith(" #"):
        toks, log = line[:-2], ""
    else:
        return None, [line]
    out = []
    for t in toks.split(" ; "):
        t = t.strip()
        if not t:
            continue
        body, _, ln = t.rpartition("@")
        out.append((body, int(ln) if ln.isdigit() else -1))
    return out, log.split()


def merge(tokens, keep_errors=True, keep_lines=True):
    """adjacent character tokens concatenated (line of the last piece), empty ones dropped"""
    res = []
    for body, ln in tokens:
        if body == "!" and not keep_errors:
            continue
        if body.startswith("S "):
            txt = body[2:]
            if txt == "_":
                continue
            if res and res[-1][0].startswith("S "):
                res[-1] = (res[-1][0] + "." + txt, ln)
                continue
        res.append((body, ln))
    if not keep_lines:
        res = [(b, 0) for b, _ in res]
    return res


def obs(line, keep_errors=True, keep_lines=True, keep_log=True):
    toks, log = parse_out(line)
    if toks is None:
        return ("RAW", line)
    return (tuple(merge(toks, keep_errors, keep_lines)), tuple(log) if keep_log else ())


def error_positions_stripped(line):
    return obs(line, keep_errors=False)


def count_eof(line):
    toks, log = parse_out(line)
    if toks is None:
        return -1, False
    n = sum(1 for b, _ in toks if b == "E")
    last_ok = bool(toks) and toks[-1][0] == "E"
    return n, last_ok


def breaks(s):
    """LF, CR, CRLF counted once"""
    n = 0
    i = 0
    while i < len(s):
        if s[i] == "\r":
            n += 1
            if i + 1 < len(s) and s[i + 1] == "\n":
                i += 1
        elif s[i] == "\n":
            n += 1
        i += 1
    return n
