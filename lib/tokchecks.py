"""Oracles and glue for the tokenizer-family properties C01 C03 C04 C08 C09 C15."""
import json
import os
import re

import toklib as T
import vcommon
from vcommon import ROOT, BUILD

TRUSTED = [
    "Coq 8.16.1 kernel (coqc; vm_compute for the reflective checks on the regenerated tables)",
    "gen/rs2ir.py (fail-closed translator of step()/eof_step() into TokIR; cross-validated every run by running "
    "the interpreter on its output against the real tokenizers)",
    "coq/TokIR/Interp.v: hand-written semantics of the go!/shorthand! DSL, get_char/pop_except_from/eat/char-ref "
    "sub-tokenizer/feed/end (tied by the correspondence run, i.e. by testing)",
    "Extraction (ExtrOcamlBasic only) + ocamlopt 4.13.1; ocaml/tok_driver.ml; harness/src/bin/tok.rs, tree.rs",
    "coq-record-update (RecordSet) for record updates: no axioms",
    "lib/toklib.py generators and canonicaliser (adjacent character tokens merged)",
]


def witness_lists(ck):
    """compile Inst/WitnessTok.v and return {check name: offending states string}"""
    try:
        os.remove(os.path.join(vcommon.COQ, "Inst", "WitnessTok.vo"))
    except OSError:
        pass
    ok, out = ck.coq_make(["Inst/WitnessTok.vo"])
    res = {}
    if not ok:
        ck.broken.append("Inst/WitnessTok.v does not compile: " + "\n".join(out.strip().splitlines()[-6:]))
        return res
    flat = re.sub(r"\s+", " ", out)
    for m in re.finditer(r'= \("(\w+)", (.*?)\) : ', flat):
        res[m.group(1)] = m.group(2).strip()
    return res


def setup(ck, props_targets=()):
    """regenerate tables, build proofs + harness + model; returns (bindir, model) (model None when Coq side broke)"""
    ok_tr = T.regen_tables(ck)
    proofs_ok = ck.coq_props(extra_targets=list(props_targets))
    if not proofs_ok:
        w = witness_lists(ck)
        bad = {k: v for k, v in w.items() if v not in ("[]", "true")}
        if bad:
            ck.notes.append("reflective checks failing on the regenerated tables: %s" % json.dumps(bad))
            ck.cov["failing_cells"] = bad
    bindir, model = T.build_all(ck)
    ck.cargo_build(["tree"])
    return bindir, model


def correspondence(ck, bindir, model, cases, label="tokenizer"):
    """model vs implementation, raw line equality; returns #disagreements"""
    if model is None:
        return -1
    a = T.run_impl(ck, bindir, cases)
    b = T.run_model(ck, model, cases)
    bad = 0
    for c, x, y in zip(cases, a, b):
        if x != y:
            bad += 1
            if bad <= 3:
                ck.broken.append("correspondence TokIR interpreter vs %s: %s\n impl : %s\n model: %s" % (
                    label, json.dumps(T.describe(c), ensure_ascii=True), x[:600], y[:600]))
    ck.cov["correspondence_cases"] = ck.cov.get("correspondence_cases", 0) + len(cases)
    ck.cov["correspondence_disagreements"] = ck.cov.get("correspondence_disagreements", 0) + max(bad, 0)
    return bad


def reference_leg(ck, model, cases):
    """ties the reference semantics of Props/C03.v / C15.v (flat queue, unit runs) to the chunked-queue interpreter
    that runs against the Rust code: same observation up to merging of adjacent character tokens (errors and line
    numbers included); and, as a sanity check of the proved theorem on its executable form, the reference semantics
    gives literally the same tokens for the whole input and for the chunked input"""
    if model is None:
        return 0
    a = ck.run_lines(model, [T.ENT_FILE], cases)
    b = ck.run_lines(model, [T.ENT_FILE, "flat"], cases)
    whole = [T.rechunk(c, ["".join(T.case_text(c))]) for c in cases]
    w = ck.run_lines(model, [T.ENT_FILE, "flat"], whole)
    bad = 0
    for c, x, y, z in zip(cases, a, b, w):
        if T.obs(x, keep_log=False) != T.obs(y, keep_log=False):
            bad += 1
            if bad <= 3:
                ck.broken.append("reference (flat-queue) semantics vs chunked-queue interpreter differ beyond token merging: %s\n chunked  : %s\n reference: %s"
                                 % (json.dumps(T.describe(c), ensure_ascii=True), x[:500], y[:500]))
        elif y.rpartition(" # ")[0] != z.rpartition(" # ")[0]:
            bad += 1
            if bad <= 3:
                ck.broken.append("reference semantics depends on chunking (contradicts the proved theorem's executable form): %s"
                                 % json.dumps(T.describe(c), ensure_ascii=True))
    ck.cov["reference_semantics_cases"] = ck.cov.get("reference_semantics_cases", 0) + len(cases)
    ck.cov["reference_semantics_disagreements"] = ck.cov.get("reference_semantics_disagreements", 0) + bad
    return bad


def tree_run(ck, bindir, cases):
    return ck.run_lines(os.path.join(bindir, "tree"), [], cases)


def htree_case(chunks, exact=0, bom=1, scripting=1, dropdt=0, srcdoc=0, quirks=0, ctx=""):
    return "H|%d %d %d %d %d %d|%s|%s" % (exact, bom, scripting, dropdt, srcdoc, quirks, ctx, ";".join(T.enc(c) for c in chunks))


def xtree_case(chunks, exact=0, bom=1):
    return "X|%d %d|%s" % (exact, bom, ";".join(T.enc(c) for c in chunks))


def tree_part(line):
    return line.rpartition(" # ")[0] if " # " in line else line


def quirks_part(line):
    m = re.search(r"quirks=(\w+)", line)
    return m.group(1) if m else ""


def gen_inputs(ck, n, fl):
    """inputs for the tokenizer- and tree-level oracles.  For html half of them come from the tree-structured generator
    of the C02 check (lib/treelib.py: element families, skeletons, tables / templates / select / foreign content), so
    that the tree-level metamorphic oracles of C03 / C04 / C08 reach the tree builder's rarer rules, not only what a
    tokenizer grammar happens to nest"""
    r = ck.rng
    out = []
    for _ in range(n):
        k = r.random()
        if fl == "h" and k < 0.45:
            import treelib as _TL
            out.append(_TL.gen_tree_html(r))
        elif k < 0.85:
            out.append(T.gen_html(r) if fl == "h" else T.gen_xml(r))
        else:
            out.append(T.gen_junk(r))
    return out


# ------------------------------------------------------------------------------------------------ C03 / C15 chunking
def chunk_oracle(ck, bindir, fl, inputs, prop, two_way_upto=24):
    """implementation on the whole input vs other chunkings: tokens + errors + lines (+ #suspensions) must agree"""
    r = ck.rng
    cases, groups = [], []
    for s in inputs:
        if fl == "h":
            st = r.choice(T.HTML_STATES)
            opts = dict(exact=r.random() < 0.3, bom=r.random() < 0.8, foreign=r.random() < 0.3, state=st,
                        last=r.choice(["", "script", "title", "a"]), resp=r.choice(T.RESPS))
        else:
            opts = dict(exact=r.random() < 0.3, bom=r.random() < 0.8, state=r.choice(["Data", "Data", "Cdata"]))
        chs = T.chunkings(r, s, 2)
        if len(s) <= two_way_upto:
            chs += T.all_two_way(s)
        g = []
        for ch in chs:
            g.append(len(cases))
            cases.append(T.mk_case(fl, ch, **opts))
        groups.append(g)
    outs = T.run_impl(ck, bindir, cases)
    fails = 0
    for g in groups:
        base = T.obs(outs[g[0]], keep_log=False)
        bs = sorted(x for x in T.parse_out(outs[g[0]])[1] if x != "D")
        for i in g[1:]:
            o = T.obs(outs[i], keep_log=False)
            ls = sorted(x for x in T.parse_out(outs[i])[1] if x != "D")
            if o != base or ls != bs:
                fails += 1
                if fails <= 3:
                    ck.violation("%s tokenizer output depends on chunking" % ("html" if fl == "h" else "xml"),
                                 {"kind": "failing-input", "oracle": "chunking", "whole": T.describe(cases[g[0]]),
                                  "chunked": T.describe(cases[i]), "out_whole": outs[g[0]][:800], "out_chunked": outs[i][:800]},
                                 case_class=classify_chunk_diff(cases[g[0]], cases[i], outs[g[0]], outs[i]))
                break
    return len(cases), fails


def classify_chunk_diff(c0, c1, o0, o1):
    """narrow signature of a chunking failure (used only to match listed known findings)"""
    chunks = T.case_text(c1)
    if any(ch.startswith("﻿") for ch in chunks[1:]):
        return "bom-dropped-at-later-chunk-start"
    return "chunking-other"


def tree_chunk_oracle(ck, bindir, fl, inputs):
    r = ck.rng
    cases, groups = [], []
    for s in inputs:
        chs = T.chunkings(r, s, 2)
        g = []
        if fl == "h":
            o = dict(exact=int(r.random() < 0.3), scripting=int(r.random() < 0.5),
                     ctx=r.choice(["", "", "", "html:div", "html:table", "html:select", "html:template", "html:title",
                                   "html:script", "svg:svg", "math:math", "html:textarea", "svg:title"]))
            for ch in chs:
                g.append(len(cases)); cases.append(htree_case(ch, **o))
        else:
            e = int(r.random() < 0.3)
            for ch in chs:
                g.append(len(cases)); cases.append(xtree_case(ch, exact=e))
        groups.append(g)
    outs = tree_run(ck, bindir, cases)
    fails = 0
    for g in groups:
        base = (tree_part(outs[g[0]]), quirks_part(outs[g[0]]))
        for i in g[1:]:
            if (tree_part(outs[i]), quirks_part(outs[i])) != base:
                fails += 1
                if fails <= 3:
                    ck.violation("final tree depends on chunking (%s)" % ("html" if fl == "h" else "xml"),
                                 {"kind": "failing-input", "oracle": "tree-chunking", "case_whole": cases[g[0]],
                                  "case_chunked": cases[i], "tree_whole": outs[g[0]][:800], "tree_chunked": outs[i][:800]},
                                 case_class="tree-chunking")
                break
    return len(cases), fails


def script_inject_oracle(ck, bindir, model, inputs):
    """a script suspension happens right after the script's end tag: injecting text there == writing it there.
    The position of the suspension is the model's consumed-character count at the </script> token."""
    if model is None:
        return 0, 0
    r = ck.rng
    cand = []
    for s in inputs:
        pre, post = s[:len(s) // 2], s[len(s) // 2:]
        if "script" in s.lower():
            continue
        doc = pre + "<script>" + r.choice(["", "x", "a b"]) + "</script" + r.choice(["", " ", "\n", " a=b", "\r"]) + ">" + post
        inj = r.choice(["x", "<b>", "\nq", "&amp", "a\r", "<!--", "</p", "&#x41", "\n"])
        cand.append((doc, inj))
    probe = [T.mk_case("h", [d], bom=False) for d, _ in cand]
    mo = ck.run_lines(model, [T.ENT_FILE, "cons"], probe)
    trip = []
    for (d, inj), line in zip(cand, mo):
        m = re.search(r"T e 115\.99\.114\.105\.112\.116 [^;]*?@\d+~(\d+)", line)
        if m:
            trip.append((d, inj, int(m.group(1))))
    a_cases = [T.mk_case("h", [d], bom=False, resp="script=S", inject=inj) for d, inj, p in trip]
    b_cases = [T.mk_case("h", [d[:p] + inj + d[p:]], bom=False) for d, inj, p in trip]
    oa = T.run_impl(ck, bindir, a_cases)
    ob = T.run_impl(ck, bindir, b_cases)
    fails = 0
    for (d, inj, p), x, y in zip(trip, oa, ob):
        if T.obs(x, keep_log=False) != T.obs(y, keep_log=False):
            fails += 1
            if fails <= 3:
                ck.violation("text injected at a script suspension is not parsed as if written after the end tag",
                             {"kind": "failing-input", "oracle": "script-inject", "document": d, "inject": inj, "position": p,
                              "out_injected": x[:800], "out_spliced": y[:800]}, case_class="script-inject")
    return len(a_cases), fails


# ------------------------------------------------------------------------------------------------ C08 options
def options_oracle(ck, bindir, fl, inputs):
    r = ck.rng
    cases, meta = [], []
    for s in inputs:
        ch = r.choice(T.chunkings(r, s, 2))
        if fl == "h":
            o = dict(state=r.choice(T.HTML_STATES), foreign=r.random() < 0.3, resp=r.choice(T.RESPS),
                     last=r.choice(["", "script", "title"]))
        else:
            o = dict(state=r.choice(["Data", "Data", "Cdata"]))
        i = len(cases)
        cases.append(T.mk_case(fl, ch, exact=False, bom=False, **o))
        cases.append(T.mk_case(fl, ch, exact=True, bom=False, **o))
        # discard_bom: only a U+FEFF that is the very first character of the stream may go
        t = ("﻿" + s) if r.random() < 0.5 else s
        ch2 = r.choice(T.chunkings(r, t, 2))
        stripped = t[1:] if t.startswith("﻿") else t
        cases.append(T.mk_case(fl, ch2, exact=False, bom=True, **o))
        cases.append(T.mk_case(fl, [stripped], exact=False, bom=False, **o))
        meta.append(i)
    outs = T.run_impl(ck, bindir, cases)
    fails = 0
    for i in meta:
        if T.obs(outs[i], keep_errors=False, keep_log=False) != T.obs(outs[i + 1], keep_errors=False, keep_log=False):
            fails += 1
            if fails <= 3:
                ck.violation("exact_errors changes the %s token stream" % ("html" if fl == "h" else "xml"),
                             {"kind": "failing-input", "oracle": "exact_errors", "case": T.describe(cases[i]),
                              "out_default": outs[i][:800], "out_exact": outs[i + 1][:800]},
                             case_class="exact-errors-" + ("html" if fl == "h" else "xml"))
        if T.obs(outs[i + 2], keep_log=False) != T.obs(outs[i + 3], keep_log=False):
            fails += 1
            if fails <= 6:
                ck.violation("discard_bom changes more than a leading U+FEFF (%s)" % ("html" if fl == "h" else "xml"),
                             {"kind": "failing-input", "oracle": "discard_bom", "case_bom": T.describe(cases[i + 2]),
                              "case_stripped": T.describe(cases[i + 3]), "out_bom": outs[i + 2][:800],
                              "out_stripped": outs[i + 3][:800]},
                             case_class="discard-bom-" + ("html" if fl == "h" else "xml"))
    return len(cases), fails


def tree_options_oracle(ck, bindir, inputs):
    r = ck.rng
    cases, meta = [], []
    for s in inputs:
        ch = r.choice(T.chunkings(r, s, 2))
        sc = int(r.random() < 0.5)
        i = len(cases)
        cases.append(htree_case(ch, exact=0, scripting=sc))
        cases.append(htree_case(ch, exact=1, scripting=sc))
        cases.append(htree_case(ch, exact=0, scripting=sc, dropdt=1))
        cases.append(xtree_case(ch, exact=0))
        cases.append(xtree_case(ch, exact=1))
        meta.append(i)
    outs = tree_run(ck, bindir, cases)
    fails = 0
    for i in meta:
        t0, t1, t2 = tree_part(outs[i]), tree_part(outs[i + 1]), tree_part(outs[i + 2])
        if t0 != t1 or quirks_part(outs[i]) != quirks_part(outs[i + 1]):
            fails += 1
            if fails <= 3:
                ck.violation("exact_errors changes the html tree", {"kind": "failing-input", "oracle": "tree-exact", "case": cases[i],
                                                                     "tree_default": t0[:800], "tree_exact": t1[:800]},
                             case_class="tree-exact-html")
        nodt = re.sub(r" ?\(doctype [^()]*\)", "", t0, count=1)
        if t2 != nodt or quirks_part(outs[i]) != quirks_part(outs[i + 2]):
            fails += 1
            if fails <= 3:
                ck.violation("drop_doctype changes more than the doctype node", {"kind": "failing-input", "oracle": "drop_doctype",
                                                                                 "case": cases[i], "tree": t0[:800], "tree_dropped": t2[:800]},
                             case_class="drop-doctype")
        if tree_part(outs[i + 3]) != tree_part(outs[i + 4]):
            fails += 1
            if fails <= 3:
                ck.violation("exact_errors changes the xml tree", {"kind": "failing-input", "oracle": "tree-exact-xml", "case": cases[i + 3],
                                                                    "tree_default": outs[i + 3][:800], "tree_exact": outs[i + 4][:800]},
                             case_class="tree-exact-xml")
    return len(cases), fails


# ------------------------------------------------------------------------------------------------ C09 lines
def line_oracle(ck, bindir, model, inputs):
    r = ck.rng
    cases = []
    for s in inputs:
        ch = r.choice(T.chunkings(r, s, 2))
        cases.append(T.mk_case("h", ch, exact=r.random() < 0.3, bom=False, foreign=r.random() < 0.3,
                               state=r.choice(T.HTML_STATES), resp=r.choice(["", "", "title=Rrcdata,style=Rrawtext,script=Rscript,plaintext=P"]),
                               last=r.choice(["", "script", "title"])))
    outs = T.run_impl(ck, bindir, cases)
    mouts = ck.run_lines(model, [T.ENT_FILE, "cons"], cases) if model else [None] * len(cases)
    fails = 0
    checked_tokens = 0
    for c, o, mo in zip(cases, outs, mouts):
        text = "".join(T.case_text(c))
        toks, log = T.parse_out(o)
        if toks is None:
            continue
        want = 1 + T.breaks(text)
        eof = [ln for b, ln in toks if b == "E"]
        why = None
        if eof and eof[-1] != want:
            why = "EOF token carries line %d, the input has %d line breaks" % (eof[-1], want - 1)
        elif mo is not None:
            mt, _ = T.parse_out(re.sub(r"~\d+", "", mo))
            cons = [int(x) for x in re.findall(r"@\d+~(\d+)", mo)]
            if mt is not None and len(mt) == len(toks) and len(cons) == len(toks):
                for (b, ln), k in zip(toks, cons):
                    checked_tokens += 1
                    exp = 1 + T.breaks(text[:k])
                    if ln != exp:
                        why = "token %r delivered with line %d; %d characters consumed contain %d line breaks" % (b[:30], ln, k, exp - 1)
                        break
        if why:
            fails += 1
            if fails <= 3:
                ck.violation("line number does not match the source: " + why,
                             {"kind": "failing-input", "oracle": "lines", "case": T.describe(c), "out": o[:800]},
                             case_class="line-mismatch")
    ck.cov["tokens_with_line_checked"] = checked_tokens
    return len(cases), fails


# ------------------------------------------------------------------------------------------------ C04 totality
def totality_oracle(ck, bindir, cases, what):
    outs = T.run_impl(ck, bindir, cases)
    fails = 0
    for c, o in zip(cases, outs):
        why = None
        if "PANIC" in o or "no-output" in o or "HARNESS" in o:
            why = "panic/abort/timeout: " + o[-120:]
        elif "QUEUE-NOT-EMPTY" in o:
            why = "feed() returned Done with input left in the queue"
        else:
            n, last = T.count_eof(o)
            if n != 1 or not last:
                why = "%d EOF tokens (last token is EOF: %s)" % (n, last)
        if why:
            fails += 1
            if fails <= 3:
                ck.violation("%s: %s" % (what, why), {"kind": "failing-input", "oracle": "totality", "case": T.describe(c), "out": o[-600:]},
                             case_class="totality")
    return len(cases), fails


def tree_totality_oracle(ck, bindir, cases):
    outs = tree_run(ck, bindir, cases)
    fails = 0
    for c, o in zip(cases, outs):
        if o.startswith("PANIC") or "no-output" in o:
            fails += 1
            if fails <= 3:
                ck.violation("parser panicked / aborted / hung", {"kind": "failing-input", "oracle": "tree-totality", "case": c[:2000], "out": o[-300:]},
                             case_class="tree-totality")
    return len(cases), fails


# ------------------------------------------------------------------------------------------------ C15 normalisation
def normalise_xml(s):
    return s.replace("\r\n", "\n").replace("\r", "\n").replace("\0", "�")


def xml_normalisation_oracle(ck, bindir, inputs):
    cases = []
    for s in inputs:
        cases.append(xtree_case([s], exact=0, bom=0))
        cases.append(xtree_case([normalise_xml(s)], exact=0, bom=0))
    outs = tree_run(ck, bindir, cases)
    fails = 0
    for i in range(0, len(cases), 2):
        if tree_part(outs[i]) != tree_part(outs[i + 1]):
            fails += 1
            if fails <= 3:
                ck.violation("xml: CR/CRLF/NUL are not normalised the same on every path",
                             {"kind": "failing-input", "oracle": "xml-normalisation", "input": T.case_text("x|0 0 0|||||" + cases[i].split("|")[2]),
                              "tree_raw": outs[i][:800], "tree_prenormalised": outs[i + 1][:800]}, case_class="xml-normalisation")
    return len(cases), fails


def stats(inputs):
    n = len(inputs)
    return {"inputs": n, "mean_len": round(sum(len(s) for s in inputs) / max(n, 1), 1),
            "with_CR": sum("\r" in s for s in inputs), "with_NUL": sum("\0" in s for s in inputs),
            "with_charref": sum("&" in s for s in inputs), "with_doctype": sum("doctype" in s.lower() for s in inputs),
            "with_BOM": sum("﻿" in s for s in inputs)}
