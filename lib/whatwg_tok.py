"""An independent transcription of the WHATWG HTML tokenization algorithm (HTML Standard, section 13.2.5), written
from the text of the standard and NOT derived from html5ever's source or from the translated TokIR tables.  Used by
the C01 check as a second oracle: the golden table is an audited snapshot of the translated table, so an error common
to the code and to the audit would pass it; this transcription does not share that history.

Scope: all tokenizer states; input-stream preprocessing (CR LF / CR -> LF); character references (named table:
CPython's html.entities.html5, i.e. the WHATWG entities.json); tokens are produced WITHOUT parse errors (html5ever's
error reporting granularity differs from the standard's list of error codes; the comparison is on tokens).
The tree-construction feedback a tokenizer test needs is scripted like in the harness: a map start-tag-name ->
state to switch to, `script end tag -> insert text at the insertion point` (document.write), the "adjusted current
node is not in the HTML namespace" flag for CDATA sections, the last start tag name for "appropriate end tag".
"""
from html.entities import html5 as ENTITIES

EOF = None
WS = "\t\n\x0c "
ALPHA_U = "ABCDEFGHIJKLMNOPQRSTUVWXYZ"
ALPHA_L = "abcdefghijklmnopqrstuvwxyz"
ALPHA = ALPHA_U + ALPHA_L
DIGIT = "0123456789"
ALNUM = ALPHA + DIGIT
HEXU = "ABCDEF"
HEXL = "abcdef"

C1 = {0x80: 0x20AC, 0x82: 0x201A, 0x83: 0x0192, 0x84: 0x201E, 0x85: 0x2026, 0x86: 0x2020, 0x87: 0x2021, 0x88: 0x02C6,
      0x89: 0x2030, 0x8A: 0x0160, 0x8B: 0x2039, 0x8C: 0x0152, 0x8E: 0x017D, 0x91: 0x2018, 0x92: 0x2019, 0x93: 0x201C,
      0x94: 0x201D, 0x95: 0x2022, 0x96: 0x2013, 0x97: 0x2014, 0x98: 0x02DC, 0x99: 0x2122, 0x9A: 0x0161, 0x9B: 0x203A,
      0x9C: 0x0153, 0x9E: 0x017E, 0x9F: 0x0178}

# longest entity name, for the maximal-munch search
_MAXENT = max(len(k) for k in ENTITIES)


def lower(c):
    return chr(ord(c) + 32) if c in ALPHA_U else c


class Tok:
    """tokens: ("doctype", name|None, public|None, system|None, force_quirks) ("start"|"end", name, selfclosing, [(n, v)], dup)
    ("comment", data) ("char", c) ("eof",)"""

    def __init__(self, text, state="data", last_start=None, switches=None, script_inject=None, foreign=False,
                 discard_bom=False):
        # 13.2.3.5 preprocessing the input stream: newlines are normalised before tokenization
        text = text.replace("\r\n", "\n").replace("\r", "\n")
        if discard_bom and text.startswith("﻿"):
            text = text[1:]
        self.s = list(text)
        self.i = 0
        self.state = state
        self.ret = None
        self.out = []
        self.last_start = last_start
        self.switches = switches or {}          # start tag name -> state
        self.script_inject = script_inject      # (end tag name, text) or None
        self.foreign = foreign
        self.tag = None
        self.attr = None
        self.comment = None
        self.doctype = None
        self.tmp = ""
        self.code = 0

    # ---- input
    def next(self):
        if self.i < len(self.s):
            c = self.s[self.i]
            self.i += 1
            return c
        self.i += 1
        return EOF

    def reconsume(self):
        self.i -= 1

    def peek_str(self, n):
        return "".join(self.s[self.i:self.i + n])

    # ---- emission
    def emit(self, t):
        self.out.append(t)

    def emit_char(self, c):
        self.out.append(("char", c))

    def emit_tag(self):
        kind, name, sc, attrs = self.tag["kind"], self.tag["name"], self.tag["self"], self.tag["attrs"]
        seen, keep, dup = set(), [], False
        for n, v in attrs:
            if n in seen:
                dup = True          # duplicate-attribute parse error: the later attribute is dropped
                continue
            seen.add(n)
            keep.append((n, v))
        if kind == "start":
            self.last_start = name
            self.emit(("start", name, sc, keep, dup))
            if name in self.switches:       # tree construction switches the tokenizer (RCDATA / RAWTEXT / script / PLAINTEXT)
                self.state = self.switches[name]
        else:
            self.emit(("end", name, sc, keep, dup))
            if self.script_inject and name == self.script_inject[0]:
                # the script runs when its end tag has been processed: document.write inserts at the insertion point
                ins = self.script_inject[1].replace("\r\n", "\n").replace("\r", "\n")
                self.s[self.i:self.i] = list(ins)
        self.tag = None

    def appropriate(self):
        return self.tag is not None and self.tag["kind"] == "end" and self.last_start is not None and self.tag["name"] == self.last_start

    def new_tag(self, kind):
        self.tag = {"kind": kind, "name": "", "self": False, "attrs": []}
        self.attr = None

    def new_attr(self, n="", v=""):
        self.attr = [n, v]
        self.tag["attrs"].append(self.attr)

    def flush_tmp_as_chars(self):
        for c in self.tmp:
            self.emit_char(c)

    # ---- character references (13.2.5.72 - 80)
    def in_attr(self):
        return self.ret in ("attribute value (double-quoted)", "attribute value (single-quoted)", "attribute value (unquoted)")

    def flush_charref(self):
        for c in self.tmp:
            if self.in_attr():
                self.attr[1] += c
            else:
                self.emit_char(c)

    # ---- the state machine
    def run(self):
        guard = 0
        while True:
            guard += 1
            if guard > 50 * (len(self.s) + 20):
                raise RuntimeError("whatwg_tok: no progress")
            st = self.state
            fn = getattr(self, "s_" + st.replace(" ", "_").replace("-", "_").replace("(", "").replace(")", ""))
            if fn() == "stop":
                return self.out

    def s_data(self):
        c = self.next()
        if c == "&":
            self.ret = "data"
            self.state = "character reference"
        elif c == "<":
            self.state = "tag open"
        elif c == "\0":
            self.emit_char("\0")
        elif c is EOF:
            self.emit(("eof",))
            return "stop"
        else:
            self.emit_char(c)

    def s_RCDATA(self):
        c = self.next()
        if c == "&":
            self.ret = "RCDATA"
            self.state = "character reference"
        elif c == "<":
            self.state = "RCDATA less-than sign"
        elif c == "\0":
            self.emit_char("�")
        elif c is EOF:
            self.emit(("eof",))
            return "stop"
        else:
            self.emit_char(c)

    def s_RAWTEXT(self):
        c = self.next()
        if c == "<":
            self.state = "RAWTEXT less-than sign"
        elif c == "\0":
            self.emit_char("�")
        elif c is EOF:
            self.emit(("eof",))
            return "stop"
        else:
            self.emit_char(c)

    def s_script_data(self):
        c = self.next()
        if c == "<":
            self.state = "script data less-than sign"
        elif c == "\0":
            self.emit_char("�")
        elif c is EOF:
            self.emit(("eof",))
            return "stop"
        else:
            self.emit_char(c)

    def s_PLAINTEXT(self):
        c = self.next()
        if c == "\0":
            self.emit_char("�")
        elif c is EOF:
            self.emit(("eof",))
            return "stop"
        else:
            self.emit_char(c)

    def s_tag_open(self):
        c = self.next()
        if c == "!":
            self.state = "markup declaration open"
        elif c == "/":
            self.state = "end tag open"
        elif c is not EOF and c in ALPHA:
            self.new_tag("start")
            self.reconsume()
            self.state = "tag name"
        elif c == "?":
            self.comment = ""
            self.reconsume()
            self.state = "bogus comment"
        elif c is EOF:
            self.emit_char("<")
            self.emit(("eof",))
            return "stop"
        else:
            self.emit_char("<")
            self.reconsume()
            self.state = "data"

    def s_end_tag_open(self):
        c = self.next()
        if c is not EOF and c in ALPHA:
            self.new_tag("end")
            self.reconsume()
            self.state = "tag name"
        elif c == ">":
            self.state = "data"
        elif c is EOF:
            self.emit_char("<")
            self.emit_char("/")
            self.emit(("eof",))
            return "stop"
        else:
            self.comment = ""
            self.reconsume()
            self.state = "bogus comment"

    def s_tag_name(self):
        c = self.next()
        if c is EOF:
            self.emit(("eof",))
            return "stop"
        if c in WS:
            self.state = "before attribute name"
        elif c == "/":
            self.state = "self-closing start tag"
        elif c == ">":
            self.state = "data"
            self.emit_tag()
        elif c == "\0":
            self.tag["name"] += "�"
        else:
            self.tag["name"] += lower(c)

    def _lt_sign(self, back, end_open):
        c = self.next()
        if c == "/":
            self.tmp = ""
            self.state = end_open
        else:
            self.emit_char("<")
            self.reconsume()
            self.state = back

    def _end_tag_open(self, back, name_state):
        c = self.next()
        if c is not EOF and c in ALPHA:
            self.new_tag("end")
            self.reconsume()
            self.state = name_state
        else:
            self.emit_char("<")
            self.emit_char("/")
            self.reconsume()
            self.state = back

    def _end_tag_name(self, back):
        c = self.next()
        if c is not EOF and c in WS and self.appropriate():
            self.state = "before attribute name"
            return
        if c == "/" and self.appropriate():
            self.state = "self-closing start tag"
            return
        if c == ">" and self.appropriate():
            self.state = "data"
            self.emit_tag()
            return
        if c is not EOF and c in ALPHA:
            self.tag["name"] += lower(c)
            self.tmp += c
            return
        self.emit_char("<")
        self.emit_char("/")
        self.flush_tmp_as_chars()
        self.tag = None
        self.reconsume()
        self.state = back

    def s_RCDATA_less_than_sign(self):
        self._lt_sign("RCDATA", "RCDATA end tag open")

    def s_RCDATA_end_tag_open(self):
        self._end_tag_open("RCDATA", "RCDATA end tag name")

    def s_RCDATA_end_tag_name(self):
        self._end_tag_name("RCDATA")

    def s_RAWTEXT_less_than_sign(self):
        self._lt_sign("RAWTEXT", "RAWTEXT end tag open")

    def s_RAWTEXT_end_tag_open(self):
        self._end_tag_open("RAWTEXT", "RAWTEXT end tag name")

    def s_RAWTEXT_end_tag_name(self):
        self._end_tag_name("RAWTEXT")

    def s_script_data_less_than_sign(self):
        c = self.next()
        if c == "/":
            self.tmp = ""
            self.state = "script data end tag open"
        elif c == "!":
            self.state = "script data escape start"
            self.emit_char("<")
            self.emit_char("!")
        else:
            self.emit_char("<")
            self.reconsume()
            self.state = "script data"

    def s_script_data_end_tag_open(self):
        self._end_tag_open("script data", "script data end tag name")

    def s_script_data_end_tag_name(self):
        self._end_tag_name("script data")

    def s_script_data_escape_start(self):
        c = self.next()
        if c == "-":
            self.state = "script data escape start dash"
            self.emit_char("-")
        else:
            self.reconsume()
            self.state = "script data"

    def s_script_data_escape_start_dash(self):
        c = self.next()
        if c == "-":
            self.state = "script data escaped dash dash"
            self.emit_char("-")
        else:
            self.reconsume()
            self.state = "script data"

    def s_script_data_escaped(self):
        c = self.next()
        if c == "-":
            self.state = "script data escaped dash"
            self.emit_char("-")
        elif c == "<":
            self.state = "script data escaped less-than sign"
        elif c == "\0":
            self.emit_char("�")
        elif c is EOF:
            self.emit(("eof",))
            return "stop"
        else:
            self.emit_char(c)

    def s_script_data_escaped_dash(self):
        c = self.next()
        if c == "-":
            self.state = "script data escaped dash dash"
            self.emit_char("-")
        elif c == "<":
            self.state = "script data escaped less-than sign"
        elif c == "\0":
            self.state = "script data escaped"
            self.emit_char("�")
        elif c is EOF:
            self.emit(("eof",))
            return "stop"
        else:
            self.state = "script data escaped"
            self.emit_char(c)

    def s_script_data_escaped_dash_dash(self):
        c = self.next()
        if c == "-":
            self.emit_char("-")
        elif c == "<":
            self.state = "script data escaped less-than sign"
        elif c == ">":
            self.state = "script data"
            self.emit_char(">")
        elif c == "\0":
            self.state = "script data escaped"
            self.emit_char("�")
        elif c is EOF:
            self.emit(("eof",))
            return "stop"
        else:
            self.state = "script data escaped"
            self.emit_char(c)

    def s_script_data_escaped_less_than_sign(self):
        c = self.next()
        if c == "/":
            self.tmp = ""
            self.state = "script data escaped end tag open"
        elif c is not EOF and c in ALPHA:
            self.tmp = ""
            self.emit_char("<")
            self.reconsume()
            self.state = "script data double escape start"
        else:
            self.emit_char("<")
            self.reconsume()
            self.state = "script data escaped"

    def s_script_data_escaped_end_tag_open(self):
        self._end_tag_open("script data escaped", "script data escaped end tag name")

    def s_script_data_escaped_end_tag_name(self):
        self._end_tag_name("script data escaped")

    def _double_escape(self, if_script, otherwise, back):
        c = self.next()
        if c is not EOF and (c in WS or c in "/>"):
            self.state = if_script if self.tmp == "script" else otherwise
            self.emit_char(c)
        elif c is not EOF and c in ALPHA:
            self.tmp += lower(c)
            self.emit_char(c)
        else:
            self.reconsume()
            self.state = back

    def s_script_data_double_escape_start(self):
        self._double_escape("script data double escaped", "script data escaped", "script data escaped")

    def s_script_data_double_escaped(self):
        c = self.next()
        if c == "-":
            self.state = "script data double escaped dash"
            self.emit_char("-")
        elif c == "<":
            self.state = "script data double escaped less-than sign"
            self.emit_char("<")
        elif c == "\0":
            self.emit_char("�")
        elif c is EOF:
            self.emit(("eof",))
            return "stop"
        else:
            self.emit_char(c)

    def s_script_data_double_escaped_dash(self):
        c = self.next()
        if c == "-":
            self.state = "script data double escaped dash dash"
            self.emit_char("-")
        elif c == "<":
            self.state = "script data double escaped less-than sign"
            self.emit_char("<")
        elif c == "\0":
            self.state = "script data double escaped"
            self.emit_char("�")
        elif c is EOF:
            self.emit(("eof",))
            return "stop"
        else:
            self.state = "script data double escaped"
            self.emit_char(c)

    def s_script_data_double_escaped_dash_dash(self):
        c = self.next()
        if c == "-":
            self.emit_char("-")
        elif c == "<":
            self.state = "script data double escaped less-than sign"
            self.emit_char("<")
        elif c == ">":
            self.state = "script data"
            self.emit_char(">")
        elif c == "\0":
            self.state = "script data double escaped"
            self.emit_char("�")
        elif c is EOF:
            self.emit(("eof",))
            return "stop"
        else:
            self.state = "script data double escaped"
            self.emit_char(c)

    def s_script_data_double_escaped_less_than_sign(self):
        c = self.next()
        if c == "/":
            self.tmp = ""
            self.state = "script data double escape end"
            self.emit_char("/")
        else:
            self.reconsume()
            self.state = "script data double escaped"

    def s_script_data_double_escape_end(self):
        self._double_escape("script data escaped", "script data double escaped", "script data double escaped")

    # ---- attributes
    def s_before_attribute_name(self):
        c = self.next()
        if c is not EOF and c in WS:
            return
        if c is EOF or c in "/>":
            self.reconsume()
            self.state = "after attribute name"
        elif c == "=":
            self.new_attr(c, "")
            self.state = "attribute name"
        else:
            self.new_attr("", "")
            self.reconsume()
            self.state = "attribute name"

    def s_attribute_name(self):
        c = self.next()
        if c is EOF or c in WS or c in "/>":
            self.reconsume()
            self.state = "after attribute name"
        elif c == "=":
            self.state = "before attribute value"
        elif c == "\0":
            self.attr[0] += "�"
        else:
            self.attr[0] += lower(c)

    def s_after_attribute_name(self):
        c = self.next()
        if c is EOF:
            self.emit(("eof",))
            return "stop"
        if c in WS:
            return
        if c == "/":
            self.state = "self-closing start tag"
        elif c == "=":
            self.state = "before attribute value"
        elif c == ">":
            self.state = "data"
            self.emit_tag()
        else:
            self.new_attr("", "")
            self.reconsume()
            self.state = "attribute name"

    def s_before_attribute_value(self):
        c = self.next()
        if c is not EOF and c in WS:
            return
        if c == '"':
            self.state = "attribute value (double-quoted)"
        elif c == "'":
            self.state = "attribute value (single-quoted)"
        elif c == ">":
            self.state = "data"
            self.emit_tag()
        else:
            self.reconsume()
            self.state = "attribute value (unquoted)"

    def _attr_value_quoted(self, q, me):
        c = self.next()
        if c == q:
            self.state = "after attribute value (quoted)"
        elif c == "&":
            self.ret = me
            self.state = "character reference"
        elif c == "\0":
            self.attr[1] += "�"
        elif c is EOF:
            self.emit(("eof",))
            return "stop"
        else:
            self.attr[1] += c

    def s_attribute_value_double_quoted(self):
        return self._attr_value_quoted('"', "attribute value (double-quoted)")

    def s_attribute_value_single_quoted(self):
        return self._attr_value_quoted("'", "attribute value (single-quoted)")

    def s_attribute_value_unquoted(self):
        c = self.next()
        if c is EOF:
            self.emit(("eof",))
            return "stop"
        if c in WS:
            self.state = "before attribute name"
        elif c == "&":
            self.ret = "attribute value (unquoted)"
            self.state = "character reference"
        elif c == ">":
            self.state = "data"
            self.emit_tag()
        elif c == "\0":
            self.attr[1] += "�"
        else:
            self.attr[1] += c

    def s_after_attribute_value_quoted(self):
        c = self.next()
        if c is EOF:
            self.emit(("eof",))
            return "stop"
        if c in WS:
            self.state = "before attribute name"
        elif c == "/":
            self.state = "self-closing start tag"
        elif c == ">":
            self.state = "data"
            self.emit_tag()
        else:
            self.reconsume()
            self.state = "before attribute name"

    def s_self_closing_start_tag(self):
        c = self.next()
        if c == ">":
            self.tag["self"] = True
            self.state = "data"
            self.emit_tag()
        elif c is EOF:
            self.emit(("eof",))
            return "stop"
        else:
            self.reconsume()
            self.state = "before attribute name"

    # ---- comments
    def s_bogus_comment(self):
        c = self.next()
        if c == ">":
            self.state = "data"
            self.emit(("comment", self.comment))
        elif c is EOF:
            self.emit(("comment", self.comment))
            self.emit(("eof",))
            return "stop"
        elif c == "\0":
            self.comment += "�"
        else:
            self.comment += c

    def s_markup_declaration_open(self):
        if self.peek_str(2) == "--":
            self.i += 2
            self.comment = ""
            self.state = "comment start"
        elif self.peek_str(7).lower() == "doctype" and all(ch in ALPHA for ch in self.peek_str(7)):
            self.i += 7
            self.state = "DOCTYPE"
        elif self.peek_str(7) == "[CDATA[":
            self.i += 7
            if self.foreign:
                self.state = "CDATA section"
            else:
                self.comment = "[CDATA["
                self.state = "bogus comment"
        else:
            self.comment = ""
            self.state = "bogus comment"

    def s_comment_start(self):
        c = self.next()
        if c == "-":
            self.state = "comment start dash"
        elif c == ">":
            self.state = "data"
            self.emit(("comment", self.comment))
        else:
            self.reconsume()
            self.state = "comment"

    def s_comment_start_dash(self):
        c = self.next()
        if c == "-":
            self.state = "comment end"
        elif c == ">":
            self.state = "data"
            self.emit(("comment", self.comment))
        elif c is EOF:
            self.emit(("comment", self.comment))
            self.emit(("eof",))
            return "stop"
        else:
            self.comment += "-"
            self.reconsume()
            self.state = "comment"

    def s_comment(self):
        c = self.next()
        if c == "<":
            self.comment += c
            self.state = "comment less-than sign"
        elif c == "-":
            self.state = "comment end dash"
        elif c == "\0":
            self.comment += "�"
        elif c is EOF:
            self.emit(("comment", self.comment))
            self.emit(("eof",))
            return "stop"
        else:
            self.comment += c

    def s_comment_less_than_sign(self):
        c = self.next()
        if c == "!":
            self.comment += c
            self.state = "comment less-than sign bang"
        elif c == "<":
            self.comment += c
        else:
            self.reconsume()
            self.state = "comment"

    def s_comment_less_than_sign_bang(self):
        c = self.next()
        if c == "-":
            self.state = "comment less-than sign bang dash"
        else:
            self.reconsume()
            self.state = "comment"

    def s_comment_less_than_sign_bang_dash(self):
        c = self.next()
        if c == "-":
            self.state = "comment less-than sign bang dash dash"
        else:
            self.reconsume()
            self.state = "comment end dash"

    def s_comment_less_than_sign_bang_dash_dash(self):
        self.next()
        self.reconsume()
        self.state = "comment end"

    def s_comment_end_dash(self):
        c = self.next()
        if c == "-":
            self.state = "comment end"
        elif c is EOF:
            self.emit(("comment", self.comment))
            self.emit(("eof",))
            return "stop"
        else:
            self.comment += "-"
            self.reconsume()
            self.state = "comment"

    def s_comment_end(self):
        c = self.next()
        if c == ">":
            self.state = "data"
            self.emit(("comment", self.comment))
        elif c == "!":
            self.state = "comment end bang"
        elif c == "-":
            self.comment += "-"
        elif c is EOF:
            self.emit(("comment", self.comment))
            self.emit(("eof",))
            return "stop"
        else:
            self.comment += "--"
            self.reconsume()
            self.state = "comment"

    def s_comment_end_bang(self):
        c = self.next()
        if c == "-":
            self.comment += "--!"
            self.state = "comment end dash"
        elif c == ">":
            self.state = "data"
            self.emit(("comment", self.comment))
        elif c is EOF:
            self.emit(("comment", self.comment))
            self.emit(("eof",))
            return "stop"
        else:
            self.comment += "--!"
            self.reconsume()
            self.state = "comment"

    # ---- DOCTYPE
    def _emit_doctype(self):
        d = self.doctype
        self.emit(("doctype", d["name"], d["public"], d["system"], d["fq"]))

    def _eof_doctype(self):
        self.doctype["fq"] = True
        self._emit_doctype()
        self.emit(("eof",))
        return "stop"

    def s_DOCTYPE(self):
        c = self.next()
        if c is not EOF and c in WS:
            self.state = "before DOCTYPE name"
        elif c == ">":
            self.reconsume()
            self.state = "before DOCTYPE name"
        elif c is EOF:
            self.doctype = {"name": None, "public": None, "system": None, "fq": True}
            self._emit_doctype()
            self.emit(("eof",))
            return "stop"
        else:
            self.reconsume()
            self.state = "before DOCTYPE name"

    def s_before_DOCTYPE_name(self):
        c = self.next()
        if c is not EOF and c in WS:
            return
        self.doctype = {"name": None, "public": None, "system": None, "fq": False}
        if c is EOF:
            return self._eof_doctype()
        if c == ">":
            self.doctype["fq"] = True
            self.state = "data"
            self._emit_doctype()
        elif c == "\0":
            self.doctype["name"] = "�"
            self.state = "DOCTYPE name"
        else:
            self.doctype["name"] = lower(c)
            self.state = "DOCTYPE name"

    def s_DOCTYPE_name(self):
        c = self.next()
        if c is EOF:
            return self._eof_doctype()
        if c in WS:
            self.state = "after DOCTYPE name"
        elif c == ">":
            self.state = "data"
            self._emit_doctype()
        elif c == "\0":
            self.doctype["name"] += "�"
        else:
            self.doctype["name"] += lower(c)

    def s_after_DOCTYPE_name(self):
        c = self.next()
        if c is EOF:
            return self._eof_doctype()
        if c in WS:
            return
        if c == ">":
            self.state = "data"
            self._emit_doctype()
            return
        six = (c + self.peek_str(5))
        if six.lower() == "public" and all(ch in ALPHA for ch in six):
            self.i += 5
            self.state = "after DOCTYPE public keyword"
        elif six.lower() == "system" and all(ch in ALPHA for ch in six):
            self.i += 5
            self.state = "after DOCTYPE system keyword"
        else:
            self.doctype["fq"] = True
            self.reconsume()
            self.state = "bogus DOCTYPE"

    def _after_keyword(self, which, before, dq, sq):
        c = self.next()
        if c is EOF:
            return self._eof_doctype()
        if c in WS:
            self.state = before
        elif c == '"':
            self.doctype[which] = ""
            self.state = dq
        elif c == "'":
            self.doctype[which] = ""
            self.state = sq
        elif c == ">":
            self.doctype["fq"] = True
            self.state = "data"
            self._emit_doctype()
        else:
            self.doctype["fq"] = True
            self.reconsume()
            self.state = "bogus DOCTYPE"

    def _before_identifier(self, which, dq, sq):
        c = self.next()
        if c is EOF:
            return self._eof_doctype()
        if c in WS:
            return
        if c == '"':
            self.doctype[which] = ""
            self.state = dq
        elif c == "'":
            self.doctype[which] = ""
            self.state = sq
        elif c == ">":
            self.doctype["fq"] = True
            self.state = "data"
            self._emit_doctype()
        else:
            self.doctype["fq"] = True
            self.reconsume()
            self.state = "bogus DOCTYPE"

    def _identifier(self, which, q, after):
        c = self.next()
        if c is EOF:
            return self._eof_doctype()
        if c == q:
            self.state = after
        elif c == "\0":
            self.doctype[which] += "�"
        elif c == ">":
            self.doctype["fq"] = True
            self.state = "data"
            self._emit_doctype()
        else:
            self.doctype[which] += c

    def s_after_DOCTYPE_public_keyword(self):
        return self._after_keyword("public", "before DOCTYPE public identifier", "DOCTYPE public identifier (double-quoted)",
                                   "DOCTYPE public identifier (single-quoted)")

    def s_before_DOCTYPE_public_identifier(self):
        return self._before_identifier("public", "DOCTYPE public identifier (double-quoted)", "DOCTYPE public identifier (single-quoted)")

    def s_DOCTYPE_public_identifier_double_quoted(self):
        return self._identifier("public", '"', "after DOCTYPE public identifier")

    def s_DOCTYPE_public_identifier_single_quoted(self):
        return self._identifier("public", "'", "after DOCTYPE public identifier")

    def s_after_DOCTYPE_public_identifier(self):
        c = self.next()
        if c is EOF:
            return self._eof_doctype()
        if c in WS:
            self.state = "between DOCTYPE public and system identifiers"
        elif c == ">":
            self.state = "data"
            self._emit_doctype()
        elif c == '"':
            self.doctype["system"] = ""
            self.state = "DOCTYPE system identifier (double-quoted)"
        elif c == "'":
            self.doctype["system"] = ""
            self.state = "DOCTYPE system identifier (single-quoted)"
        else:
            self.doctype["fq"] = True
            self.reconsume()
            self.state = "bogus DOCTYPE"

    def s_between_DOCTYPE_public_and_system_identifiers(self):
        c = self.next()
        if c is EOF:
            return self._eof_doctype()
        if c in WS:
            return
        if c == ">":
            self.state = "data"
            self._emit_doctype()
        elif c == '"':
            self.doctype["system"] = ""
            self.state = "DOCTYPE system identifier (double-quoted)"
        elif c == "'":
            self.doctype["system"] = ""
            self.state = "DOCTYPE system identifier (single-quoted)"
        else:
            self.doctype["fq"] = True
            self.reconsume()
            self.state = "bogus DOCTYPE"

    def s_after_DOCTYPE_system_keyword(self):
        return self._after_keyword("system", "before DOCTYPE system identifier", "DOCTYPE system identifier (double-quoted)",
                                   "DOCTYPE system identifier (single-quoted)")

    def s_before_DOCTYPE_system_identifier(self):
        return self._before_identifier("system", "DOCTYPE system identifier (double-quoted)", "DOCTYPE system identifier (single-quoted)")

    def s_DOCTYPE_system_identifier_double_quoted(self):
        return self._identifier("system", '"', "after DOCTYPE system identifier")

    def s_DOCTYPE_system_identifier_single_quoted(self):
        return self._identifier("system", "'", "after DOCTYPE system identifier")

    def s_after_DOCTYPE_system_identifier(self):
        c = self.next()
        if c is EOF:
            return self._eof_doctype()
        if c in WS:
            return
        if c == ">":
            self.state = "data"
            self._emit_doctype()
        else:
            self.reconsume()          # does NOT set force-quirks
            self.state = "bogus DOCTYPE"

    def s_bogus_DOCTYPE(self):
        c = self.next()
        if c == ">":
            self.state = "data"
            self._emit_doctype()
        elif c is EOF:
            self._emit_doctype()
            self.emit(("eof",))
            return "stop"

    # ---- CDATA
    def s_CDATA_section(self):
        c = self.next()
        if c == "]":
            self.state = "CDATA section bracket"
        elif c is EOF:
            self.emit(("eof",))
            return "stop"
        else:
            self.emit_char(c)

    def s_CDATA_section_bracket(self):
        c = self.next()
        if c == "]":
            self.state = "CDATA section end"
        else:
            self.emit_char("]")
            self.reconsume()
            self.state = "CDATA section"

    def s_CDATA_section_end(self):
        c = self.next()
        if c == "]":
            self.emit_char("]")
        elif c == ">":
            self.state = "data"
        else:
            self.emit_char("]")
            self.emit_char("]")
            self.reconsume()
            self.state = "CDATA section"

    # ---- character references
    def s_character_reference(self):
        self.tmp = "&"
        c = self.next()
        if c is not EOF and c in ALNUM:
            self.reconsume()
            self.state = "named character reference"
        elif c == "#":
            self.tmp += c
            self.state = "numeric character reference"
        else:
            self.flush_charref()
            self.reconsume()
            self.state = self.ret

    def s_named_character_reference(self):
        # maximal munch over the table
        rest = "".join(self.s[self.i:self.i + _MAXENT])
        best = None
        for n in range(min(len(rest), _MAXENT), 0, -1):
            if rest[:n] in ENTITIES:
                best = rest[:n]
                break
        if best is not None:
            self.i += len(best)
            self.tmp += best
            nxt = self.s[self.i] if self.i < len(self.s) else EOF
            if self.in_attr() and not best.endswith(";") and nxt is not EOF and (nxt == "=" or nxt in ALNUM):
                # for historical reasons: flushed as is
                self.flush_charref()
                self.state = self.ret
                return
            self.tmp = ENTITIES[best]
            self.flush_charref()
            self.state = self.ret
        else:
            self.flush_charref()
            self.state = "ambiguous ampersand"

    def s_ambiguous_ampersand(self):
        c = self.next()
        if c is not EOF and c in ALNUM:
            if self.in_attr():
                self.attr[1] += c
            else:
                self.emit_char(c)
        else:
            self.reconsume()
            self.state = self.ret

    def s_numeric_character_reference(self):
        self.code = 0
        c = self.next()
        if c is not EOF and c in "xX":
            self.tmp += c
            self.state = "hexadecimal character reference start"
        else:
            self.reconsume()
            self.state = "decimal character reference start"

    def s_hexadecimal_character_reference_start(self):
        c = self.next()
        if c is not EOF and (c in DIGIT or c in HEXU or c in HEXL):
            self.reconsume()
            self.state = "hexadecimal character reference"
        else:
            self.flush_charref()
            self.reconsume()
            self.state = self.ret

    def s_decimal_character_reference_start(self):
        c = self.next()
        if c is not EOF and c in DIGIT:
            self.reconsume()
            self.state = "decimal character reference"
        else:
            self.flush_charref()
            self.reconsume()
            self.state = self.ret

    def s_hexadecimal_character_reference(self):
        c = self.next()
        if c is not EOF and c in DIGIT:
            self.code = self.code * 16 + (ord(c) - 0x30)
        elif c is not EOF and c in HEXU:
            self.code = self.code * 16 + (ord(c) - 0x37)
        elif c is not EOF and c in HEXL:
            self.code = self.code * 16 + (ord(c) - 0x57)
        elif c == ";":
            self.state = "numeric character reference end"
        else:
            self.reconsume()
            self.state = "numeric character reference end"

    def s_decimal_character_reference(self):
        c = self.next()
        if c is not EOF and c in DIGIT:
            self.code = self.code * 10 + (ord(c) - 0x30)
        elif c == ";":
            self.state = "numeric character reference end"
        else:
            self.reconsume()
            self.state = "numeric character reference end"

    def s_numeric_character_reference_end(self):
        n = self.code
        if n == 0:
            n = 0xFFFD
        elif n > 0x10FFFF:
            n = 0xFFFD
        elif 0xD800 <= n <= 0xDFFF:
            n = 0xFFFD
        elif n in C1:
            n = C1[n]
        # noncharacters and controls are parse errors but are kept
        self.tmp = chr(n)
        self.flush_charref()
        self.state = self.ret


# ------------------------------------------------------------------ canonical observation (format of harness/src/bin/tok.rs)
def cps(s):
    return ".".join(str(ord(c)) for c in s) if s else "_"


def canon(tokens):
    """list of canonical token strings WITHOUT line numbers and parse errors, adjacent characters merged"""
    out = []
    run = []

    def flush():
        if run:
            out.append("S " + ".".join(str(ord(c)) for c in run))
            run.clear()
    for t in tokens:
        k = t[0]
        if k == "char":
            if t[1] == "\0":
                flush()
                out.append("0")
            else:
                run.append(t[1])
            continue
        flush()
        if k == "eof":
            out.append("E")
        elif k == "comment":
            out.append("C " + cps(t[1]))
        elif k == "doctype":
            _, name, pub, sys_, fq = t
            out.append("D %s %s %s %d" % (cps(name) if name is not None else "-", cps(pub) if pub is not None else "-",
                                         cps(sys_) if sys_ is not None else "-", 1 if fq else 0))
        else:
            _, name, sc, attrs, dup = t
            out.append(("T %s %s %d %d" % ("s" if k == "start" else "e", cps(name), 1 if sc else 0, 1 if dup else 0)) +
                       "".join(" %s=%s" % (cps(n), cps(v)) for n, v in attrs))
    flush()
    return out


STATE_OF = {"Data": "data", "Plaintext": "PLAINTEXT", "RawData(Rcdata)": "RCDATA", "RawData(Rawtext)": "RAWTEXT",
            "RawData(ScriptData)": "script data", "RawData(ScriptDataEscaped(Escaped))": "script data escaped",
            "RawData(ScriptDataEscaped(DoubleEscaped))": "script data double escaped", "CdataSection": "CDATA section"}
RESP_STATE = {"Rrcdata": "RCDATA", "Rrawtext": "RAWTEXT", "Rscript": "script data", "Rescaped": "script data escaped",
              "Rdblescaped": "script data double escaped", "P": "PLAINTEXT"}


def tokenize_case(text, state="Data", last="", resp="", inject="", foreign=False, bom=False):
    """-> canonical token list, or None when the start state / sink script is outside this oracle's scope"""
    if state not in STATE_OF:
        return None
    switches, script = {}, None
    for item in [x for x in resp.split(",") if x]:
        name, _, what = item.partition("=")
        if what == "S":
            script = (name, inject)
        elif what == "E":
            pass                  # an encoding indicator suspends and resumes: no effect on the tokens
        elif what in RESP_STATE:
            switches[name] = RESP_STATE[what]
        else:
            return None
    t = Tok(text, state=STATE_OF[state], last_start=last or None, switches=switches, script_inject=script, foreign=foreign,
            discard_bom=bom)
    return canon(t.run())
