"""C14 - Every character reference resolves to its WHATWG value.

proof      : coq/Props/C14.v - C14_table (compiled NAMED_ENTITIES = WHATWG table + prefix closure, regenerated
             every run), C14_named (every prefix-closed table, every input: longest match, legacy attribute rule,
             exact un-consumption), C14_chunking, C14_named_html, C14_numeric (u32 accumulator + too-big flag =
             unbounded value; finish_numeric = WHATWG rule), C14_numeric_tables (C1 + range arms of /repo = model's)
tie        : tables regenerated from the built crate / the source text (gen/gen_entities.py); control flow by
             correspondence: real html5ever Tokenizer (harness bin `charref`) vs extracted model inside a small
             emulation of the tokenizer's use of it (ocaml/charref_driver.ml)
oracle     : a Python reference written from the WHATWG text over Python's own html.entities.html5 table,
             evaluated on the implementation's outputs -> concrete failing references
"""
import html.entities
import json
import os
import sys

ROOT = os.path.dirname(os.path.dirname(os.path.dirname(os.path.abspath(__file__))))
sys.path.insert(0, os.path.join(ROOT, "gen"))

HTML5 = html.entities.html5            # 'amp;' -> '&', 'amp' -> '&', ...   (2231 keys)
MAXNAME = max(len(k) for k in HTML5)
ALNUM = set("abcdefghijklmnopqrstuvwxyzABCDEFGHIJKLMNOPQRSTUVWXYZ0123456789")
WS = "\t\n\x0c "
C1 = {0x80: 0x20AC, 0x82: 0x201A, 0x83: 0x0192, 0x84: 0x201E, 0x85: 0x2026, 0x86: 0x2020, 0x87: 0x2021,
      0x88: 0x02C6, 0x89: 0x2030, 0x8A: 0x0160, 0x8B: 0x2039, 0x8C: 0x0152, 0x8E: 0x017D, 0x91: 0x2018,
      0x92: 0x2019, 0x93: 0x201C, 0x94: 0x201D, 0x95: 0x2022, 0x96: 0x2013, 0x97: 0x2014, 0x98: 0x02DC,
      0x99: 0x2122, 0x9A: 0x0161, 0x9B: 0x203A, 0x9C: 0x0153, 0x9E: 0x017E, 0x9F: 0x0178}

FOLLOWERS = {"eof": "", "semi": ";", "eq": "=", "lower": "a", "upper": "Z", "digit": "7", "space": " ",
             "cr": "\r", "lf": "\n", "amp": "&", "lt": "<", "hash": "#", "quot": "\"", "apos": "'",
             "nul": "\0", "nonascii": "é", "astral": "\U0001f600"}
CTXS = "DRUSQ"


# ------------------------------------------------------------------ WHATWG reference (independent of the model)
def whatwg_numeric_value(v):
    if v == 0 or v > 0x10FFFF or 0xD800 <= v <= 0xDFFF:
        return 0xFFFD
    return C1.get(v, v)


def ref_charref(s, i, in_attr, out):
    """s[i-1] == '&' was consumed; WHATWG character reference state .. ; appends to out, returns new index"""
    n = len(s)
    if i < n and s[i] in ALNUM:
        best = None
        for ln in range(min(MAXNAME, n - i), 0, -1):
            if s[i:i + ln] in HTML5:
                best = ln
                break
        if best is None:
            out.append("&")           # ambiguous ampersand: the alphanumerics follow as ordinary characters
            return i
        name = s[i:i + best]
        nxt = s[i + best] if i + best < n else None
        if in_attr and name[-1] != ";" and nxt is not None and (nxt == "=" or nxt in ALNUM):
            out.append("&" + name)    # flush code points consumed as a character reference
            return i + best
        out.append(HTML5[name])
        return i + best
    if i < n and s[i] == "#":
        j = i + 1
        base, digs = 10, "0123456789"
        if j < n and s[j] in "xX":
            base, digs = 16, "0123456789abcdefABCDEF"
            j += 1
        k = j
        while k < n and s[k] in digs:
            k += 1
        if k == j:
            out.append(s[i - 1:j])    # absence-of-digits: flush '&#' / '&#x', reconsume
            return j
        v = int(s[j:k], base)
        if k < n and s[k] == ";":
            k += 1
        out.append(chr(whatwg_numeric_value(v)))
        return k
    out.append("&")
    return i


def normalize_newlines(s):
    return s.replace("\r\n", "\n").replace("\r", "\n")


def reference(ctx, closed, body):
    """expected observable: ('T', text) for D/R, ('A', value or None) for attribute contexts"""
    s = normalize_newlines(body)
    out = []
    i, n = 0, len(s)
    in_attr = ctx in "USQ"
    ended = False
    while i < n:
        c = s[i]
        i += 1
        if c == "&":
            i = ref_charref(s, i, in_attr, out)
        elif c == "\0":
            out.append("\0" if ctx == "D" else "�")
        elif ctx == "S" and c == "'" or ctx == "Q" and c == "\"" or ctx == "U" and (c in WS or c == ">"):
            ended = True
            break
        else:
            out.append(c)
    txt = "".join(out)
    if in_attr:
        return ("A", txt if closed else None)
    return ("T", txt)


# ------------------------------------------------------------------ cases
def admissible(ctx, body):
    if ctx in "DR":
        return "<" not in body[:-1]
    if ctx == "U":
        if not body or body[0] in WS + "\r\"'>" or ">" in body:
            return False
        return not any(c in WS + "\r" for c in body[:-1])
    if ctx == "S":
        return "'" not in body
    return "\"" not in body


def case_line(ctx, closed, exact, chunks):
    return "%s %s%s | %s" % (ctx, "c" if closed else "e", "x" if exact else "-",
                             " | ".join(" ".join(str(ord(c)) for c in ch) for ch in chunks))


def parse_case(line):
    g = line.split("|")
    h = g[0].split()
    chunks = ["".join(chr(int(x)) for x in p.split()) for p in g[1:]]
    return h[0], h[1][0] == "c", h[1][1] == "x", chunks


def split_all(body):
    return [[body[:i], body[i:]] for i in range(1, len(body))] + ([list(body)] if len(body) > 1 else [])


class Gen:
    def __init__(self, ck):
        self.ck = ck
        self.rng = ck.rng
        self.cases = []
        self.meta = []
        self.seen = set()

    def add(self, ctx, closed, exact, chunks, kind):
        body = "".join(chunks)
        if not admissible(ctx, body):
            return False
        if ctx in "DR":
            closed = False
        line = case_line(ctx, closed, exact, chunks)
        if line in self.seen:
            return False
        self.seen.add(line)
        self.cases.append(line)
        self.meta.append(kind)
        return True

    def closings(self, ctx):
        return [True] if ctx in "DR" else [True, False]


def name_forms(name):
    yield "exact", name
    yield "extended", name + "q"
    yield "truncated", name[:-1]


def numeric_text(rng, v, base, semi, zeros=0, marker=None, mixed=True):
    if base == 10:
        d = "%d" % v
        m = ""
    else:
        d = "%x" % v
        if mixed:
            d = "".join(ch.upper() if rng.random() < 0.5 else ch for ch in d)
        m = marker or rng.choice("xX")
    return "&#" + m + "0" * zeros + d + (";" if semi else "")


EDGE_VALUES = ([0, 1, 8, 9, 0xA, 0xB, 0xC, 0xD, 0xE, 0x1F, 0x20, 0x26, 0x3C, 0x41, 0x7E, 0x7F, 0xA0, 0xFF, 0x100, 0xD7FF,
                0xD800, 0xD801, 0xDBFF, 0xDC00, 0xDFFE, 0xDFFF, 0xE000, 0xFDCF, 0xFDD0, 0xFDEF, 0xFDF0, 0xFFFD, 0xFFFE,
                0xFFFF, 0x10000, 0x1FFFE, 0x1FFFF, 0x20000, 0xFFFFE, 0xFFFFF, 0x10FFFD, 0x10FFFE, 0x10FFFF, 0x110000,
                0x110001, 0x10FFFF + 9, 0x10FFFF + 16, 0x10FFFF * 10, 0x10FFFF * 16, 0x10FFFF * 16 + 15, 0x7FFFFFFF,
                0x80000000, 0xFFFFFFFF, 1 << 32, (1 << 32) + 65, (1 << 32) + 0x80, (1 << 32) + 0x9F, (1 << 32) + 0xD800,
                (1 << 32) + 0x10FFFF, (1 << 33) + 0x41, 3 * (1 << 32) + 0x263A, (1 << 36) + 0x41, 16 ** 8 + 0x41,
                10 ** 9, 10 ** 10 + 65, 10 ** 11 + 65, 999999999999, (1 << 40) + 65, (1 << 64) + 65, (1 << 32) * 10 + 65]
               + list(range(0x80, 0xA0)))


def gen_quick(g, n_chunked=700, n_exact=2500):
    rng = g.rng
    names = sorted(HTML5)
    fol_keys = list(FOLLOWERS)
    # A. every name, exact, in every context, a few followers
    for name in names:
        fks = ["eof", "eq", "lower"] + rng.sample(fol_keys, 2)
        for ctx in CTXS:
            for fk in fks:
                g.add(ctx, True, False, ["&" + name + FOLLOWERS[fk]], "named/exact/" + fk)
    # B. stratified sample of the other forms / prefixes / tails / unclosed attributes
    for _ in range(6000):
        name = rng.choice(names)
        form, text = rng.choice(list(name_forms(name)))
        fk = rng.choice(fol_keys)
        ctx = rng.choice(CTXS)
        prefix = rng.choice(["", "", "x", "\r", "&", "a=", "é"])
        tail = rng.choice(["", "", "z", "z;", "=", ";"]) if fk != "eof" else ""
        g.add(ctx, rng.random() < 0.8, False, [prefix + "&" + text + FOLLOWERS[fk] + tail], "named/%s/%s" % (form, fk))
    # C. numeric values across all ranges
    vals = EDGE_VALUES + [rng.randrange(0, 0x110000) for _ in range(250)] + \
        [rng.randrange(0x110000, 1 << 34) for _ in range(60)] + \
        [int("".join(rng.choice("0123456789") for _ in range(rng.randint(9, 12)))) for _ in range(60)]
    for v in vals:
        for base in (10, 16):
            for semi in (True, False):
                fk = rng.choice(fol_keys) if not semi else rng.choice(["eof", "lower", "digit", "semi", "amp"])
                fol = FOLLOWERS[fk]
                if not semi and fol and (fol in "0123456789" or (base == 16 and fol in "abcdefABCDEF")):
                    fol = "g"
                ctx = rng.choice(CTXS)
                zeros = rng.choice([0, 0, 0, 1, 3, 12])
                g.add(ctx, True, False, [numeric_text(rng, v, base, semi, zeros) + fol], "numeric/%d" % base)
                if v in C1 or v < 0x20:
                    g.add("D", True, False, [numeric_text(rng, v, base, semi) + fol], "numeric/%d" % base)
    # D. degenerate references
    for body in ["&", "&#", "&#x", "&#X", "&#;", "&#x;", "&#xg", "&#a", "&;", "&a", "&a;", "&1", "&1;", "&zzzz;", "&zzzz",
                 "&amp", "&am", "&a&b", "&&", "&#&", "&#x&#1;", "&=", "& ", "&\r", "&\n", "&<", "&#38;#38;", "&amp;amp;",
                 "&ampamp;", "&notit;", "&notin;", "&noti", "&not=", "&not", "&notx", "&not;=", "&lt=", "&lt;=",
                 "&#x0;", "&#0", "&#00000000000000000000065;", "&#x000000000000000000041;", "&CounterClockwiseContourIntegral;",
                 "&CounterClockwiseContourIntegral", "&CounterClockwiseContourIntegra;", "&#xD;x", "&#13;\n", "&é;", "&aé"]:
        for ctx in CTXS:
            for closed in (True, False):
                g.add(ctx, closed, False, [body], "degenerate")
                g.add(ctx, closed, True, [body], "degenerate")
    # E. random soup over the alphabet of references
    pool = list("&&&&##xX;;==<") + list("aAmpltgq19 \r\n") + ["amp", "not", "lt", "gt", "notin", "é", "\0", "\"", "'"]
    for _ in range(4000):
        body = "".join(rng.choice(pool) for _ in range(rng.randint(1, 10)))
        g.add(rng.choice(CTXS), rng.random() < 0.8, rng.random() < 0.2, [body], "soup")
    # F. chunkings: every split position and one-character chunks, for a sample of what is there
    base_cases = list(zip(g.cases, g.meta))
    for line, kind in rng.sample(base_cases, min(n_chunked, len(base_cases))):
        ctx, closed, exact, chunks = parse_case(line)
        for ch in split_all("".join(chunks)):
            g.add(ctx, closed, exact, ch, "chunked/" + kind.split("/")[0])
    # G. exact_errors on a sample
    for line, kind in rng.sample(base_cases, min(n_exact, len(base_cases))):
        ctx, closed, exact, chunks = parse_case(line)
        g.add(ctx, closed, True, chunks, "exact_errors/" + kind.split("/")[0])


def gen_thorough_named(g):
    names = sorted(HTML5)
    for name in names:
        for form, text in name_forms(name):
            for fk, fol in FOLLOWERS.items():
                for ctx in CTXS:
                    for closed in g.closings(ctx):
                        g.add(ctx, closed, False, ["&" + text + fol], "named/%s/%s" % (form, fk))
                        if fol:
                            g.add(ctx, closed, False, ["&" + text + fol + "z;"], "named/%s/%s+tail" % (form, fk))


def numeric_batch(lo, hi):
    """all values lo..hi-1, both bases, with and without ';', in data state (one line each, deterministic)"""
    lines = []
    for v in range(lo, hi):
        d, h = "%d" % v, "%x" % v
        for body in ("&#" + d + ";", "&#" + d, "&#x" + h + ";", "&#X" + h.upper() + "g"):
            lines.append(case_line("D", False, False, [body]))
    return lines


# ------------------------------------------------------------------ evaluation
def observable(line, ctx):
    """(T or A part, E part) of an output line"""
    parts = [p.strip() for p in line.split("|")]
    if len(parts) < 3 or not parts[0].startswith("T"):
        return None
    t = parts[0][1:].strip()
    a = parts[1][1:].strip()
    e = parts[2][1:].strip()
    return ((t if ctx in "DR" else a), e)


def expected_obs(ctx, closed, body):
    kind, val = reference(ctx, closed, body)
    if val is None:
        return "-"
    return " ".join(str(ord(c)) for c in val)


class Judge:
    def __init__(self, ck):
        self.ck = ck
        self.n = 0
        self.oracle_fail = 0
        self.disagree = 0
        self.nontrivial = set()
        self.hist = {}
        self.ctx_hist = {}
        self.delivered = 0

    def judge(self, cases, metas, impl_out, model_out):
        ck = self.ck
        for i, line in enumerate(cases):
            a, b = impl_out[i], model_out[i]
            ctx, closed, exact, chunks = parse_case(line)
            body = "".join(chunks)
            self.n += 1
            kind = metas[i] if metas else "numeric/exhaustive"
            self.hist[kind.split("/")[0]] = self.hist.get(kind.split("/")[0], 0) + 1
            self.ctx_hist[ctx] = self.ctx_hist.get(ctx, 0) + 1
            exp = expected_obs(ctx, closed, body)
            oa = observable(a, ctx)
            ob = observable(b, ctx)
            why = None
            if oa is None:
                why = "implementation gave %r" % a[:80]
            elif oa[0] != exp:
                why = "delivered %s, WHATWG reference says %s" % (oa[0] or "(nothing)", exp or "(nothing)")
            else:
                # a reference that resolved to something (not merely '&' + text)
                plain = " ".join(str(ord(c)) for c in normalize_newlines(body))
                if exp != "-" and exp != plain and "&" in body:
                    self.delivered += 1
                    self.nontrivial.add((ctx, body))
            if why:
                self.oracle_fail += 1
                if self.oracle_fail <= 5:
                    ck.violation("character reference resolves wrongly: %r in context %s: %s" % (body, ctx, why),
                                 {"kind": "failing-input", "case": line, "input_text": body, "context": ctx,
                                  "expected": exp, "impl": a, "model": b, "oracle": why})
            if oa != ob or oa is None:
                self.disagree += 1
                if not why and self.disagree <= 3:
                    ck.broken.append("correspondence char-ref model vs html5ever tokenizer: case %r impl %r model %r"
                                     % (line, a, b))


def run(ck):
    import gen_entities
    # 1. regenerate the tables from /repo
    try:
        rc, info = gen_entities.regenerate()
    except SystemExit:
        return ck.infra_fail("harness bin dump_entities does not build / run against /repo's working tree")
    table_diff = []
    if rc != 0:
        ck.broken.append("gen/gen_entities.py cannot translate finish_numeric / the dump: %s" % info["error"])
    if info["ents"] is not None:
        full = {"".join(map(chr, n)): (a, b) for n, a, b in info["ents"] if a != 0}
        for k in sorted(set(full) | set(HTML5)):
            w = HTML5.get(k)
            wv = (ord(w[0]), ord(w[1]) if len(w) > 1 else 0) if w else None
            if full.get(k) != wv:
                table_diff.append((k, full.get(k), wv))
        keys = {"".join(map(chr, n)) for n, a, b in info["ents"]}
        for k in sorted(HTML5):
            for j in range(1, len(k)):
                if k[:j] not in keys:
                    table_diff.append((k, "missing prefix " + k[:j], None))
        if table_diff:
            ck.notes.append("compiled NAMED_ENTITIES differs from the WHATWG table at: %r" % table_diff[:10])
    if info["changed"]:
        ck.log("regenerated:", ", ".join(info["changed"]))
    # 2. proofs (the model is extracted by its own target so that it runs even when an obligation breaks)
    ok_ex, out_ex = ck.coq_make(["Extract/ExtractCharRef.vo"], timeout=900)
    if not ok_ex:
        return ck.infra_fail("the char-ref model does not extract:\n" + "\n".join(out_ex.strip().splitlines()[-12:]))
    proofs_ok = ck.coq_props()
    if not proofs_ok and table_diff:
        ck.broken.append("table diff (name, compiled, WHATWG): %r" % table_diff[:10])
    if proofs_ok and not ck.quick and not ck.replay:
        import vcommon
        with vcommon.Lock("coq"):
            rc_chk, out_chk = vcommon.sh("coqchk -silent -o -Q . HV HV.Props.C14", cwd=vcommon.COQ, timeout=1500)
        if rc_chk != 0 or "Axioms: <none>" not in out_chk:
            ck.broken.append("coqchk HV.Props.C14 failed: " + out_chk[-600:])
        else:
            ck.notes.append("coqchk -o HV.Props.C14: Axioms: <none>")
    # 3. harness + model
    bindir = ck.cargo_build(["charref"])
    impl = os.path.join(bindir, "charref")
    model = ck.ocaml_build("charref_model", "charref_model.ml", "charref_driver.ml")
    judge = Judge(ck)

    def run_batch(cases, metas):
        impl_out = ck.run_lines(impl, [], cases)
        model_out = ck.run_lines(model, [], cases)
        judge.judge(cases, metas, impl_out, model_out)

    samples = []
    if ck.replay:
        rp = json.load(open(ck.replay))
        if "case" in rp:
            run_batch([rp["case"]], ["replay"])
        samples = [rp.get("case", "")]
    else:
        g = Gen(ck)
        corpus = os.path.join(ROOT, "corpus", "c14.txt")
        if os.path.exists(corpus):
            for l in open(corpus):
                l = l.strip()
                if l and not l.startswith("#"):
                    ctx, closed, exact, chunks = parse_case(l)
                    g.add(ctx, closed, exact, chunks, "corpus")
        # references whose table rows differ come first: a changed row yields a concrete failing input
        for k, _, _ in table_diff[:50]:
            for ctx in CTXS:
                g.add(ctx, True, False, ["&" + k], "tablediff")
        if ck.quick:
            gen_quick(g)
        else:
            gen_thorough_named(g)
            gen_quick(g, n_chunked=30000, n_exact=100000)
        ck.log("%d cases generated" % len(g.cases))
        samples = g.cases[:2] + g.cases[len(g.cases) // 2:len(g.cases) // 2 + 2]
        run_batch(g.cases, g.meta)
        if not ck.quick:
            step = 0x8000
            for lo in range(0, 0x110001, step):
                cases = numeric_batch(lo, min(lo + step, 0x110001))
                run_batch(cases, None)
            ck.log("exhaustive numeric sweep done")
    ck.cov.update({
        "evaluations": judge.n, "distinct_nontrivial": len(judge.nontrivial),
        "rule": "non-trivial = distinct (context, text) in which at least one character reference was RESOLVED "
                "(the delivered text differs from the newline-normalised input) and the implementation agreed with "
                "the WHATWG reference; quick: all 2231 WHATWG names exact x 5 contexts x 5 followers, 6000 stratified "
                "extended/truncated/prefixed forms, ~450 numeric values (every C1 value, surrogate and plane edges, "
                "0x10FFFF+-1, u32 wrap-arounds, 9-20 digit strings, leading zeros) x 2 bases x ;/no-; , degenerate forms, "
                "random soup, every split position for 700 cases, exact_errors for 2500; thorough adds 2231 names x 3 "
                "forms x 17 followers x 5 contexts x closed/EOF (+tail) and every numeric value 0..0x110000 in both bases",
        "samples": samples, "kind_histogram": judge.hist, "context_histogram": judge.ctx_hist,
        "correspondence_disagreements": judge.disagree, "oracle_failures": judge.oracle_fail,
        "table_rows_differing_from_whatwg": len(table_diff),
        "explanation": "Props/C14.v: theorems over all inputs for the model + finite checks tying the regenerated tables "
                       "to the WHATWG table; the model is tied to char_ref/mod.rs by running the real tokenizer and the "
                       "extracted model on the same texts (delivered characters / attribute values and the sequence of "
                       "character-reference parse errors, with exact_errors also their payload); the WHATWG reference in "
                       "Python judges the implementation's own output and yields concrete failing references.",
    })
    return ck.finish(
        trusted=["Coq 8.16.1 kernel (coqc; vm_compute for the finite table checks)",
                 "Extraction (ExtrOcamlBasic only) + ocamlopt 4.13.1",
                 "gen/gen_entities.py (dump of the compiled phf map via harness bin dump_entities; fail-closed parser of "
                 "the finish_numeric match arms), ocaml/charref_driver.ml (emulation of the tokenizer's use of the "
                 "sub-tokenizer), harness/src/bin/charref.rs, lib/checks/c14.py generator + WHATWG reference",
                 "coq/CharRef/WhatwgEntities.v and the reference's table both come from CPython's html.entities.html5; "
                 "whatwg_numeric / whatwg_c1 transcribed by hand from the WHATWG text"],
        assumptions=["the tokenizer's reconsume flag is false while a character reference is consumed (peek = head of queue)",
                     "identifiers of the table are ASCII (checked: C14_table), so Rust byte lengths = character counts",
                     "correspondence preconditions: '<' only last in data/RCDATA bodies; unquoted attribute bodies "
                     "contain no '>' and white space only last; quoted bodies do not contain their quote"])
