"""C01 - html tokenization equals the WHATWG tokenization algorithm."""
import json
import os
import re
import tokchecks as K
import toklib as T
import vcommon

CLASS_REPS = ["\0", "\t", "\n", "\x0c", "\r", " ", "!", "\"", "#", "&", "'", "-", "/", ";", "<", "=", ">", "?", "[", "]", "`", ":",
              "0", "9", "A", "F", "G", "X", "Z", "a", "f", "g", "x", "z", "\x01", "\x7f", "é", "﻿", "�"]
CONT = ["", "x>", " a=b>y", "-->z", "\">'> q", "]]>&amp;</a>"]


def cell_cases(states, r, per=2):
    out = []
    for st in states:
        for c in CLASS_REPS:
            for k in r.sample(CONT, per):
                out.append(T.mk_case("h", [c + k], exact=False, bom=False, state=st, foreign=r.random() < 0.5,
                                     last=r.choice(["", "a", "title", "script"]),
                                     resp=r.choice(["", "a=Rrcdata,x=P"])))
    return out


def run(ck):
    bindir, model = K.setup(ck, props_targets=["Inst/InstGolden.vo"])
    states = json.load(open(os.path.join(vcommon.BUILD, "tokir_html.json")))["states"]
    n = 12000 if ck.quick else 150000
    corr = [T.gen_case(ck.rng, "h") for _ in range(n)]
    K.correspondence(ck, bindir, model, corr, "html tokenizer")
    # every (state, character class) cell, entered directly through TokenizerOpts::initial_state
    cells = cell_cases(states, ck.rng, per=1 if ck.quick else 4)
    K.correspondence(ck, bindir, model, cells, "html tokenizer (cell sweep)")
    # oracle: the golden (audited) table interpreted by the same semantics vs the implementation
    fails = 0
    if model is not None:
        allc = corr + cells
        impl = T.run_impl(ck, bindir, allc)
        gold = ck.run_lines(model, [T.ENT_FILE, "golden"], allc)
        for c, a, g in zip(allc, impl, gold):
            if T.obs(a, keep_errors=False, keep_lines=False, keep_log=False) != T.obs(g, keep_errors=False, keep_lines=False, keep_log=False):
                fails += 1
                if fails <= 3:
                    ck.violation("tokens differ from the WHATWG reference (golden table)",
                                 {"kind": "failing-input", "oracle": "golden", "case": T.describe(c), "impl": a[:800], "reference": g[:800]},
                                 case_class="golden-diff")
    # second oracle: an independent transcription of WHATWG 13.2.5 (lib/whatwg_tok.py, written from the standard, not from
    # the code or the translated tables) on the concatenated input: tokens without parse errors and line numbers
    import whatwg_tok as W
    wfail = wsup = 0
    if model is not None:
        dec = lambda w: "".join(chr(int(x)) for x in w.split())
        for c, a in zip(allc, impl):
            f = c.split("|")
            ex_, bom_, foreign_ = [int(x) for x in f[1].split()]
            try:
                exp = W.tokenize_case("".join(T.case_text(c)), state=f[2], last=dec(f[3]), resp=f[4], inject=dec(f[5]),
                                      foreign=bool(foreign_), bom=bool(bom_))
            except Exception as e:      # noqa  (a crash of the oracle is a broken check, not a finding)
                ck.broken.append("whatwg_tok.py failed on %s: %r" % (json.dumps(T.describe(c), ensure_ascii=True)[:300], e))
                break
            if exp is None:
                continue
            wsup += 1
            o = T.obs(a, keep_errors=False, keep_lines=False, keep_log=False)
            got = [b for b, _ in o[0]] if o[0] != "RAW" else ["RAW"]
            if got != exp:
                wfail += 1
                if wfail <= 3:
                    k = next((i for i, (x, y) in enumerate(zip(got, exp)) if x != y), min(len(got), len(exp)))
                    ck.violation("tokens differ from the WHATWG tokenization algorithm (independent transcription)",
                                 {"kind": "failing-input", "oracle": "whatwg_tok", "case": T.describe(c), "first_difference_at_token": k,
                                  "impl": got[max(0, k - 2):k + 3], "whatwg": exp[max(0, k - 2):k + 3]},
                                 case_class="whatwg-diff")
    ck.cov["whatwg_oracle_cases"] = wsup
    ck.cov["whatwg_oracle_failures"] = wfail
    ck.cov.update({
        "evaluations": len(corr) + 2 * len(cells), "distinct_nontrivial": len(set(corr)) + len(set(cells)),
        "rule": "grammar-generated html in %d start states x options x scripted sink answers, plus a sweep of every (state, character "
                "class) cell: %d concrete states x %d class representatives x continuations entered through initial_state; "
                "non-trivial = distinct case" % (len(set(T.HTML_STATES)), len(states), len(CLASS_REPS)),
        "samples": [T.describe(corr[0]), T.describe(cells[5])], "oracle_failures": fails,
        "explanation": "Props/C01.v (partial): regenerated table = golden table cell for cell + structural facts; the full refinement "
                       "statement against an independent WHATWG interpreter is not proved; tie = translator + correspondence.",
    })
    return ck.finish(trusted=K.TRUSTED + ["coq/Golden/GoldenHtmlTok.v: snapshot of the translated table audited by reading against WHATWG 13.2.5",
                                          "lib/whatwg_tok.py: independent Python transcription of WHATWG 13.2.5 (entity table: CPython html.entities.html5)"],
                     assumptions=["the golden table is a faithful transcription of WHATWG tokenization (audit by reading; no machine-readable spec offline)"])
