"""C08 - diagnostic and housekeeping options never change what is parsed."""
import tokchecks as K
import toklib as T


def run(ck):
    bindir, model = K.setup(ck)
    n = 6000 if ck.quick else 40000
    corr = [T.gen_case(ck.rng) for _ in range(n)]
    K.correspondence(ck, bindir, model, corr, "tokenizers")
    r = ck.rng
    hin = K.gen_inputs(ck, 3200 if ck.quick else 30000, "h")
    # long character runs (>= 16 bytes, the SIMD stride) with line breaks and stop characters at every lane offset
    for _ in range(800 if ck.quick else 5000):
        run_ = "".join(r.choice("abcdefgh \n\n\té") for _ in range(r.randint(14, 70)))
        k = r.randint(0, len(run_))
        hin.append(run_[:k] + r.choice(["<", "&", "\r", "\0", "\r\n", "&amp;", "<b>"]) + run_[k:])
    xin = K.gen_inputs(ck, 2400 if ck.quick else 20000, "x")
    e1, f1 = K.options_oracle(ck, bindir, "h", hin)
    e2, f2 = K.options_oracle(ck, bindir, "x", xin)
    e3, f3 = K.tree_options_oracle(ck, bindir, hin[: (1600 if ck.quick else 10000)])
    ck.cov.update({
        "evaluations": n + e1 + e2 + e3, "distinct_nontrivial": len(set(s for s in hin + xin if len(s) > 3)),
        "rule": "generated html/xml + long runs crossing the 16-byte SIMD stride; each input (one random chunking) under "
                "exact_errors on/off compared after stripping parse errors; discard_bom on vs off-with-leading-U+FEFF-removed; "
                "tree level: exact_errors, drop_doctype (tree minus the doctype node, same quirks mode); `profile` is not exercised "
                "(it only adds timing bookkeeping and prints a table to stdout)",
        "samples": hin[:2] + xin[:2], "oracle_failures": f1 + f2 + f3,
        "input_stats": {"html": K.stats(hin), "xml": K.stats(xin)},
        "explanation": "Props/C08.v over the regenerated tables; tie: translator + correspondence; oracles on the implementation.",
    })
    return ck.finish(trusted=K.TRUSTED, assumptions=["profile=true is assumed harmless: it wraps the same calls in time!() (read, not run)"])
