"""C04 - parsing is total: no panic, no hang, all input consumed, one EOF (html5ever + xml5ever)."""
import tokchecks as K
import toklib as T


def deep_inputs(ck):
    big = 20000 if ck.quick else 200000
    r = ck.rng
    out = []
    for name in ["div", "b", "table", "svg", "template", "select", "a", "p", "li", "math", "font", "nobr", "button", "form"]:
        out.append(("<%s>" % name) * big)
        out.append(("<%s>" % name) * (big // 4) + "x" + ("</%s>" % name) * (big // 4))
    out.append("<b><i><u><s><em>" * (big // 5) + "<p>x</b>" * 50)
    out.append("<table><tr><td>" * (big // 3))
    out.append("<" * big)
    out.append("&" * big)
    out.append("<!--" + "-" * big)
    out.append("<a " + "x=y " * (big // 4) + ">")
    out.append("&#" + "9" * big + ";")
    out.append("a" * (big * 5))
    out.append("<![CDATA[" * (big // 9))
    out.append("<svg>" + "<![CDATA[x]]>" * (big // 13))
    out.append("<!DOCTYPE " + "x" * big)
    return out


def run(ck):
    bindir, model = K.setup(ck)
    n = 5000 if ck.quick else 80000
    corr = [T.gen_case(ck.rng) for _ in range(n)]
    K.correspondence(ck, bindir, model, corr, "tokenizers")
    e1, f1 = K.totality_oracle(ck, bindir, corr, "tokenizer")
    # junk and pathological inputs through the tokenizers in every start state
    r = ck.rng
    junk = []
    for _ in range(3000 if ck.quick else 50000):
        s = T.gen_junk(r)
        for st in r.sample(T.HTML_STATES, 2):
            junk.append(T.mk_case("h", r.choice(T.chunkings(r, s, 1)), exact=r.random() < 0.5, state=st, foreign=r.random() < 0.5,
                                  last=r.choice(["", "a", "script"]), resp=r.choice(T.RESPS)))
        junk.append(T.mk_case("x", r.choice(T.chunkings(r, s, 1)), exact=r.random() < 0.5, state=r.choice(["Data", "Cdata", "Comment", "Pi", "TagState"])))
    # end of input inside every part of a tag / comment / doctype / reference, with every scripted sink answer: what the
    # sink answers to a token that only the end of the input completes must not keep the EOF token from being delivered
    TAILS = ["<%s", "<%s ", "<%s a", "<%s a=", "<%s a=\"x", "<%s a='x", "<%s a=x", "<%s a=\"x\"", "<%s/", "</%s", "</%s ", "</%s\r",
             "</%s a", "</%s/", "<%s></%s", "<!--%s", "<!--%s-", "<!--%s--", "<!DOCTYPE %s", "<?%s", "<?%s x", "<![CDATA[%s", "&%s", "&#%s"]
    for fl_, resps in (("h", T.RESPS), ("x", ["", "script=S"])):
        for name in ["script", "title", "a", "plaintext", "meta", "p"]:
            for t in TAILS:
                tail = t.replace("%s", name)
                for pre in ["", "<r>", "<script>x"]:
                    for resp in resps:
                        junk.append(T.mk_case(fl_, [pre + tail], exact=r.random() < 0.5, resp=resp,
                                              inject=r.choice(["", "<c/>"]) if "=S" in resp else ""))
    e2, f2 = K.totality_oracle(ck, bindir, junk, "tokenizer on junk")
    # whole parsers: every fragment context, deep nesting, long inputs
    tcases = []
    ctxs = ["", "html:div", "html:table", "html:tr", "html:td", "html:select", "html:template", "html:title", "html:script",
            "html:textarea", "html:plaintext", "html:frameset", "html:head", "html:html", "html:body", "html:caption",
            "html:colgroup", "html:tbody", "html:option", "html:noscript", "html:style", "svg:svg", "svg:title", "svg:foreignObject",
            "math:math", "math:mi", "math:annotation-xml", "html:iframe", "html:xmp", "html:noembed", "html:noframes"]
    ins = K.gen_inputs(ck, 1200 if ck.quick else 20000, "h")
    for s in ins:
        ch = r.choice(T.chunkings(r, s, 1))
        tcases.append(K.htree_case(ch, exact=int(r.random() < 0.3), scripting=int(r.random() < 0.5), srcdoc=int(r.random() < 0.2),
                                   quirks=r.choice([0, 0, 1, 2]), dropdt=int(r.random() < 0.2), ctx=r.choice(ctxs)))
        tcases.append(K.xtree_case(ch, exact=int(r.random() < 0.3)))
    # fragment parsing: end tags (and start tags) of the context element itself and of the table / template / select
    # family, followed by more input - the open-element stack is nearly empty there and "pop until" rules meet the root
    for ctx in ctxs:
        if not ctx:
            continue
        name = ctx.split(":")[1]
        for nm in {name, "template", "table", "select", "body", "html", "td", "p"}:
            for tail in ["x", "<p>y", "<!--c-->z", " ", "</%s>w" % nm, "<%s>v" % nm]:
                tcases.append(K.htree_case(["</%s>%s" % (nm, tail)], ctx=ctx))
                tcases.append(K.htree_case(["<%s></%s></%s>%s" % (nm, nm, nm, tail)], ctx=ctx, scripting=int(r.random() < 0.5)))
    for s in deep_inputs(ck):
        tcases.append(K.htree_case([s]))
        tcases.append(K.htree_case([s], ctx="html:div"))
        tcases.append(K.xtree_case([s]))
    e3, f3 = K.tree_totality_oracle(ck, bindir, tcases)
    ck.cov.update({
        "evaluations": e1 + e2 + e3, "distinct_nontrivial": len(set(corr)) + len(set(junk)),
        "rule": "tokenizer cases (grammar + junk) in every listed start state, all option combinations, random chunkings, scripted sink "
                "answers; whole-parser cases over 31 fragment contexts, scripting/srcdoc/quirks/drop_doctype options, and pathological "
                "inputs (nesting depth %d for 14 element kinds, long runs of '<', '&', '-', digits, attributes); oracle: no panic/abort/"
                "timeout, queue empty whenever feed() returns Done, exactly one EOF token and it is the last; non-trivial = distinct case"
                % (20000 if ck.quick else 200000),
        "samples": [T.describe(c) for c in corr[:2]] + [tcases[0][:200]], "oracle_failures": f1 + f2 + f3,
        "explanation": "Props/C04.v: reflective termination/no-panic checks on the regenerated tables; tie: translator + correspondence; "
                       "stack depth and wall-clock are runtime facts exercised by the harness only.",
    })
    return ck.finish(trusted=K.TRUSTED, assumptions=["stack overflow / time are runtime behaviour: exercised (deep nesting, long inputs), not proved",
                                                      "contract-abiding sink: the scripted sink answers non-Continue only on tag tokens"])
