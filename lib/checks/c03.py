"""C03 - output independent of chunking, pausing and resuming (html5ever)."""
import tokchecks as K
import toklib as T


def run(ck):
    bindir, model = K.setup(ck)
    n = 6000 if ck.quick else 40000
    corr = [T.gen_case(ck.rng, "h") for _ in range(n)]
    K.correspondence(ck, bindir, model, corr)
    K.reference_leg(ck, model, corr)
    inputs = K.gen_inputs(ck, 2800 if ck.quick else 20000, "h")
    e1, f1 = K.chunk_oracle(ck, bindir, "h", inputs, "C03")
    # the tree-level oracle gets tree-structured documents only (tables with text, templates, select, foreign content ...):
    # every one is run whole, in one-character chunks (every character token cut everywhere) and in random chunkings
    import treelib as TL
    tree_inputs = [TL.gen_tree_html(ck.rng) for _ in range(3000 if ck.quick else 20000)]
    e2, f2 = K.tree_chunk_oracle(ck, bindir, "h", tree_inputs + inputs[: (600 if ck.quick else 4000)])
    e3, f3 = K.script_inject_oracle(ck, bindir, model, inputs[: (1600 if ck.quick else 8000)])
    ck.cov.update({
        "evaluations": n + e1 + e2 + e3, "distinct_nontrivial": len(set(s for s in inputs if len(s) > 3 and ("<" in s or "&" in s))),
        "rule": "grammar-generated html (tags, attributes, comments, doctypes, raw text elements, CDATA, char refs, CR/LF/NUL/BOM "
                "in every position) + junk; each input run whole, one-char chunks, random chunkings, every two-way split (short inputs); "
                "non-trivial = distinct input longer than 3 chars containing markup or a reference",
        "samples": [T.describe(c) for c in corr[:2]] + inputs[:2],
        "oracle_runs": {"token_chunking": e1, "tree_chunking": e2, "script_inject": e3},
        "oracle_failures": f1 + f2 + f3, "input_stats": K.stats(inputs),
        "explanation": "Props/C03.v: theorems over the TokIR interpreter applied to the regenerated table; tie: translator + "
                       "correspondence; oracle: metamorphic chunking / injection runs on the implementation.",
    })
    return ck.finish(trusted=K.TRUSTED, assumptions=["sink contract: non-Continue results only for tag tokens",
                                                      "tokenizer-level runs use a scripted sink; tree-level runs use RcDom"])
