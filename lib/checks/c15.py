"""C15 - xml5ever parse result independent of chunking and diagnostic options; CR/CRLF/NUL normalised on every path."""
import tokchecks as K
import toklib as T


def run(ck):
    bindir, model = K.setup(ck)
    n = 6000 if ck.quick else 40000
    corr = [T.gen_case(ck.rng, "x") for _ in range(n)]
    K.correspondence(ck, bindir, model, corr, "xml tokenizer")
    K.reference_leg(ck, model, corr)
    inputs = K.gen_inputs(ck, 3600 if ck.quick else 30000, "x")
    r = ck.rng
    # line breaks / NUL next to references, in attribute values, doctypes, comments
    for _ in range(1200 if ck.quick else 8000):
        inputs.append("<a b=%s>%s</a>%s" % (r.choice(['"x\ry\0"', "'\r\n'", "v\r", '"&amp\r"', '"&#10;\r\n"']),
                                               r.choice(["p\0q", "&amp\rX", "&\rX", "&#65\r\n", "&lt;\r", "\r\r\n\n", "&x;\r"]),
                                               r.choice(["", "<!DOCTYPE a\r\npublic \"x\">", "<!--\r\0-->", "<?p \r\n?>", "<![CDATA[\r\0]]>"])))
    e1, f1 = K.chunk_oracle(ck, bindir, "x", inputs, "C15")
    e2, f2 = K.tree_chunk_oracle(ck, bindir, "x", inputs[: (2000 if ck.quick else 15000)])
    e3, f3 = K.options_oracle(ck, bindir, "x", inputs[: (2000 if ck.quick else 15000)])
    e4, f4 = K.xml_normalisation_oracle(ck, bindir, inputs)
    ck.cov.update({
        "evaluations": n + e1 + e2 + e3 + e4,
        "distinct_nontrivial": len(set(s for s in inputs if ("\r" in s or "\0" in s or "&" in s) and len(s) > 3)),
        "rule": "grammar-generated xml (tags, attrs, PIs, comments, doctypes, CDATA, references; CR/LF/NUL/BOM everywhere) + junk + "
                "a directed family with line breaks next to references; oracles: chunking (tokens and tree), exact_errors and "
                "discard_bom metamorphic runs, tree(x) = tree(normalise(x)); non-trivial = distinct input with CR, NUL or a reference",
        "samples": inputs[:2] + inputs[-2:], "oracle_failures": f1 + f2 + f3 + f4, "input_stats": K.stats(inputs),
        "oracle_runs": {"token_chunking": e1, "tree_chunking": e2, "options": e3, "normalisation": e4},
        "explanation": "Props/C15.v over the regenerated xml table; tie: translator + correspondence; oracles on the implementation.",
    })
    return ck.finish(trusted=K.TRUSTED, assumptions=["tree-level runs use RcDom via xml5ever::driver"])
