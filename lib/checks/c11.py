"""C11 - Tendrils behave as independent owned strings under every operation.

proof      : coq/Props/C11.v  (heap model of tendril.rs refines a pool of independent byte
             strings for all operation histories; copy-on-write frame property; UTF-8 validity)
tie        : correspondence - random operation histories through the real crate
             (harness bin `tendril`, both atomicities, all five formats) and through the
             extracted Coq model (ocaml/tendril_driver.ml); bytes, len32, inline/owned/shared
             kind and the Alloc/Realloc/Free event sequence of every step are compared
oracle     : an independent Python bytes/str model of the property itself, evaluated on the
             implementation's outputs (never on Rust string slicing)
"""
import json
import os

ROOT = os.path.dirname(os.path.dirname(os.path.dirname(os.path.abspath(__file__))))
FMT_CH = "bualw"           # Bytes UTF8 ASCII Latin1 WTF8
BYTES, UTF8, ASCII, LATIN1, WTF8 = range(5)
CHARFMT = (UTF8, ASCII, LATIN1)
# classes of the two repaired WTF-8 findings (known_findings.json: status fixed, so a
# recurrence is reported as a VIOLATION carrying the class)
KF_WTF8 = "C11:wtf8-validate-accepts-stray-continuation-byte"
KF_WTF8_MERGE = "C11:wtf8-pusht-adjacent-merge-skips-fixup"

CHAR_POOL = [0x61, 0x62, 0x7A, 0x41, 0x30, 0x20, 0x0A, 0x00, 0x7F, 0x80, 0xA0, 0xE9, 0xFF, 0x100, 0x7FF, 0x800,
             0x20AC, 0xD7FF, 0xE000, 0xFFFD, 0xFFFF, 0x10000, 0x1F4A9, 0x10FFFF]
LENS = [0, 0, 1, 2, 3, 7, 8, 8, 9, 9, 10, 15, 16, 16, 17, 17, 24, 31, 32, 33, 40, 63, 64, 65, 100]
SURR = [0xD800, 0xDBFF, 0xDC00, 0xDFFF, 0xD83D, 0xDCA9]


# ------------------------------------------------------------------------------------------
# validity of a byte string in a format (the specification, not the implementation's way)
# ------------------------------------------------------------------------------------------
def wtf8_decode(b):
    """code points (surrogates allowed) or None"""
    try:
        return [ord(c) for c in b.decode("utf-8", "surrogatepass")]
    except UnicodeDecodeError:
        return None


def is_lead(c):
    return 0xD800 <= c <= 0xDBFF


def is_trail(c):
    return 0xDC00 <= c <= 0xDFFF


def valid(f, b):
    if f in (BYTES, LATIN1):
        return True
    if f == ASCII:
        return all(x < 128 for x in b)
    if f == UTF8:
        try:
            b.decode("utf-8")
            return True
        except UnicodeDecodeError:
            return False
    cps = wtf8_decode(b)
    if cps is None:
        return False
    return not any(is_lead(x) and is_trail(y) for x, y in zip(cps, cps[1:]))


def wtf8_encode(cps):
    return "".join(map(chr, cps)).encode("utf-8", "surrogatepass")


def concat(f, a, b):
    if f != WTF8:
        return a + b
    ca, cb = wtf8_decode(a), wtf8_decode(b)
    if ca and cb and is_lead(ca[-1]) and is_trail(cb[0]):
        joined = 0x10000 + ((ca[-1] - 0xD800) << 10) + (cb[0] - 0xDC00)
        return wtf8_encode(ca[:-1] + [joined] + cb[1:])
    return a + b


def stray_continuation_class(b):
    """True iff the first point where b stops being WTF-8 is a continuation byte directly after
    a complete multi-byte sequence (the signature of the futf::classify rewind defect: the
    validating loop re-reads the previous sequence from there and skips what follows)"""
    i, n, lastw = 0, len(b), 0
    while i < n:
        x = b[i]
        w = 1 if x < 0x80 else 2 if 0xC2 <= x < 0xE0 else 3 if 0xE0 <= x < 0xF0 else 4 if 0xF0 <= x < 0xF5 else 0
        if w == 0 or i + w > n or wtf8_decode(b[i:i + w]) is None:
            return 0x80 <= x < 0xC0 and lastw > 1
        i += w
        lastw = w
    return False


def chars_of(f, b):
    """[(code point, width)] of a valid buffer of a char format"""
    if f == UTF8:
        return [(ord(c), len(c.encode("utf-8"))) for c in b.decode("utf-8")]
    return [(x, 1) for x in b]


def classify_char(kind, m, c):
    return c % max(m, 1) if kind == 0 else (1 if c < m else 0)


def upper(b):
    return bytes(x - 32 if 97 <= x <= 122 else x for x in b)


# ------------------------------------------------------------------------------------------
# the reference: a pool of independent byte strings
# ------------------------------------------------------------------------------------------
class Ref:
    def __init__(self, n):
        self.p = [None] * n      # (fmt, bytes)

    def live(self, i):
        return 0 <= i < len(self.p) and self.p[i] is not None

    def apply(self, o):
        """o = list of tokens; returns the expected result token"""
        p = self.p
        k = o[0]
        a = [int(x) for x in o[1:]]
        n = len(p)
        if k == "new":
            d, f, b = a[0], a[1], bytes(a[3:])
            if d >= n:
                return "bad"
            if not valid(f, b):
                return "E0"
            p[d] = (f, b)
            return "ok"
        if k == "wcap":
            d, f = a[0], a[1]
            if d >= n:
                return "bad"
            p[d] = (f, b"")
            return "ok"
        if k == "clone":
            d, s = a
            if not self.live(s) or d >= n:
                return "bad"
            p[d] = p[s]
            return "ok"
        if k == "drop":
            if not self.live(a[0]):
                return "bad"
            p[a[0]] = None
            return "ok"
        if k == "clear":
            if not self.live(a[0]):
                return "bad"
            p[a[0]] = (p[a[0]][0], b"")
            return "ok"
        if k == "push":
            s, b = a[0], bytes(a[2:])
            if not self.live(s):
                return "bad"
            f, cur = p[s]
            if not valid(f, b):
                return "E0"
            p[s] = (f, concat(f, cur, b))
            return "ok"
        if k == "pusht":
            d, s = a
            if not self.live(d) or not self.live(s) or d == s or p[d][0] != p[s][0]:
                return "bad"
            f = p[d][0]
            p[d] = (f, concat(f, p[d][1], p[s][1]))
            return "ok"
        if k in ("sub", "subp"):
            d, s, off, ln = a
            bang = "!" if k == "subp" else ""
            if not self.live(s) or d >= n:
                return "bad"
            f, cur = p[s]
            if off > len(cur) or ln > len(cur) - off:
                return bang + "E1"
            r = cur[off:off + ln]
            if not valid(f, r):
                return bang + "E2"
            p[d] = (f, r)
            return "ok"
        if k in ("popf", "popfp", "popb", "popbp"):
            s, m = a
            bang = "!" if k.endswith("p") else ""
            if not self.live(s):
                return "bad"
            f, cur = p[s]
            if m == 0:
                return "ok"
            if m > len(cur):
                return bang + "E1"
            r = cur[m:] if k.startswith("popf") else cur[:len(cur) - m]
            if not valid(f, r):
                return bang + "E2"
            p[s] = (f, r)
            return "ok"
        if k == "popc":
            s = a[0]
            if not self.live(s) or p[s][0] not in CHARFMT:
                return "bad"
            f, cur = p[s]
            if not cur:
                return "cnone"
            c, w = chars_of(f, cur)[0]
            p[s] = (f, cur[w:])
            return "c%d" % c
        if k == "popr":
            d, s, kind, m = a
            if not self.live(s) or p[s][0] not in CHARFMT or d >= n:
                return "bad"
            f, cur = p[s]
            if not cur:
                return "knone"
            cs = chars_of(f, cur)
            cl = classify_char(kind, m, cs[0][0])
            w = 0
            for c, cw in cs:
                if classify_char(kind, m, c) != cl:
                    break
                w += cw
            p[s] = (f, cur[w:])
            p[d] = (f, cur[:w])
            return "k%d" % cl
        if k == "pushc":
            s, c = a
            if not self.live(s) or p[s][0] not in CHARFMT or not (c < 0xD800 or 0xE000 <= c < 0x110000):
                return "bad"
            f, cur = p[s]
            if f == UTF8:
                e = chr(c).encode("utf-8")
            elif c > (0x7F if f == ASCII else 0xFF):
                return "E0"
            else:
                e = bytes([c])
            p[s] = (f, cur + e)
            return "ok"
        if k == "ext":
            s, m, b = a
            if not self.live(s) or p[s][0] != BYTES:
                return "bad"
            p[s] = (BYTES, p[s][1] + bytes([b]) * m)
            return "ok"
        if k == "send":
            d, s = a
            if not self.live(s) or d >= n:
                return "bad"
            v = p[s]
            p[s] = None
            p[d] = v
            return "ok"
        if k == "reint":
            s, g = a
            if not self.live(s):
                return "bad"
            if not valid(g, p[s][1]):
                return "E0"
            p[s] = (g, p[s][1])
            return "ok"
        if k == "reserve":
            return "ok" if self.live(a[0]) else "bad"
        if k == "setb":
            s, i, b = a
            if not self.live(s) or p[s][0] != BYTES or i >= len(p[s][1]) or b > 255:
                return "bad"
            cur = bytearray(p[s][1])
            cur[i] = b
            p[s] = (BYTES, bytes(cur))
            return "ok"
        if k == "upper":
            s = a[0]
            if not self.live(s) or p[s][0] not in (BYTES, UTF8):
                return "bad"
            p[s] = (p[s][0], upper(p[s][1]))
            return "ok"
        raise ValueError(k)


# ------------------------------------------------------------------------------------------
# generator (stateful: uses the reference to aim at boundaries)
# ------------------------------------------------------------------------------------------
def rand_content(rng, f, target=None, invalid_ok=False):
    n = rng.choice(LENS) if target is None else target
    if invalid_ok and rng.random() < 0.5:
        return bytes(rng.choice([0x80, 0xBF, 0xC0, 0xC3, 0xE2, 0xED, 0xF0, 0xFF, 0x41, 0xA9, 0x82, 0xA0])
                     for _ in range(max(1, min(n, 6))))
    if f == BYTES or f == LATIN1:
        return bytes(rng.choice([rng.randrange(256), 0x61 + rng.randrange(26), 0xC3, 0xA9]) for _ in range(n))
    if f == ASCII:
        return bytes(rng.randrange(128) for _ in range(n))
    out = b""
    while len(out) < n:
        if f == WTF8 and rng.random() < 0.25:
            c = rng.choice(SURR)
            if out and is_trail(c):
                cps = wtf8_decode(out)
                if cps and is_lead(cps[-1]):
                    continue
            out += chr(c).encode("utf-8", "surrogatepass")
        else:
            c = rng.choice(CHAR_POOL) if rng.random() < 0.6 else 0x61 + rng.randrange(26)
            out += chr(c).encode("utf-8")
    return out


def blist(b):
    return "%d %s" % (len(b), " ".join(map(str, b))) if b else "0"


def gen_wtf8_join(rng, npool=4):
    """two adjacent shared slices of one buffer whose junction carries (or nearly carries) a
    surrogate pair, reinterpreted as WTF-8 and joined with push_tendril"""
    atom = "A" if rng.random() < 0.5 else "N"
    left = bytes([0x61] * rng.choice([6, 9, 9, 13, 20]))
    right = bytes([0x62] * rng.choice([6, 9, 9, 13, 20]))
    lead = chr(rng.choice([0xD800, 0xD83D, 0xDBFF])).encode("utf-8", "surrogatepass")
    trail = chr(rng.choice([0xDC00, 0xDCA9, 0xDFFF])).encode("utf-8", "surrogatepass")
    k = rng.random()
    if k < 0.5:
        a, b = left + lead, trail + right
    elif k < 0.65:
        a, b = left + trail, lead + right
    elif k < 0.8:
        a, b = left + lead, chr(rng.choice([0x62, 0xE9, 0x20AC, 0x1F4A9])).encode("utf-8") + right
    else:
        a, b = left + chr(rng.choice([0xE9, 0xD7FF, 0xE000])).encode("utf-8"), trail + right
    ops = ["new 0 0 %s" % blist(a + b), "sub 1 0 0 %d" % len(a), "sub 2 0 %d %d" % (len(a), len(b))]
    if rng.random() < 0.8:
        ops += ["reint 1 4", "reint 2 4"]
    else:
        ops = ["new 0 4 %s" % blist(a + b)] + ops[1:]
    if rng.random() < 0.3:
        ops.append(rng.choice(["clone 3 1", "drop 0", "clone 3 2", "popf 1 1"]))
    ops.append("pusht 1 2")
    ops += rng.sample(["reint 1 1", "popb 1 3", "sub 3 1 %d 8" % max(0, len(a) - 4), "push 1 3 237 176 128", "pusht 1 2", "reint 1 0"], 2)
    return "%s %d ; %s" % (atom, npool, " ; ".join(ops))


def gen_history(rng, nops, npool=4):
    ref = Ref(npool)
    main = rng.choices([BYTES, UTF8, ASCII, LATIN1, WTF8], [32, 40, 8, 6, 14])[0]
    mixed = rng.random() < 0.2
    atom = "A" if rng.random() < 0.4 else "N"
    ops = []

    def fmt():
        return rng.randrange(5) if mixed and rng.random() < 0.5 else main

    def live():
        return [i for i in range(npool) if ref.p[i] is not None]

    def pick_pos(cur, f):
        # a position: boundary-biased, sometimes inside a char, sometimes past the end
        r = rng.random()
        if r < 0.08:
            return len(cur) + rng.randint(1, 3)
        if r < 0.5 or not cur:
            return rng.randint(0, len(cur))
        return rng.choice([0, 1, len(cur) - 1, len(cur), max(0, len(cur) - 8), max(0, len(cur) - 9), min(len(cur), 8), min(len(cur), 9)])

    for _ in range(nops):
        lv = live()
        r = rng.random()
        if not lv or r < 0.12:
            d = rng.randrange(npool)
            f = fmt()
            if rng.random() < 0.1:
                o = "wcap %d %d %d" % (d, f, rng.choice([0, 5, 8, 9, 16, 17, 33, 100]))
            else:
                o = "new %d %d %s" % (d, f, blist(rand_content(rng, f, invalid_ok=rng.random() < 0.15)))
        else:
            s = rng.choice(lv)
            f, cur = ref.p[s]
            d = rng.randrange(npool)
            k = rng.random()
            if k < 0.10:
                o = "clone %d %d" % (d, s)
            elif k < 0.15:
                o = "drop %d" % s
            elif k < 0.18:
                o = "clear %d" % s
            elif k < 0.33:
                tgt = rng.choice([0, 1, 1, 2, 3, 7, 8, 9, 16, 17, 30])
                o = "push %d %s" % (s, blist(rand_content(rng, f, tgt, invalid_ok=rng.random() < 0.12)))
            elif k < 0.43:
                same = [i for i in lv if i != s and ref.p[i][0] == f]
                if same:
                    o = "pusht %d %d" % (s, rng.choice(same))
                else:
                    o = "clone %d %d" % (d, s)
            elif k < 0.60:
                off = pick_pos(cur, f)
                r2 = rng.random()
                if r2 < 0.1:
                    ln = rng.randint(0, 3) + max(0, len(cur) - off)
                elif r2 < 0.3:
                    ln = max(0, len(cur) - off)
                elif r2 < 0.45:
                    ln = 0
                else:
                    ln = rng.randint(0, max(0, len(cur) - off))
                if rng.random() < 0.4:
                    ln = min(ln, rng.choice([8, 9, 10]))
                o = "%s %d %d %d %d" % ("subp" if rng.random() < 0.15 else "sub", d, s, off, ln)
            elif k < 0.70:
                m = pick_pos(cur, f) if rng.random() < 0.6 else rng.randint(0, 3)
                o = "%s %d %d" % (rng.choice(["popf", "popf", "popf", "popfp", "popb", "popb", "popb", "popbp"]), s, m)
            elif k < 0.76:
                o = "popc %d" % s if f in CHARFMT else "popf %d 1" % s
            elif k < 0.82:
                if f in CHARFMT:
                    kind = rng.randrange(2)
                    m = rng.choice([2, 3, 5]) if kind == 0 else rng.choice([0x80, 0x61, 0x800, 0x10000])
                    o = "popr %d %d %d %d" % (d, s, kind, m)
                else:
                    o = "sub %d %d 0 %d" % (d, s, min(len(cur), rng.choice([8, 9, 12])))
            elif k < 0.86:
                if f in CHARFMT:
                    o = "pushc %d %d" % (s, rng.choice(CHAR_POOL))
                elif f == BYTES:
                    o = "ext %d %d %d" % (s, rng.choice([0, 1, 3, 8, 9, 17, 40]), rng.randrange(256))
                else:
                    o = "clone %d %d" % (d, s)
            elif k < 0.90:
                o = "send %d %d" % (d, s)
            elif k < 0.94:
                o = "reint %d %d" % (s, rng.randrange(5))
            elif k < 0.96:
                o = "reserve %d %d" % (s, rng.choice([0, 1, 8, 9, 20, 60]))
            elif k < 0.98 and f == BYTES and cur:
                o = "setb %d %d %d" % (s, rng.randrange(len(cur)), rng.randrange(256))
            else:
                o = "upper %d" % s if f in (BYTES, UTF8) else "clear %d" % s
        ops.append(o)
        ref.apply(o.split())
    return "%s %d ; %s" % (atom, npool, " ; ".join(ops))


# ------------------------------------------------------------------------------------------
# parsing of driver output and the oracles
# ------------------------------------------------------------------------------------------
def parse_out(line):
    """[(result, events, [slot|None])...], end_part"""
    parts = line.split(" ; ")
    steps = []
    for st in parts[:-1]:
        head, _, slots = st.partition(" | ")
        res, _, ev = head.partition(" [")
        ev = [e for e in ev.rstrip("]").split(",") if e]
        sl = []
        for tok in slots.split():
            if tok == "-":
                sl.append(None)
            else:
                fk, ln, hx = tok.split(":")
                sl.append((FMT_CH.index(fk[0]), fk[1], int(ln), bytes.fromhex(hx)))
        steps.append((res, ev, sl))
    return steps, parts[-1]


def oracle_c11(case, out):
    """the property on the implementation's output; returns (why, class) or None"""
    hd, *ops = [x.strip() for x in case.split(";")]
    npool = int(hd.split()[1])
    try:
        steps, end = parse_out(out)
    except Exception as e:  # noqa
        return ("unparseable output (crash?): %r" % out[:200], None)
    if len(steps) != len(ops):
        return ("output has %d steps for %d operations: %s" % (len(steps), len(ops), out[-200:]), None)
    ref = Ref(npool)
    for i, (o, (res, ev, slots)) in enumerate(zip(ops, steps)):
        toks = o.split()
        before = list(ref.p)
        exp = ref.apply(toks)
        if res != exp:
            cls = None
            if exp == "E0" and res == "ok" and toks[0] in ("new", "push", "reint"):
                if toks[0] == "new" and int(toks[2]) == WTF8:
                    b = bytes(map(int, toks[4:]))
                elif toks[0] == "push" and before[int(toks[1])] and before[int(toks[1])][0] == WTF8:
                    b = bytes(map(int, toks[3:]))
                elif toks[0] == "reint" and int(toks[2]) == WTF8:
                    b = before[int(toks[1])][1]
                else:
                    b = None
                if b is not None and stray_continuation_class(b):
                    cls = KF_WTF8
            return ("step %d `%s`: result %s, independent-string model says %s" % (i, o, res, exp), cls)
        for j in range(npool):
            e, g = ref.p[j], slots[j] if j < len(slots) else None
            if (e is None) != (g is None):
                return ("step %d `%s`: slot %d liveness differs" % (i, o, j), None)
            if e is None:
                continue
            if g[0] != e[0] or g[3] != e[1] or g[2] != len(e[1]):
                what = "changed although the operation does not touch it" if before[j] == e and j not in map(int, [t for t in toks[1:3] if t.isdigit()]) else "differs"
                cls = None
                if toks[0] == "pusht" and e[0] == WTF8 and j == int(toks[1]) and before[j] and before[int(toks[2])] \
                        and g[3] == before[j][1] + before[int(toks[2])][1]:
                    cls = KF_WTF8_MERGE
                return ("step %d `%s`: slot %d %s: impl %s:%s len32=%d, independent-string model %s:%s" % (
                    i, o, j, what, FMT_CH[g[0]], g[3].hex(), g[2], FMT_CH[e[0]], e[1].hex()), cls)
            if not valid(g[0], g[3]):
                return ("step %d `%s`: slot %d holds bytes invalid for its format %s: %s" % (i, o, j, FMT_CH[g[0]], g[3].hex()), None)
    return None


def oracle_c12(out):
    """leak / double free / bounds signals of the checking allocator"""
    try:
        steps, end = parse_out(out)
    except Exception:  # noqa
        return "unparseable output (crash?): %r" % out[:200]
    if "ALLOC-ERRORS" in end:
        return "allocator reported " + end[end.index("ALLOC-ERRORS"):]
    if not end.startswith("END"):
        return "history did not finish: " + end[:100]
    if "live=0" not in end:
        return "tendril memory still live after dropping every tendril: " + end
    a = f = 0
    for res, ev, _ in steps + [("", [e for e in end[end.index("[") + 1:end.index("]")].split(",") if e], None)]:
        for e in ev:
            if e.startswith("LIVE-CHANGED"):
                return "a panicking operation changed the set of live buffers: " + e
            if e[0] == "X":
                return "free of a pointer that is not live (double free): " + e
            a += e[0] == "A"
            f += e[0] == "F"
    if a != f:
        return "allocations %d != frees %d" % (a, f)
    return None


def corpus_cases(name):
    p = os.path.join(ROOT, "corpus", name)
    if os.path.exists(p):
        return [l.strip() for l in open(p) if l.strip() and not l.startswith("#")]
    return []


def build_and_run(ck, cases):
    bindir = ck.cargo_build(["tendril"])
    # mutation experiments on a private copy of /repo: VERIF_TENDRIL_BINDIR points at the
    # directory holding a `tendril` harness binary built against that copy
    bindir = os.environ.get("VERIF_TENDRIL_BINDIR", bindir)
    model = ck.ocaml_build("tendril_model", "tendril_model.ml", "tendril_driver.ml")
    impl_out = ck.run_lines(os.path.join(bindir, "tendril"), [], cases)
    model_out = ck.run_lines(model, [], cases)
    return impl_out, model_out, bindir


def stats(cases, impl_out):
    opcount, kinds, fmts = {}, {}, {}
    trans = set()
    nontrivial = 0
    for c, out in zip(cases, impl_out):
        for o in c.split(";")[1:]:
            k = o.split()[0]
            opcount[k] = opcount.get(k, 0) + 1
        try:
            steps, _ = parse_out(out)
        except Exception:  # noqa
            continue
        prev = None
        shared = alloc = fail = False
        for res, ev, slots in steps:
            for j, s in enumerate(slots):
                if s:
                    kinds[s[1]] = kinds.get(s[1], 0) + 1
                    fmts[FMT_CH[s[0]]] = fmts.get(FMT_CH[s[0]], 0) + 1
                    if prev and j < len(prev) and prev[j] and prev[j][1] != s[1]:
                        trans.add(prev[j][1] + ">" + s[1])
                    shared |= s[1] == "s"
            alloc |= any(e[0] in "AR" for e in ev)
            fail |= res.lstrip("!").startswith("E")
            prev = slots
        nontrivial += shared and alloc and fail
    return opcount, kinds, fmts, sorted(trans), nontrivial


def run(ck):
    if ck.replay:
        rp = json.load(open(ck.replay))
        cases = [rp["case"]] if "case" in rp else []
    else:
        n = 12000 if ck.quick else 150000
        cases = corpus_cases("c11.txt")
        cases += [gen_history(ck.rng, ck.rng.randint(2, 22)) for _ in range(n)]
        cases += [gen_wtf8_join(ck.rng) for _ in range(n // 20)]
    ck.coq_props(extra_targets=["Extract/ExtractTendril.vo"])
    impl_out, model_out, _ = build_and_run(ck, cases)
    disagreements = oracle_fail = 0
    for c, a, b in zip(cases, impl_out, model_out):
        why = oracle_c11(c, a)
        if why:
            oracle_fail += 1
            if oracle_fail <= 3 or why[1]:
                ck.violation("tendril differs from an independent string: " + why[0],
                             {"kind": "failing-input", "case": c, "impl": a, "model": b, "oracle": why[0]},
                             case_class=why[1])
        if a != b:
            disagreements += 1
            if not why and disagreements <= 3:
                ck.broken.append("correspondence tendril model vs tendril.rs: case %r\n impl  %r\n model %r" % (c, a, b))
    opcount, kinds, fmts, trans, nontrivial = stats(cases, impl_out)
    ck.cov.update({
        "evaluations": len(cases), "distinct_nontrivial": nontrivial,
        "rule": "random histories (2-22 ops, pool of 4, both atomicities, five formats, lengths around 8/9, 16/17, 32/33, "
                "64/65; offsets at / inside / past multi-byte chars) plus WTF-8 junction histories (adjacent shared slices "
                "with a surrogate at the cut, joined by push_tendril); non-trivial = a history in which some tendril was "
                "shared AND a buffer was allocated or grown AND a checked operation failed",
        "samples": cases[:3], "op_histogram": opcount, "kind_histogram": kinds, "format_histogram": fmts,
        "representation_transitions_seen": trans,
        "correspondence_disagreements": disagreements, "oracle_failures": oracle_fail,
        "explanation": "Theorems of Props/C11.v hold for all histories of the heap model; the model is tied to tendril.rs / "
                       "buf32.rs / fmt.rs / futf.rs by running both on the same histories and comparing bytes, len32, "
                       "representation kind and allocator events after every step; the independent-string oracle is "
                       "evaluated on the implementation's own outputs.",
    })
    return ck.finish(
        trusted=["Coq 8.16.1 kernel (coqc; vm_compute only in Examples)", "Extraction (ExtrOcamlBasic only) + ocamlopt 4.13.1",
                 "ocaml/tendril_driver.ml, ocaml/conv.ml, harness/src/bin/tendril.rs, lib/checks/c11.py (generator, Python reference)",
                 "Rust std str::from_utf8 / Chars::next modelled by HV.Base.Utf8 decs / dec1"],
        assumptions=["64-bit target (Header is 16 bytes); Vec<Header>::with_capacity / reserve_exact allocate exactly the requested capacity",
                     "buffers stay below 4 GiB in the tie (the u32 overflow panics are modelled but not exercised)",
                     "classifier passed to pop_front_char_run is pure"])
