"""C09 - line numbers reported with tokens match the source (html5ever tokenizer)."""
import tokchecks as K
import toklib as T


def run(ck):
    bindir, model = K.setup(ck)
    n = 6000 if ck.quick else 40000
    corr = [T.gen_case(ck.rng, "h") for _ in range(n)]
    K.correspondence(ck, bindir, model, corr)
    inputs = K.gen_inputs(ck, 10000 if ck.quick else 80000, "h")
    # line breaks in every syntactic position: sprinkle CR / LF / CRLF into generated inputs
    r = ck.rng
    extra = []
    for s in inputs[: len(inputs) // 2]:
        if not s:
            continue
        k = r.randint(0, len(s))
        extra.append(s[:k] + r.choice(["\n", "\r", "\r\n", "\n\n", "\r\r", "\n\r"]) + s[k:])
    inputs += extra
    # long character runs (beyond the 16-byte SIMD stride) with line breaks in earlier blocks and a stop character later
    for _ in range(1200 if ck.quick else 8000):
        run_ = "".join(r.choice("abcdefgh \n\n\té") for _ in range(r.randint(20, 90)))
        k = r.randint(0, len(run_))
        inputs.append(run_[:k] + r.choice(["<b>", "&amp;", "\r", "\0", "\r\n", "<!--x-->"]) + run_[k:] + r.choice(["", "<i>", "\n"]))
    e1, f1 = K.line_oracle(ck, bindir, model, inputs)
    ck.cov.update({
        "evaluations": n + e1, "distinct_nontrivial": len(set(s for s in inputs if T.breaks(s) > 0)),
        "rule": "grammar-generated html with CR/LF/CRLF in every syntactic position (inside tags, between attribute name/=/value, "
                "quoted and unquoted values, comments, doctypes, after &name, raw text, CDATA), random chunkings and start states; "
                "oracle: EOF line = 1 + breaks(input); each token's line = 1 + breaks(input[:consumed]) with `consumed` the model's "
                "ghost counter (look-ahead held back is not consumed); non-trivial = distinct input containing a line break",
        "samples": inputs[:3], "oracle_failures": f1, "input_stats": K.stats(inputs),
        "explanation": "Props/C09.v over the regenerated table; tie: translator + correspondence; oracle on the implementation.",
    })
    return ck.finish(trusted=K.TRUSTED, assumptions=["the per-token expectation uses the model's consumed-character counter, itself "
                                                      "validated by token-stream correspondence on the same cases"])
