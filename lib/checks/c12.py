"""C12 - Tendril buffers are freed exactly once and never accessed out of bounds.

proof      : coq/Props/C12.v  (every history of the heap model emits a trace an independent
             allocator accepts - fresh Alloc, Free once with the real capacity, reads/writes
             inside a live buffer - and leaves nothing live; refcount invariant; all
             interleavings of atomic clone / drop / move steps, sequentially consistent: partial)
tie        : allocator-event correspondence - the Alloc/Realloc/Free sequence (with sizes) the
             checking global allocator of harness bin `tendril` observes for every operation
             equals the model's event sequence
oracle     : the checking allocator itself on the implementation: live table (double free, free
             of unknown pointer, wrong size), red zones (writes before / after a buffer),
             poisoned quarantine (writes after free), live count back to the baseline after
             dropping every tendril; thread soak over 8 threads with random drop orders
"""
import json
import os
import re

from checks import c11
from vcommon import sh


def gen_growth(rng, npool=4):
    """histories that walk a buffer through capacity doubling / sharing / unsharing"""
    f = rng.choice([0, 0, 1, 2, 3, 4])
    atom = "A" if rng.random() < 0.5 else "N"
    ops = []
    s = rng.randrange(npool)
    first = rng.choice([0, 1, 7, 8, 9, 15, 16, 17])
    byte = 0x61
    ops.append("new %d %d %s" % (s, f, c11.blist(bytes([byte]) * first)))
    total = first
    for _ in range(rng.randint(3, 14)):
        k = rng.random()
        if k < 0.55:
            n = rng.choice([1, 1, 2, 7, 8, 9, 15, 16, 17, 31, 33, 64, 129])
            if total + n > 1500:
                continue
            ops.append("push %d %s" % (s, c11.blist(bytes([byte]) * n)))
            total += n
        elif k < 0.65:
            d = rng.randrange(npool)
            ops.append("clone %d %d" % (d, s))
        elif k < 0.75:
            d = rng.randrange(npool)
            off = rng.randint(0, total)
            ops.append("sub %d %d %d %d" % (d, s, off, rng.randint(0, total - off)))
        elif k < 0.82:
            ops.append("reserve %d %d" % (s, rng.choice([0, 1, 9, 17, 100, 1000])))
        elif k < 0.88:
            n = rng.randint(0, total)
            ops.append("%s %d %d" % (rng.choice(["popf", "popb"]), s, n))
            total -= n
        elif k < 0.92:
            ops.append("clear %d" % s)
            total = 0
        elif k < 0.96:
            d = rng.randrange(npool)
            ops.append("send %d %d" % (d, s))
            s = d
        else:
            d = rng.randrange(npool)
            ops.append("wcap %d %d %d" % (d, f, rng.choice([0, 8, 9, 16, 17, 100, 1000])))
            if d == s:
                total = 0
    return "%s %d ; %s" % (atom, npool, " ; ".join(ops))


def run(ck):
    if ck.replay:
        rp = json.load(open(ck.replay))
        cases = [rp["case"]] if "case" in rp else []
        soak_seeds = [rp["soak_seed"]] if "soak_seed" in rp else []
        soak_rounds = rp.get("soak_rounds", 50)
    else:
        n = 8000 if ck.quick else 120000
        cases = c11.corpus_cases("c12.txt") + c11.corpus_cases("c11.txt")
        cases += [c11.gen_history(ck.rng, ck.rng.randint(2, 24)) for _ in range(n)]
        cases += [gen_growth(ck.rng) for _ in range(n // 2)]
        soak_seeds = [ck.rng.randrange(1, 1 << 30) for _ in range(12 if ck.quick else 64)]
        soak_rounds = 300 if ck.quick else 3000
    ck.coq_props(extra_targets=["Extract/ExtractTendril.vo"])
    impl_out, model_out, bindir = c11.build_and_run(ck, cases)
    disagreements = oracle_fail = 0
    events = {"A": 0, "R": 0, "F": 0}
    sizes = {}
    with_events = 0
    for c, a, b in zip(cases, impl_out, model_out):
        why = c11.oracle_c12(a)
        if why:
            oracle_fail += 1
            if oracle_fail <= 3:
                ck.violation("tendril memory discipline violated: " + why,
                             {"kind": "failing-input", "case": c, "impl": a, "model": b, "oracle": why})
        ea = re.findall(r"\[([^\]]*)\]", a)
        eb = re.findall(r"\[([^\]]*)\]", b)
        if ea != eb or a != b:
            disagreements += 1
            if not why and disagreements <= 3:
                what = "allocator events" if ea != eb else "observations"
                ck.broken.append("correspondence (%s) tendril model vs tendril.rs/buf32.rs: case %r\n impl  %r\n model %r" % (what, c, a, b))
        had = False
        for grp in ea:
            for e in grp.split(","):
                if e and e[0] in events:
                    events[e[0]] += 1
                    sizes[e[1:]] = sizes.get(e[1:], 0) + 1
                    had = True
        with_events += had
    # thread soak
    soak = []
    for sd in soak_seeds:
        rc, out = sh([os.path.join(bindir, "tendril"), "soak", str(sd), str(soak_rounds)], timeout=900)
        line = out.strip().splitlines()[-1] if out.strip() else ""
        kv = dict(x.split("=") for x in line.split()[1:] if "=" in x) if line.startswith("soak") else {}
        soak.append(kv)
        bad = [k for k in ("mismatches", "rounds_with_live_delta", "live_delta", "bytes_delta", "unknown_free",
                           "size", "redzone", "uaf") if kv.get(k) != "0"]
        if rc != 0 or not kv or bad:
            oracle_fail += 1
            ck.violation("thread soak (clones / SendTendrils over 8 threads, random drop order): rc=%s %s" % (rc, line or out[-300:]),
                         {"kind": "failing-input", "soak_seed": sd, "soak_rounds": soak_rounds, "output": out[-1000:],
                          "failed_counters": bad})
    ck.cov.update({
        "evaluations": len(cases) + len(soak_seeds), "distinct_nontrivial": with_events,
        "rule": "random operation histories (as C11) plus capacity-growth histories; non-trivial = history with at least "
                "one heap allocation; plus %d thread-soak runs of %d rounds (8 threads each)" % (len(soak_seeds), soak_rounds),
        "samples": cases[:2] + cases[-1:], "event_histogram": events,
        "capacity_histogram": dict(sorted(sizes.items(), key=lambda kv: -kv[1])[:12]),
        "soak": {"runs": len(soak), "ops": sum(int(k.get("ops", 0)) for k in soak),
                 "allocs": sum(int(k.get("allocs", 0)) for k in soak)},
        "correspondence_disagreements": disagreements, "oracle_failures": oracle_fail,
        "explanation": "Theorems of Props/C12.v hold for all histories / schedules of the models; the sequential model is "
                       "tied to the code by comparing its Alloc/Realloc/Free events (sizes) with what the checking global "
                       "allocator of the harness sees for every operation; the allocator's own checks and the soak are the "
                       "oracle on the implementation.",
    })
    return ck.finish(
        trusted=["Coq 8.16.1 kernel (coqc; vm_compute only in Examples)", "Extraction (ExtrOcamlBasic only) + ocamlopt 4.13.1",
                 "ocaml/tendril_driver.ml, ocaml/conv.ml, harness/src/bin/tendril.rs (checking allocator), lib/checks/c12.py, c11.py",
                 "thread model Tendril/TThreads.v is hand-written and tied to the code only by reading and by the soak"],
        assumptions=["atomics are sequentially consistent in the thread model (Relaxed/Release/Acquire and hardware not modelled)",
                     "64-bit target; Vec<Header> allocates exactly the requested capacity; System allocator is correct",
                     "reads out of bounds inside the red zone are not detected by the harness (only writes, and frees)"])
