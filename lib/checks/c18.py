"""C18 - trace_handles reports every node the tree builder still needs.

proof      : coq/Props/C18.v - (1) census lemma on the REGENERATED field lists of TreeBuilder / XmlTreeBuilder
             (gen/gen_handle_census.py -> coq/Gen/GenHandleCensus.v): every field whose type mentions Handle, and every
             Handle-carrying variant of the enums inside those types, is visited by trace_handles (vm_compute, fails
             closed when a field is added or a visit removed); (2) meta-theorem about the judge: Gc.gc_ok segs = true
             iff every handle handed to the sink in a later segment names a node that was connected to a traced handle
             at every earlier suspension point at which the node existed.
tie/oracle : monitored runs - html5ever (documents, fragments with/without form element) and xml5ever are driven chunk
             by chunk (harness bin `sinkmon`); after EVERY return of tokenizer.feed (chunk end, script pause, encoding
             indicator) and before end() the tree builder's trace_handles is called, the arena sink collects every node
             not connected to a traced handle and flags later uses; the extracted Gc.gc_check judges the recorded
             segments on the abstract DOM (incl. WHATWG option->selectedcontent cloning, which the arena sink does not
             perform).  Cross-checks: both collectors give the same verdict (and the same number of collected nodes per
             suspension point for traces without cloning); the collecting run makes exactly the calls of a run that
             is never suspended.
"""
import json
import os
import subprocess
import sys

from checks import c05 as L


def regen_census(ck):
    p = subprocess.run([sys.executable, os.path.join(L.ROOT, "gen", "gen_handle_census.py")], cwd=L.ROOT,
                       stdout=subprocess.PIPE, stderr=subprocess.STDOUT, text=True)
    ck.log(p.stdout.strip()[-300:])
    if p.returncode != 0:
        L.note_broken(ck, "gen/gen_handle_census.py could not translate the tree builders' struct / trace_handles: "
                         + p.stdout.strip()[-500:])
        return False
    return True


def census_witness():
    """which Handle-bearing fields are not traced, read from the generated file (for the failure report)"""
    import re
    try:
        txt = open(os.path.join(L.ROOT, "coq", "Gen", "GenHandleCensus.v")).read()
    except OSError:
        return {}
    out = {}
    for pre in ("html", "xml"):
        def lst(name):
            m = re.search(r"Definition %s_%s : [^=]*:= \[(.*?)\]\." % (pre, name), txt, flags=re.S)
            return re.findall(r'"([^"]*)"', m.group(1)) if m else []
        hf, tr = lst("handle_fields"), lst("traced_fields")
        out[pre] = {"handle_fields": hf, "traced_fields": tr, "untraced": [f for f in hf if f not in tr]}
    return out


# inputs aimed at handles that are held while detached from the document
TARGETED = [
    "<b><frameset>", "<b><i><frameset></frameset>", "<s><frameset></frameset></html> ", "<a><b><frameset>x",
    "<b><p>x</b>y", "<a><div><a>", "<b><i><p>1</b>2</i>3", "<a><table><a>", "<b><table><td></b><i>x</i>",
    "<form><form><input>", "<form><table><form><input></table><input>", "<form><div></form><input>",
    "<table><form></table><input>", "<template><form><input></template><input>",
    "<template><b><template><i>x</template>y</template>z", "<template><tr><td>x</template><b>", "<table><template><td>",
    "<table>x<tr>y<td>z</table>w", "<table><b><tr><td>x</td></tr>y</b>z", "<select><option><b>x</select>y",
    "<select><template><option></template></select>", "<table><select><option>a<tr>", "<head><template><b></head><i>",
    "<b><script>x</script>y</b>", "<svg><b><p>x", "<math><mi><b><table>", "<nobr><nobr><nobr>", "<b><b><b><b><p>x</b>",
    "<button><p><button>", "<a><svg><a>", "<p><b><i><u></p>x", "<dl><dd><b><dt></b>", "<li><b><li>x</b>",
    "<template shadowrootmode=open><b>x", "<div><template shadowrootmode=open>x</template></div>",
    "<body><b></body><i>x", "</html><b>x", "<frameset></frameset><noframes><b>", "<html><head></head><b><body a>",
    "<b><textarea></b>x</textarea>y", "<b><title>x</b></title>y", "<optgroup><b><option><i><optgroup>",
    "<select><selectedcontent><b><option selected>x</option>y", "<table><caption><b><table></caption>x",
    "<ruby><rb><b><rt>", "<h1><b><h2>x</b>", "<marquee><b></marquee>x</b>", "<object><b></object>x", "<a><p></a></p>x",
]
XML_TARGETED = ["<a><b></a>x</b>", "<a><b/><c></a><d/>", "<script/><a/>", "<a><script/>x</a>", "<!DOCTYPE a><a><b></b></a>",
                "<a></b></a><c/>", "<a><b><c></a>"]


def gen_gc_cases(rng, n):
    cases = []
    while len(cases) < n:
        r = rng.random()
        if r < 0.14:
            s = rng.choice(XML_TARGETED) + L.gen_xml_input(rng) if rng.random() < 0.4 else L.gen_xml_input(rng)
            kind, fl, ctx, form = "xml", "-", "-", False
        else:
            if rng.random() < 0.35:
                s = rng.choice(TARGETED) + "".join(rng.choice(L.ADOPT + L.GENERAL) for _ in range(rng.randint(0, 5)))
            else:
                s = L.gen_html_input(rng)
            fl = L.rand_flags(rng)
            if r < 0.36:
                kind, ctx, form = "frag", rng.choice(L.FRAG_CTX), rng.random() < 0.4
            else:
                kind, ctx, form = "html", "-", False
        # suspension schedules: one-character chunks, a random chunking, the whole input
        chs = []
        if 1 < len(s) <= 200:
            chs.append(list(s))
        chs.append(L.pick_chunking(rng, s, 0.0, 0.0))
        if rng.random() < 0.3:
            chs.append([s])
        for c in chs:
            cases.append(L.mk_case(kind, c, fl, ctx, form))
    return cases


def judge_batch(ck, impl, rng, cases, res, stats, nontriv, samples, failing):
    baseline = []           # (index, case without suspension)
    for idx, (case, (a, b)) in enumerate(zip(cases, res)):
        f = L.case_fields(case)
        stats[f["kind"]] += 1
        if "bad" in a:
            L.note_broken(ck, "sinkmon produced no result for %r: %s" % (case[:300], a["bad"]))
            continue
        if a["apanic"]:
            stats["tree_builder_panics"] += 1
            if stats["tree_builder_panics"] <= 2:
                # fail closed: a parse that cannot be judged is no evidence for the property
                L.note_broken(ck, "parse could not be judged because the tree builder panicked (C04's property): %s on %s" % (
                    a["trace"][:160], json.dumps(L.describe(case), ensure_ascii=True)[:300]))
            continue
        if "bad" in b:
            L.note_broken(ck, "model driver failed on the trace of %r: %s" % (case[:300], b["bad"]))
            continue
        stats["traces_judged"] += 1
        if f["form"]:
            stats["with_form_element"] += 1
        if len(f["chunks"]) > 1 and all(len(c) == 1 for c in f["chunks"]):
            stats["one_char_chunked"] += 1
        tr = a["trace"]
        nsusp = tr.count("#suspend")
        stats["suspension_points"] += nsusp
        # every feed() return beyond one per chunk (+ the initial one) is a script pause / encoding indicator
        stats["script_pauses"] += max(0, nsusp - 1 - len(f["chunks"]))
        coq_counts = [int(x) for x in b["COLLECTED"].split(",") if x != ""][:-1] if b["COLLECTED"] not in ("-", "") else []
        arena_counts = [int(x) for x in a["collected"].split(",") if x != ""]
        stats["suspension_points_collecting"] += sum(1 for x in coq_counts if x > 0)
        stats["nodes_collected"] += sum(coq_counts)
        rescued = [int(x) for x in a["rescued"].split(",") if x not in ("", "-")]
        stats["suspension_points_where_tracing_mattered"] += sum(1 for x in rescued if x > 0)
        if any(x > 0 for x in rescued):
            stats["parses_where_tracing_mattered"] += 1
        if any(x > 0 for x in coq_counts) or any(x > 0 for x in rescued):
            nontriv.add(hash(tr))
            if len(samples) < 3:
                samples.append(L.describe(case)["input"][:200])
        clone = "maybe_clone_an_option" in tr
        if clone:
            stats["clone_traces"] += 1
        if b["GC"] == "INCONSISTENT":
            L.note_broken(ck, "gc_ok and gc_check disagree on %r" % case[:300])
        coq_bad = b["GC"] != "ok"
        arena_bad = a["gc"] != "ok"
        # cross-check: the two collectors
        if not clone:
            if coq_bad != arena_bad:
                L.note_broken(ck, "the arena collector (%s) and Gc.gc_check (%s) disagree on %r" % (a["gc"][:80], b["GC"], case[:300]))
            elif coq_counts != arena_counts and not coq_bad:
                L.note_broken(ck, "the arena collector and Gc.gc_counts collect different numbers of nodes %s vs %s on %r" % (
                    arena_counts[:20], coq_counts[:20], case[:300]))
        if not a["rpanic"] and a["rtrace"] != tr:
            L.note_broken(ck, "TraceSink<RcDom> and TraceSink<ArenaSink> recorded different calls for %r" % case[:300])
        if coq_bad or arena_bad:
            stats["gc_bad"] += 1
            failing.append((case, a, b) if len(failing) < 500 else None)
        else:
            stats["gc_ok"] += 1
        if rng.random() < 0.2 and not ck.replay:
            baseline.append((idx, L.with_flags(case, f["flags"] + "n")))

    # "observes exactly the same parse": the suspended + collected run makes the calls of an unsuspended run
    if baseline:
        bl = [L.parse_impl(l) for l in ck.run_lines(impl, [], [c for _, c in baseline])]
        for (idx, c), d in zip(baseline, bl):
            a = res[idx][0]
            if "bad" in d or d["apanic"] or "bad" in a or a["apanic"]:
                continue
            stats["same_parse_compared"] += 1
            if L.trace_ops(d["trace"]) != L.trace_ops(a["trace"]) or d["aforest"] != a["aforest"]:
                ck.violation("calling trace_handles / collecting at the suspension points changes the parse",
                             {"kind": "failing-input", "case": cases[idx], "input": L.describe(cases[idx])},
                             case_class="suspension-changes-parse")



def run(ck):
    tr_ok = regen_census(ck)
    proofs_ok, impl, model = L.build(ck, extra_targets=["Inst/InstHandleCensus.vo"])
    if not proofs_ok:
        w = census_witness()
        bad = {k: v["untraced"] for k, v in w.items() if v["untraced"]}
        if bad:
            ck.notes.append("Handle-bearing fields that trace_handles does not visit: %s" % json.dumps(bad))
            ck.cov["untraced_handle_fields"] = bad
    ck.cov["census"] = census_witness()
    if model is None:
        return ck.finish(trusted=L.TRUSTED + ["gen/gen_handle_census.py (fail-closed field census)"])
    rng = ck.rng
    if ck.replay:
        rp = json.load(open(ck.replay))
        batches = [[rp["case"]] if "case" in rp else []]
    else:
        total = 150000 if ck.quick else 2000000
        bsz = 50000
        batches = [None] * ((total + bsz - 1) // bsz)

    stats = {"html": 0, "frag": 0, "xml": 0, "tree_builder_panics": 0, "traces_judged": 0, "suspension_points": 0,
             "suspension_points_collecting": 0, "nodes_collected": 0, "one_char_chunked": 0, "script_pauses": 0,
             "gc_ok": 0, "gc_bad": 0, "suspension_points_where_tracing_mattered": 0, "parses_where_tracing_mattered": 0,
             "clone_traces": 0, "same_parse_compared": 0, "with_form_element": 0}
    nontriv = set()
    samples = []
    failing = []
    evaluations = 0
    for bi, cases in enumerate(batches):
        if cases is None:
            cases = []
            if bi == 0:
                cases = L.load_corpus("c18.txt")
                for s in TARGETED:
                    for sc in ("s", "-"):
                        cases.append(L.mk_case("html", list(s), sc))
                        cases.append(L.mk_case("frag", list(s), sc, "html:div", True))
                for s in XML_TARGETED:
                    cases.append(L.mk_case("xml", list(s)))
            cases += gen_gc_cases(rng, bsz)
        evaluations += len(cases)
        res = L.run_all(ck, impl, model, cases, ["--gc"])
        judge_batch(ck, impl, rng, cases, res, stats, nontriv, samples, failing)
        if len(ck.broken) > 20:
            break

    by_class = {}
    for case, a, b in [f for f in failing if f is not None]:
        w = (a["gc"].split()[0].split(":") + ["?", "?"])[1] if a["gc"] not in ("ok", "-") else "model-only"
        cls = "use-after-collect:%s:%s" % (L.case_fields(case)["kind"], w)
        by_class.setdefault(cls, []).append((case, a, b))
    for cls, items in sorted(by_class.items()):
        case, a, b = min(items, key=lambda it: len(L.case_input(it[0])))
        ck.violation(
            "a node that trace_handles did not report (and that was not connected to a reported one) is handed to the "
            "sink after the suspension point: Coq %s, arena %s - %d failing cases of this class" % (b["GC"], a["gc"][:120], len(items)),
            {"kind": "failing-input", "case": case, "input": L.describe(case), "coq": b["GC"], "arena": a["gc"][:500],
             "trace_tail": L.trace_ops(a["trace"])[-15:]}, case_class=cls)

    ck.cov.update({
        "evaluations": evaluations, "distinct_nontrivial": len(nontriv),
        "rule": "one evaluation = one parse driven chunk by chunk with trace_handles + a simulated collection after every "
                "return of tokenizer.feed, judged by the extracted Gc.gc_check; non-trivial = distinct call traces in which "
                "at least one suspension point collected a node (a later use would have been flagged) or kept a node alive "
                "only through a traced handle other than the Document (a missing trace entry would have collected it)",
        "samples": samples, "case_counts": stats,
        "explanation": "Props/C18.v: census lemma on the regenerated field lists (all Handle fields are traced) and the "
                       "equivalence of the judge with the relational statement of the property.  That the traced handles "
                       "suffice on ALL inputs and schedules is established by the monitored runs counted here; the "
                       "argument 'every handle the tree builder passes later comes from a field, from a sink query or "
                       "from a creation in the same call' is not machine-checked (no tree-builder model yet).",
    })
    return ck.finish(
        trusted=L.TRUSTED + ["gen/gen_handle_census.py (fail-closed field census of struct TreeBuilder / XmlTreeBuilder "
                             "and of the statements of trace_handles)"],
        assumptions=["connectivity = children, parent, template contents, in both directions (a live node keeps its whole "
                     "tree alive, as DOM implementations with parent pointers do)",
                     "a script handle returned by a pause is the embedder's to root; the harness drops it",
                     "handles held in local variables across a suspension point do not exist: feed() only returns between "
                     "tokens (structure of process_to_completion), not checked mechanically",
                     "quantification over all inputs and schedules: monitored runs + census lemma"])
