"""C19 - Encoding indicators are raised exactly for meta-declared encodings.

proof      : coq/Props/C19.v - the byte-position model of encoding.rs equals the WHATWG extraction
             (transcribed on characters) for every scalar string, never panics, never runs out of fuel.
             C19_label_partial: the body of the in-head meta arm as a function of the tag's attributes
             (charset value, else http-equiv~content-type + extraction of content).
             NOT proved (needs the tree-builder model): which tokens reach that arm, element already in
             the tree, transparent resumption (C19_when) - covered by the implementation oracle below.
tie        : content strings through `<meta http-equiv=content-type content="...">` parsed by html5ever
             (harness bin `meta`, mode X) vs the extracted Coq model (ocaml/meta_driver.ml, mode X);
             the Coq transcription of WHATWG (mode Y) vs the Python reference used as the oracle.
oracle     : (a) Python reference of the WHATWG extraction judges every label of mode X;
             (b) whole documents with metas in many insertion-mode contexts / chunkings (mode D): an
             EncodingIndicator exactly once per inserted HTML meta that carries charset, or
             http-equiv~content-type + extractable content; label as stated; the element is in the tree
             when feed() returns; final tree equals the tree of the same document with the two attribute
             names neutralised (a parse that is never interrupted); all chunkings agree.
"""
import itertools
import json
import os
import re

ROOT = os.path.dirname(os.path.dirname(os.path.dirname(os.path.abspath(__file__))))

# ------------------------------------------------------------------ reference (WHATWG, on code points)
WS = "\t\n\x0c\r "
ASCII_LOWER = {c: c + 32 for c in range(0x41, 0x5B)}


def ascii_lower(s):
    return s.translate(ASCII_LOWER)


def whatwg_extract(s):
    """algorithm for extracting a character encoding from a meta element; returns the raw
    label (the substring handed to 'get an encoding') or None for 'nothing'"""
    n = len(s)
    low = ascii_lower(s)
    pos = 0
    while True:
        i = low.find("charset", pos)
        if i < 0:
            return None
        pos = i + 7
        while pos < n and s[pos] in WS:
            pos += 1
        if pos < n and s[pos] == "=":
            break
    pos += 1
    while pos < n and s[pos] in WS:
        pos += 1
    if pos >= n:
        return None
    c = s[pos]
    if c in "\"'":
        j = s.find(c, pos + 1)
        return None if j < 0 else s[pos + 1:j]
    j = pos
    while j < n and s[j] not in WS and s[j] != ";":
        j += 1
    return s[pos:j]


def hx(s):
    h = s.encode("utf8").hex()
    return h if h else "-"


def unhx(h):
    return bytes.fromhex(h).decode("utf8")


def expect_line(s):
    r = whatwg_extract(s)
    return "N" if r is None else "S" + r.encode("utf8").hex()


# ------------------------------------------------------------------ content strings
ALPHABET9 = ["charset", "chars", " ", "=", '"', "'", ";", "x", "é"]
CS_WORDS = ["charset", "CHARSET", "ChArSeT", "charse", "harset", "chars", "charſet", "charsetK",
            "c harset", "charsetcharset", "charcharset", "CHARSET=charset"]
WSS = [" ", "\t", "\n", "\x0c", "\r", "  ", " \t\r\n", "\x0b", " ", " ", ""]
LABELS = ["utf-8", "x", "", "é", "€", "\U0001f600", "a b", "a;b", "a'b", 'a"b', "UTF8", "=", "==x",
          "iso-8859-1", " ", "x y", "charset", "\x7f", "\x01"]
JUNK = ["text/html", "text/html;", "; ", ";", "/", "a", "é", "€\U0001f600", "=", "'", '"', "charset ",
        "charset;", "charset x", "x=", " ",
        # characters whose Unicode lower-/upper-casing changes their UTF-8 length (offsets found in a case-mapped copy
        # do not fit the original), or maps them onto ASCII letters
        "\u0130", "\u212a", "\u1e9e", "\u2126", "\u212b", "\u0130\u0130 ", "273 \u212a; ", "\xdf", "\ufb01", "\u0149", "\u01f0",
        "\u0130stanbul; "]


def structured(rng):
    parts = []
    for _ in range(rng.choice([0, 0, 1, 1, 2])):
        parts.append(rng.choice(JUNK))
    parts.append(rng.choice(CS_WORDS) if rng.random() < 0.5 else "charset")
    parts.append(rng.choice(WSS))
    parts.append("=" if rng.random() < 0.85 else rng.choice(["", ":", "==", "x"]))
    parts.append(rng.choice(WSS))
    q = rng.choice(["", "", '"', "'"])
    parts.append(q)
    parts.append(rng.choice(LABELS))
    parts.append(q if rng.random() < 0.7 else rng.choice(["", '"', "'"]))
    for _ in range(rng.choice([0, 0, 1, 2])):
        parts.append(rng.choice(JUNK + WSS))
    if rng.random() < 0.15:
        k = rng.randrange(len(parts))
        del parts[k]
    if rng.random() < 0.1:
        k = rng.randrange(len(parts))
        parts.insert(k, parts[k])
    return "".join(parts)


def all_upto(alphabet, n):
    for k in range(n + 1):
        for t in itertools.product(alphabet, repeat=k):
            yield "".join(t)


def content_strings(ck):
    out = []
    corpus = os.path.join(ROOT, "corpus", "c19_contents.txt")
    if os.path.exists(corpus):
        out += [json.loads(l) for l in open(corpus) if l.strip()]
    if ck.quick:
        out += list(all_upto(ALPHABET9, 6))            # 597871 strings
        out += list(all_upto(ALPHABET9[:-1] + ["\u0130"], 5))   # the same with a character that lower-cases to a longer one
        base = [structured(ck.rng) for _ in range(2500)]
    else:
        out += list(all_upto(ALPHABET9, 7))            # 5380840 strings
        out += list(all_upto(ALPHABET9[:-1] + ["\u0130"], 6))
        out += list(all_upto(ALPHABET9[:-1] + ["\u212a"], 5))
        base = [structured(ck.rng) for _ in range(20000)]
    for b in base:                                     # truncation at every character
        for i in range(len(b) + 1):
            out.append(b[:i])
    seen = set()
    res = []
    for s in out:
        if "\0" in s or s in seen:
            continue
        seen.add(s)
        res.append(s)
    return res


# ------------------------------------------------------------------ documents
A_CS, A_HE = "charset", "http-equiv"
N_CS, N_HE = "data-c19a", "data-c19b"        # neutral names: same tree, no indicator

# (name, fragment ctx, scripting, prefix, suffix, inserted?)   inserted: True / False = by construction
# (spec reading recorded in the comment), None = taken from the tree only
CONTEXTS = [
    ("initial", "-", 1, "", "", True),
    ("before-html", "-", 1, "<!DOCTYPE html>", "<p>x", True),
    ("before-head", "-", 1, "<!DOCTYPE html><html>", "", True),
    ("in-head", "-", 1, "<!DOCTYPE html><html><head><title>t</title>", "</head><body>x</body></html>", True),
    ("in-head-2", "-", 0, "<head>", "<script>1</script></head>", True),
    ("after-head", "-", 1, "<head></head>", "<body>x", True),
    ("in-body", "-", 1, "<body><p>a", "b</p>", True),
    ("in-body-fmt", "-", 1, "<body><b><i>a", "</b>c</i>", True),
    ("in-body-nested", "-", 1, "<div><ul><li><a href=x>", "</a></ul>", True),
    ("after-body", "-", 1, "<body>x</body>", "", True),
    ("after-after-body", "-", 1, "<body>x</body></html>", "", True),
    ("in-table", "-", 1, "<table>", "<tr><td>x</td></tr></table>", True),       # foster parented
    ("in-tbody", "-", 1, "<table><tbody>", "</table>", True),
    ("in-row", "-", 1, "<table><tr>", "<td>x</table>", True),
    ("in-cell", "-", 1, "<table><tr><td>", "x</table>", True),
    ("in-caption", "-", 1, "<table><caption>", "</caption></table>", True),
    ("in-colgroup", "-", 1, "<table><colgroup>", "<col></table>", True),
    ("in-table-text", "-", 1, "<table> a ", "</table>", True),
    ("in-select", "-", 1, "<select>", "<option>o</select>", None),
    ("in-option", "-", 1, "<select><option>o", "</select>", None),
    ("in-select-in-table", "-", 1, "<table><tr><td><select>", "</select></table>", None),
    ("in-template", "-", 1, "<template>", "</template>", True),
    ("in-template-row", "-", 1, "<template><tr>", "</template>", True),
    ("in-template-body", "-", 1, "<body><template><div>", "</div></template>", True),
    ("in-head-noscript-off", "-", 0, "<head><noscript>", "</noscript></head>", True),
    ("in-head-noscript-on", "-", 1, "<head><noscript>", "</noscript></head>", False),   # raw text
    ("in-body-noscript-off", "-", 0, "<body><noscript>", "</noscript>", True),
    ("in-body-noscript-on", "-", 1, "<body><noscript>", "</noscript>", False),
    ("svg-breakout", "-", 1, "<body><svg><g>", "</g></svg>", True),                   # meta breaks out of foreign content
    ("svg-title", "-", 1, "<svg><title>", "</title></svg>", True),                   # HTML integration point
    ("svg-desc", "-", 1, "<svg><desc>", "</desc></svg>", True),
    ("svg-foreignobject", "-", 1, "<svg><foreignObject>", "</foreignObject></svg>", True),
    ("svg-cdata", "-", 1, "<svg><![CDATA[", "]]></svg>", False),
    ("math-breakout", "-", 1, "<math><mrow>", "</mrow></math>", True),
    ("math-mtext", "-", 1, "<math><mtext>", "</mtext></math>", True),                # MathML text integration point
    ("math-annotation-html", "-", 1, "<math><annotation-xml encoding='text/html'>", "</annotation-xml></math>", True),
    ("math-annotation-other", "-", 1, "<math><annotation-xml encoding='x'>", "</annotation-xml></math>", True),
    ("in-frameset", "-", 1, "<frameset>", "</frameset>", False),                     # ignored
    ("after-frameset", "-", 1, "<frameset></frameset>", "", False),
    ("after-after-frameset", "-", 1, "<frameset></frameset></html>", "", False),
    ("rcdata-title", "-", 1, "<title>", "</title>", False),
    ("rcdata-textarea", "-", 1, "<textarea>", "</textarea>", False),
    ("rawtext-style", "-", 1, "<style>", "</style>", False),
    ("rawtext-xmp", "-", 1, "<xmp>", "</xmp>", False),
    ("rawtext-iframe", "-", 1, "<iframe>", "</iframe>", False),
    ("rawtext-noembed", "-", 1, "<noembed>", "</noembed>", False),
    ("rawtext-noframes", "-", 1, "<noframes>", "</noframes>", False),
    ("script", "-", 1, "<script>", "</script>", False),
    ("plaintext", "-", 1, "<plaintext>", "", False),
    ("comment", "-", 1, "<!--", "-->", False),
    ("frag-div", "html:div", 1, "", "", True),
    ("frag-body", "html:body", 1, "<p>", "", True),
    ("frag-head", "html:head", 1, "", "", True),
    ("frag-html", "html:html", 1, "", "", True),
    ("frag-table", "html:table", 1, "", "<tr>", True),
    ("frag-tr", "html:tr", 1, "", "<td>", True),
    ("frag-select", "html:select", 1, "", "", None),
    ("frag-template", "html:template", 1, "", "", True),
    ("frag-frameset", "html:frameset", 1, "", "", False),
    ("frag-title", "html:title", 1, "", "", False),
    ("frag-textarea", "html:textarea", 1, "", "", False),
    ("frag-style", "html:style", 1, "", "", False),
    ("frag-script", "html:script", 1, "", "", False),
    ("frag-plaintext", "html:plaintext", 1, "", "", False),
    ("frag-noscript-on", "html:noscript", 1, "", "", False),
    ("frag-noscript-off", "html:noscript", 0, "", "", True),
    ("frag-svg", "svg:svg", 1, "", "", True),          # breaks out: current node (root html) is an HTML element
    ("frag-svg-title", "svg:title", 1, "", "", True),
    ("frag-svg-foreignobject", "svg:foreignObject", 1, "", "", True),
    ("frag-math", "mathml:math", 1, "", "", True),
    ("frag-math-mtext", "mathml:mtext", 1, "", "", True),
]

HTTP_EQUIVS = ["content-type", "Content-Type", "CONTENT-TYPE", "cOnTeNt-TyPe", "content-type ", " content-type",
               "content_type", "contenttype", "content-typ", "refresh", "", "default-style", "content-typeK",
               "Kontent-type", "content-typE"]
CONTENTS = ["text/html; charset=utf-8", "charset=x", "text/html", "", "charset", "charset=", "charset='a b'",
            'charset="q', "charset = é;", "text/html;charset  =\t'k' x", "CHARSET=K;", "charset=;",
            "charset charset=z", "x charset= y z"]
CHARSETS = ["utf-8", "", "x", "é€", "a b", "UTF-8", "'q'", "windows-1252"]


def attr(name, value, rng):
    """one attribute in source form such that the tokenizer yields exactly `value`"""
    if value is None:
        return name
    esc = value.replace("&", "&amp;").replace("\r", "&#13;")
    q = rng.choice(['"', "'", ""]) if value and not any(c in value for c in " \t\n\x0c\r\"'=<>`") else rng.choice(['"', "'"])
    if q == '"':
        esc = esc.replace('"', "&quot;")
    elif q == "'":
        esc = esc.replace("'", "&#39;")
    return "%s=%s%s%s" % (name, q, esc, q)


def gen_tag(rng, strings):
    """returns (source with the real attribute names, source with the neutral names)"""
    r = rng.random()
    name = "meta"
    if r < 0.08:
        name = rng.choice(["link", "base", "basefont", "bgsound"])
    elif r < 0.12:
        name = rng.choice(["META", "Meta", "mEtA"])
    attrs = []      # (real name, neutral name, value)
    k = rng.random()
    he = rng.choice(HTTP_EQUIVS) if rng.random() < 0.5 else rng.choice(HTTP_EQUIVS[:4])
    content = rng.choice(CONTENTS) if rng.random() < 0.5 else rng.choice(strings)
    if k < 0.25:
        attrs.append((A_CS, N_CS, rng.choice(CHARSETS)))
    elif k < 0.75:
        attrs.append((A_HE, N_HE, he))
        attrs.append(("content", "content", content))
    elif k < 0.85:
        attrs.append((A_HE, N_HE, he))
        attrs.append(("content", "content", content))
        attrs.append((A_CS, N_CS, rng.choice(CHARSETS)))
    elif k < 0.90:
        attrs.append((A_HE, N_HE, he))                     # no content
    elif k < 0.95:
        attrs.append(("content", "content", content))      # no http-equiv
    else:
        attrs.append(("name", "name", "viewport"))
        attrs.append(("content", "content", content))
    rng.shuffle(attrs)
    if rng.random() < 0.15:                                # duplicate attribute: the first one wins
        d = rng.choice(attrs)
        attrs.append((d[0], d[1], rng.choice(CHARSETS + CONTENTS)))
    if rng.random() < 0.1:
        attrs.insert(rng.randrange(len(attrs) + 1), ("id", "id", "i"))
    if rng.random() < 0.1:                                 # upper-case attribute name (tokenizer lowers it)
        i = rng.randrange(len(attrs))
        attrs[i] = (attrs[i][0].upper(), attrs[i][1].upper(), attrs[i][2])
    st = rng.getstate()
    real = " ".join(attr(a[0], a[2], rng) for a in attrs)
    rng.setstate(st)
    neut = " ".join(attr(a[1], a[2], rng) for a in attrs)
    end = rng.choice([">", ">", " >", "/>", " />"])
    return "<%s %s%s" % (name, real, end), "<%s %s%s" % (name, neut, end)


def gen_docs(ck, strings):
    """list of (ctxname, inserted, ntags, [case lines])  - one group per document, one line per chunking"""
    groups = []
    per_ctx = 40 if ck.quick else 500
    for (cname, frag, scr, pre, suf, ins) in CONTEXTS:
        for _ in range(per_ctx):
            ntags = ck.rng.choice([1, 1, 1, 2, 3])
            real, neut = pre, pre
            for i in range(ntags):
                a, b = gen_tag(ck.rng, strings)
                sep = ck.rng.choice(["", "", " ", "x", "\n", "<p>", "<br>"]) if i else ""
                real += sep + a
                neut += sep + b
            real += suf
            neut += suf
            n = len(real)
            chunkings = ["-", ",".join(["1"] * n)]
            for _ in range(2):
                cuts = sorted(ck.rng.sample(range(1, n), min(n - 1, ck.rng.choice([1, 2, 3])))) if n > 1 else []
                lens = [b - a for a, b in zip([0] + cuts, cuts + [n])]
                chunkings.append(",".join(map(str, lens)))
            lines = ["D %s %d %s %s %s" % (frag, scr, c, hx(real), hx(neut)) for c in chunkings]
            groups.append((cname, ins, ntags, lines))
    return groups


# ------------------------------------------------------------------ oracle on documents
TEXT_BLOB = re.compile(r'(?<=")[0-9a-f]+(?=")|(?<=<!--)[0-9a-f]+(?=-->)|(?<==)[0-9a-f]+(?=[ >])')


def unneutral(m):
    t = unhx(m.group(0))
    for a, b in ((N_CS, A_CS), (N_HE, A_HE), (N_CS.upper(), A_CS.upper()), (N_HE.upper(), A_HE.upper())):
        t = t.replace(a, b)
    return t.encode("utf8").hex()


SIBLINGS = ("link", "base", "basefont", "bgsound")


def parse_el(tok):
    """'html:meta/c<hex>|-/h../t..' -> (ns, name, charset|None, http-equiv|None, content|None)"""
    nm, c, h, t = tok.split("/")
    ns, name = nm.split(":")
    f = lambda x: None if x[1:] == "-" else unhx(x[1:])
    return ns, name, f(c), f(h), f(t)


def expected_label(el):
    """the property: label of an element carrying charset, or http-equiv~content-type + extractable content"""
    _, _, cs, he, ct = el
    if cs is not None:
        return cs
    if he is not None and ascii_lower(he) == "content-type" and ct is not None:
        return whatwg_extract(ct)
    return None


def judge_doc(line, out, inserted, ntags):
    """returns (problem or None, case_class or None, info dict)"""
    if out.startswith("!") or out.startswith("<no-output"):
        return "panic / crash while parsing", None, {}
    f = out.split("\t")
    if len(f) != 5:
        return "malformed harness output", None, {}
    evs = [] if f[0] == "-" else f[0].split(";")
    fin = [] if f[1] == "-" else [parse_el(x) for x in f[1].split(",")]
    t1, t2, nev = f[2], f[3], int(f[4])
    info = {"events": len([e for e in evs if e.startswith("E")])}
    if nev != 0:
        return "neutralised document raised an indicator (generator problem?)", None, info
    if "LOOP" in evs:
        return "feed() never returned Done", None, info
    # --- resuming continues as if nothing had happened
    t2r = t2.replace(" :" + N_CS + "=", " :" + A_CS + "=").replace(" :" + N_HE + "=", " :" + A_HE + "=")
    t2r = TEXT_BLOB.sub(unneutral, t2r)      # the names also occur as plain text (raw-text contexts, attribute values)
    if t1 != t2r:
        return "final tree differs from the tree of the never-interrupted (neutralised) parse", None, info
    metas = [e for e in fin if e[0] == "html" and e[1] == "meta"]
    info["metas"] = len(metas)
    # --- exactly once per qualifying inserted HTML meta, label, already in the tree
    labels = []
    prev = []
    k = 0
    extra_sibling = 0
    for e in evs:
        if not e.startswith("E"):
            continue
        lab, _, snap = e[1:].partition("@")
        lab = unhx(lab)
        els = [parse_el(x) for x in snap.split(",")] if snap else []
        new = list(els)
        for p in prev:
            if p in new:
                new.remove(p)
        prev = els
        cand = [x for x in new if x[0] == "html" and x[1] == "meta" and expected_label(x) is not None]
        sib = [x for x in new if x[0] == "html" and x[1] in SIBLINGS and expected_label(x) is not None]
        # base/basefont/bgsound/link inserted since the last pause without raising an indicator are what the property demands
        if len(cand) == 1 and expected_label(cand[0]) == lab:
            k += 1
            labels.append(lab)
            continue
        if len(cand) == 0 and len(sib) == 1 and expected_label(sib[0]) == lab:
            extra_sibling += 1
            continue
        if len(cand) == 0 and not sib:
            return ("indicator %r raised but no new qualifying HTML meta element is in the tree" % lab), None, info
        return ("indicator %r does not match the newly inserted element(s) %r" % (lab, cand + sib)), None, info
    want = [expected_label(m) for m in metas if expected_label(m) is not None]
    if sorted(want) != sorted(labels):
        return ("indicators %r raised, qualifying inserted metas demand %r" % (labels, want)), None, info
    # elements that appeared without an indicator after the last event are covered by the multiset test
    if extra_sibling:
        return ("indicator raised for a non-meta element (link/base/basefont/bgsound with charset or "
                "http-equiv+content)"), "indicator-for-link-base-basefont-bgsound", info
    return None, None, info


# ------------------------------------------------------------------ the check
def cache_known(ck):
    """read known_findings.json once (retrying while another process rewrites it) instead of once per hit"""
    import time
    import vcommon
    ks = []
    for _ in range(50):
        try:
            ks = vcommon.load_known()
            break
        except ValueError:
            time.sleep(0.2)
    table = {k.get("class"): k for k in ks if k.get("property") == ck.pid and k.get("status") == "known"}
    ck.match_known = lambda c: table.get(c)


def run(ck):
    cache_known(ck)
    proofs_ok = ck.coq_props(extra_targets=["Extract/ExtractMeta.vo"])
    bindir = ck.cargo_build(["meta"])
    model = ck.ocaml_build("meta_model", "meta_model.ml", "meta_driver.ml")
    impl = os.path.join(bindir, "meta")

    if ck.replay:
        rp = json.load(open(ck.replay))
        if rp.get("kind") == "obligation-broken":
            return ck.finish(trusted=TRUSTED, assumptions=ASSUME)
        if "content" in rp:
            strings = [rp["content"]]
            groups = []
        else:
            strings = []
            groups = [(rp.get("context", "?"), rp.get("inserted"), rp.get("ntags", 0), rp["lines"])]
    else:
        strings = content_strings(ck)
        groups = gen_docs(ck, [s for s in strings[:4000] if len(s) < 40] or [""])

    # ---------- (a) extraction alone: implementation vs reference (oracle), model vs implementation (tie)
    xl = ["X " + hx(s) for s in strings]
    yl = ["Y " + hx(s) for s in strings]
    impl_out = ck.run_lines(impl, [], xl)
    model_out = ck.run_lines(model, [], xl)
    spec_out = ck.run_lines(model, [], yl)
    oracle_fail = disagree = specdis = 0
    nontrivial = set()
    kinds = {"none": 0, "label": 0, "empty-label": 0}
    for s, a, b, y in zip(strings, impl_out, model_out, spec_out):
        e = expect_line(s)
        if e == "N":
            kinds["none"] += 1
        else:
            r = whatwg_extract(s)
            kinds["empty-label" if r == "" else "label"] += 1
            if "charset" in ascii_lower(s) and (ascii_lower(s).count("charset") > 1 or any(w in s for w in WS) or
                                                "'" in s or '"' in s or ";" in s):
                nontrivial.add(s)
        if a != e:
            oracle_fail += 1
            if oracle_fail <= 3:
                ck.violation("meta content %r: html5ever reports %s, WHATWG extraction gives %s" % (
                    s, "nothing" if a == "N" else a, "nothing" if e == "N" else e),
                    {"kind": "failing-input", "content": s, "impl": a, "expected": e, "model": b})
        if a != b:
            disagree += 1
            if a == e and disagree <= 3:
                ck.broken.append("correspondence meta model vs encoding.rs: content %r impl %s model %s" % (s, a, b))
        if y != e:
            specdis += 1
            if specdis <= 3:
                ck.broken.append("Coq transcription of WHATWG (extract_spec) differs from the Python reference on %r: %s vs %s" % (s, y, e))

    # ---------- (b) documents
    lines = [l for g in groups for l in g[3]]
    outs = ck.run_lines(impl, [], lines)
    pos = 0
    doc_fail = 0
    known_hits = 0
    ctx_hist = {}
    raised = 0
    chunk_dis = 0
    triple_set = set()
    for (cname, ins, ntags, ls) in groups:
        os_ = outs[pos:pos + len(ls)]
        pos += len(ls)
        whole_info = None
        for l, o in zip(ls, os_):
            why, cls, info = judge_doc(l, o, ins, ntags)
            if whole_info is None:
                whole_info = info
            if why:
                doc_fail += 0 if (cls and ck.match_known(cls)) else 1
                known_hits += 1 if (cls and ck.match_known(cls)) else 0
                if doc_fail <= 5 or cls:
                    ck.violation("context %s: %s" % (cname, why),
                                 {"kind": "failing-input", "context": cname, "inserted": ins, "ntags": ntags,
                                  "lines": [l], "doc": unhx(l.split()[4]), "chunks": l.split()[3], "observed": o[:2000]},
                                 case_class=cls)
        f0 = os_[0].split("\t") if os_ else []
        if len(f0) == 5 and f0[1] != "-":
            for x in f0[1].split(","):
                el = parse_el(x)
                if el[0] == "html" and el[1] == "meta":
                    triple_set.add(el[2:])
        # chunking independence: events (labels only) and tree equal for all chunkings
        def key(o):
            f = o.split("\t")
            if len(f) != 5:
                return o
            ev = [e.partition("@")[0] for e in (f[0].split(";") if f[0] != "-" else []) if e.startswith("E")]
            return (tuple(ev), f[1], f[2])
        if len(set(key(o) for o in os_)) > 1:
            chunk_dis += 1
            ck.violation("context %s: indicators / tree depend on the chunking" % cname,
                         {"kind": "failing-input", "context": cname, "inserted": ins, "ntags": ntags, "lines": ls,
                          "doc": unhx(ls[0].split()[4])})
        # by-construction expectation on insertion (independent of the implementation's tree for the verdict)
        if whole_info and "metas" in whole_info and ins is not None:
            doc = unhx(ls[0].split()[4])
            nmeta_src = ascii_lower(doc).count("<meta ")
            if (ins and whole_info["metas"] != nmeta_src) or (not ins and whole_info["metas"] != 0):
                doc_fail += 1
                ck.violation("context %s: %d HTML meta elements in the tree, %s expected by construction" % (
                    cname, whole_info["metas"], nmeta_src if ins else 0),
                    {"kind": "failing-input", "context": cname, "inserted": ins, "ntags": ntags, "lines": ls[:1], "doc": doc})
            if not ins and whole_info.get("events", 0) != 0:
                doc_fail += 1
                ck.violation("context %s: indicator raised where no meta element can be inserted" % cname,
                             {"kind": "failing-input", "context": cname, "inserted": ins, "ntags": ntags, "lines": ls[:1], "doc": doc})
        h = ctx_hist.setdefault(cname, [0, 0])
        h[0] += 1
        h[1] += (whole_info or {}).get("events", 0)
        raised += (whole_info or {}).get("events", 0)

    # ---------- the arm body: model (bytes) and Coq label spec (chars) vs the oracle's expected_label on every
    # attribute triple seen in a tree (the oracle was compared with the implementation's events above)
    triples = sorted(triple_set, key=repr)
    al = []
    for (cs, he, ct) in triples:
        parts = []
        for n, v in (("http-equiv", he), ("content", ct), ("charset", cs)):
            if v is not None:
                parts += [hx(n), hx(v)]
        al.append(" ".join(parts))
    arm_out = ck.run_lines(model, [], ["A " + a for a in al])
    lab_out = ck.run_lines(model, [], ["B " + a for a in al])
    arm_dis = 0
    for tr, a, b in zip(triples, arm_out, lab_out):
        e = expected_label(("html", "meta") + tr)
        want = "D" if e is None else "E" + e.encode("utf8").hex()
        if a != want or b != want:
            arm_dis += 1
            if arm_dis <= 3:
                ck.broken.append("correspondence meta arm: attributes %r oracle %s model %s Coq label spec %s" % (tr, want, a, b))

    ck.cov.update({
        "attribute_triples_through_arm_model": len(triples), "arm_model_disagreements": arm_dis,
        "evaluations": len(strings) + len(lines),
        "distinct_nontrivial": len(nontrivial) + sum(1 for v in ctx_hist.values() if v[1] > 0),
        "rule": "content strings: all strings of <=%d symbols over %r + structured strings (junk, case variants of "
                "charset, 11 whitespace variants, =, quotes, 19 labels) truncated at every character; non-trivial = "
                "string with a label whose extraction needs more than `charset=label` (second match, whitespace, quote or ;) "
                "+ insertion contexts in which an indicator was observed.  documents: %d contexts x random meta/link/base "
                "tags x 4 chunkings (whole, per char, 2 random)" % (6 if ck.quick else 7, ALPHABET9, len(CONTEXTS)),
        "samples": strings[7000:7003] + lines[:1],
        "content_strings": len(strings), "content_kinds": kinds,
        "documents": len(groups), "document_runs": len(lines), "indicators_observed": raised,
        "context_histogram(docs,indicators)": ctx_hist,
        "correspondence_disagreements": disagree, "oracle_failures": oracle_fail, "document_failures": doc_fail, "known_finding_runs": known_hits,
        "chunking_disagreements": chunk_dis, "spec_vs_reference_disagreements": specdis,
        "explanation": "C19_extract (Props/C19.v) proves model = WHATWG transcription for all scalar strings; the model is "
                       "tied to encoding.rs by running both on the same content strings through a real parse; the "
                       "Python reference (cross-checked against the extracted Coq transcription) judges the "
                       "implementation.  Which tokens raise the indicator is judged on the implementation only.",
    })
    ck.notes.append("C19_when (indicator raised exactly by inserted HTML metas, in every insertion mode; element already in "
                    "the tree; transparent resumption) is NOT proved: needs the tree-builder model; only the arm body is "
                    "proved (C19_label_partial).  The rest is covered by the document oracle on the implementation.")
    return ck.finish(trusted=TRUSTED, assumptions=ASSUME)


TRUSTED = ["Coq 8.16.1 kernel (coqc; vm_compute only in Examples)",
           "Extraction (ExtrOcamlBasic only) + ocamlopt 4.13.1",
           "ocaml/meta_driver.ml, ocaml/conv.ml, harness/src/bin/meta.rs, lib/checks/c19.py (generators, Python "
           "reference of the WHATWG extraction, document oracle)",
           "hand transcription of the WHATWG extraction algorithm (coq/Meta/MetaSpec.v)",
           "tendril::StrTendril::subtendril modelled as bounds check + futf boundary classification via Utf8.dec1"]
ASSUME = ["attribute values are valid UTF-8 (StrTendril guarantees it)",
          "label comparison is on the raw substring (html5ever does not perform the encoding-label lookup)",
          "content strings cannot contain U+0000 (the tokenizer replaces it before the tree builder sees it)"]
