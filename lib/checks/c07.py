"""C07 - HTML serializer output re-parses to the same tree; inner equals outer.

proof      : coq/Props/C07.v - write_escaped (byte-position memchr loop) vs WHATWG "escaping a string" for
             every UTF-8 string (exact characterisation, refutation witness for the code as it is, full
             theorem for the repaired variant and outside the defect class); escaping is reversible by the
             tokenizer fragment and nothing escapes its context (all Unicode strings without CR/NUL);
             inner = between-tags(outer) for the ElemInfo stack machine over ALL trees (refuted for the
             code as it is by an SVG `style`, proved outside that class and for the repaired variant).
             NOT proved: parse_fragment(serialize t) = t (needs the tokenizer + tree-builder models) -
             judged on the implementation by the round-trip oracle below.
tie        : harness bin `htmlser` (html5ever::serialize over RcDom) vs the extracted model
             (ocaml/htmlser_driver.ml): write_escaped alone, whole serializations in the three traversal
             scopes, and inner/outer of every element, on built trees and on parsed documents.  The model
             variant (code as it is / repaired, per defect) is selected by two probe cases.
oracle     : (a) WHATWG escaping (Python reference, cross-checked against the extracted Coq spec) vs the
             implementation; (b) round trip serialize -> parse_fragment(div) == tree on vocabulary trees with
             adversarial strings; (c) inner == between-tags(outer) for every element of built and parsed trees
             (HTML raw-text elements, SVG and MathML parents, scripting on/off); (d) the serialization of built
             trees equals the WHATWG fragment serialization (decides where text may stay unescaped).
"""
import json
import os
import re

ROOT = os.path.dirname(os.path.dirname(os.path.dirname(os.path.abspath(__file__))))
REPO = os.environ.get("VERIF_REPO", "/repo")

VOID = ["area", "base", "basefont", "bgsound", "br", "col", "embed", "frame", "hr", "img", "input", "keygen", "link",
        "meta", "param", "source", "track", "wbr"]
RAW = ["style", "script", "xmp", "iframe", "noembed", "noframes", "plaintext"]


# ------------------------------------------------------------------ references
def escape_ref(attr, s):
    """WHATWG 'escaping a string' (current text: < and > in both modes)"""
    s = s.replace("&", "&amp;").replace(" ", "&nbsp;").replace("<", "&lt;").replace(">", "&gt;")
    if attr:
        s = s.replace('"', "&quot;")
    return s


REFS = {"amp": "&", "lt": "<", "gt": ">", "quot": '"', "nbsp": " "}


def unescape_ref(attr, s):
    """the tokenizer fragment of SerSpec.untok; None = leaves the context / the fragment"""
    out = []
    i = 0
    while i < len(s):
        c = s[i]
        if c == "&":
            j = s.find(";", i)
            if j < 0 or s[i + 1:j] not in REFS:
                return None
            out.append(REFS[s[i + 1:j]])
            i = j + 1
            continue
        if (not attr and c == "<") or (attr and c == '"') or c in "\0\r":
            return None
        out.append(c)
        i += 1
    return "".join(out)


def hx(s):
    b = s if isinstance(s, bytes) else s.encode("utf8")
    return b.hex() if b else "-"


def unhx(h):
    return b"" if h == "-" else bytes.fromhex(h)


def in_c2_class(c):
    return 0x80 <= ord(c) <= 0xBF and ord(c) != 0xA0


# ------------------------------------------------------------------ trees
# ('E', ns, name, [(ns, name, value)], [children]) | ('T', s) | ('C', s) | ('D', s) | ('P', target, data)
def desc(n, out):
    k = n[0]
    if k == "E":
        out += ["E", n[1], hx(n[2]), str(len(n[3]))]
        for a in n[3]:
            out += [a[0], hx(a[1]), hx(a[2])]
        out.append(str(len(n[4])))
        for c in n[4]:
            desc(c, out)
    elif k == "P":
        out += ["P", hx(n[1]), hx(n[2])]
    else:
        out += [k, hx(n[1])]
    return out


def forest_desc(nodes):
    out = [str(len(nodes))]
    for n in nodes:
        desc(n, out)
    return " ".join(out)


def attr_name_ref(a):
    ns, local = a[0], a[1]
    if ns == "-":
        return local
    if ns == "X":
        return "xml:" + local
    if ns == "N":
        return "xmlns" if local == "xmlns" else "xmlns:" + local
    if ns == "x":
        return "xlink:" + local
    return "unknown_namespace:" + local      # no prefix is stored in the tree; html5ever's convention


def esc_bytes(attr, s):
    return escape_ref(attr, s).encode("utf8")


def esc_bytes_defect16(attr, s):
    """what the code of defect #16 writes: the lead byte of every U+0080..U+00BF char but NBSP is lost"""
    return b"".join(bytes([ord(c)]) if in_c2_class(c) else escape_ref(attr, c).encode("utf8") for c in s)


def ser_whatwg(n, parent, scripting, esc=esc_bytes):
    """WHATWG 'serializing HTML fragments' for one node (bytes); parent = (ns, local) or None"""
    k = n[0]
    u = lambda x: x.encode("utf8")
    if k == "T":
        raw = parent is not None and parent[0] == "h" and (parent[1] in RAW or (parent[1] == "noscript" and scripting))
        return u(n[1]) if raw else esc(False, n[1])
    if k == "C":
        return b"<!--" + u(n[1]) + b"-->"
    if k == "D":
        return b"<!DOCTYPE " + u(n[1]) + b">"
    if k == "P":
        return b"<?" + u(n[1]) + b" " + u(n[2]) + b">"
    s = b"<" + u(n[2]) + b"".join(b" " + u(attr_name_ref(a)) + b'="' + esc(True, a[2]) + b'"' for a in n[3]) + b">"
    if n[1] == "h" and n[2] in VOID:
        return s
    return s + b"".join(ser_whatwg(c, (n[1], n[2]), scripting, esc) for c in n[4]) + b"</" + u(n[2]) + b">"


# ------------------------------------------------------------------ vocabulary (derived from the Rust sources)
CANDIDATES = ["span", "abbr", "cite", "dfn", "kbd", "samp", "var", "q", "time", "data", "bdi", "bdo", "ins", "del",
              "mark", "sub", "sup", "label", "output", "map", "canvas", "video", "audio", "slot", "picture", "meter",
              "progress", "x", "y-z", "foo", "bar9", "custom-el", "z0-9", "a-b-c", "x-"]


def mentioned_names():
    """every element name the tree builder / serializer mentions: tag!() patterns, local_name!(), tag sets"""
    names = set()
    tb = os.path.join(REPO, "html5ever", "src", "tree_builder")
    files = [os.path.join(tb, f) for f in os.listdir(tb) if f.endswith(".rs")]
    files.append(os.path.join(REPO, "html5ever", "src", "serialize", "mod.rs"))
    for f in files:
        txt = open(f).read()
        names |= set(re.findall(r"</?([a-z][a-z0-9-]*)>", txt))
        names |= set(re.findall(r'local_name!\("([^"]+)"\)', txt))
        for m in re.finditer(r"declare_tag_set!\(([^;]*?)\);", txt, flags=re.S):
            names |= set(re.findall(r'"([a-zA-Z0-9-]+)"', m.group(1)))
    return names


ATTR_NAMES = ["id", "class", "title", "href", "data-x", "lang", "style", "a", "b-c", "x9", "onclick", "value", "name"]

ASCII = [chr(i) for i in range(1, 128) if i != 13]
C2 = [chr(i) for i in range(0x80, 0xC0)]
POOL = (ASCII + [" "] * 6 + ["&", "<", ">", '"', "'", "&amp;", "&lt;", "&#38;", "&nbsp", "&nbsp;", "]]>", "--", "-->",
        "<!--", "</", "</span>", "<x", "&x;", "&#x26;", "À", "é", "߿", "ࠀ", " ", "퟿",
        "", "﻿", "�", "￿", "\U00010000", "\U0001f600", "\U0010ffff", "\n", "\t", "\x0c", " ",
        "a", "b", "=", "/", "`"] + ["&", "<", ">", '"'] * 6)


POOL_C2 = POOL + C2 * 3


# offsets around every power of two up to 4096: scan windows, block sizes, buffer capacities (C07-seed5: a 1024-byte
# scan window in write_escaped whose end was mistaken for a found lead byte)
BOUNDARY = [2 ** j + d for j in range(3, 13) for d in (-1, 0, 1)]


def adv_string(rng, maxlen=10, c2=0.15, big=0.0):
    """c2: probability that characters of the U+0080..U+00BF class (defect #16) may occur;
    big: share (of the 15 % long-run cases) of runs with a special character at a boundary offset (up to 4097) from the
    start / the previous special; 0 = none"""
    pool = POOL_C2 if rng.random() < c2 else POOL
    r = rng.random()
    if big and r < 0.15 and rng.random() < big:
        fill = rng.choice(["a", "a", "a", "x", " ", "é", "€"])
        sp = ["&", "<", ">", '"', "\u00a0", "\u00c0"] + (["\u00a9", "\u0080"] if pool is POOL_C2 else [])
        out = []
        for _ in range(rng.choice([1, 1, 2, 3])):
            out.append(fill * rng.choice(BOUNDARY) + rng.choice(sp))
        out.append(fill * rng.choice([0, 1, 2, rng.choice(BOUNDARY)]))
        return "".join(out)
    if r < 0.15:
        # long run crossing memchr lanes with one special somewhere
        n = rng.choice([15, 16, 17, 31, 32, 33, 63, 64, 65, 100])
        fill = rng.choice(["a", "é", "x", " ", "€"])
        k = rng.randrange(n)
        sp = ["&", "<", ">", '"', "\u00a0", "\u00c0"] + (["\u00a9", "\u0080"] if pool is POOL_C2 else [])
        return fill * k + rng.choice(sp) + fill * (n - k - 1)
    return "".join(rng.choice(pool) for _ in range(rng.randint(1, maxlen)))


def vocab_tree(rng, vocab, depth, c2=None):
    if c2 is None:
        c2 = 1.0 if rng.random() < 0.1 else 0.0
    name = rng.choice(vocab)
    attrs = []
    for an in rng.sample(ATTR_NAMES, rng.choice([0, 0, 1, 1, 2, 3])):
        attrs.append(("-", an, adv_string(rng, 10, c2) if rng.random() < 0.9 else ""))
    children = []
    n = rng.choice([0, 1, 1, 2, 3, 4]) if depth > 0 else rng.choice([0, 1])
    last_text = False
    for _ in range(n):
        if (rng.random() < 0.5 or depth == 0) and not last_text:
            children.append(("T", adv_string(rng, 10, c2)))
            last_text = True
        elif depth > 0:
            children.append(vocab_tree(rng, vocab, depth - 1, c2))
            last_text = False
    return ("E", "h", name, attrs, children)


ANY_NAMES = VOID[:6] + RAW + ["noscript", "title", "textarea", "div", "p", "span", "svg", "math", "desc", "foreignObject",
                              "mi", "annotation-xml", "template", "table", "td", "a", "b", "pre", "x-y"]


def any_tree(rng, depth, c2=0.0):
    """arbitrary trees for inner/outer + correspondence (every namespace, raw-text names in foreign
    namespaces, comments, doctypes, processing instructions; void HTML elements get no children)"""
    r = rng.random()
    if depth == 0 or r < 0.3:
        k = rng.random()
        if k < 0.7:
            return ("T", adv_string(rng, 6, c2))
        if k < 0.85:
            return ("C", adv_string(rng, 5, c2))
        if k < 0.92:
            return ("D", rng.choice(["html", "", "x y"]))
        return ("P", rng.choice(["xml", "x", ""]), adv_string(rng, 4, c2))
    ns = rng.choice(["h", "h", "h", "s", "s", "m", "o", "-"])
    name = rng.choice(ANY_NAMES)
    attrs = []
    for an in rng.sample(ATTR_NAMES, rng.choice([0, 0, 1, 2])):
        ans = rng.choice(["-", "-", "-", "x", "X", "N", "o", "h"])
        attrs.append((ans, rng.choice([an, "xmlns", "href", "lang"]) if ans != "-" else an, adv_string(rng, 5, c2)))
    children = []
    if not (ns == "h" and name in VOID):
        for _ in range(rng.choice([0, 1, 1, 2, 3])):
            children.append(any_tree(rng, depth - 1, c2))
    return ("E", ns, name, attrs, children)


# ------------------------------------------------------------------ random HTML for parsed trees
H_ELEMS = ["div", "p", "span", "b", "i", "a", "ul", "li", "table", "tr", "td", "select", "option", "template", "pre",
           "textarea", "title", "style", "script", "xmp", "iframe", "noembed", "noframes", "noscript", "plaintext", "svg",
           "math", "br", "img", "input", "hr", "h1", "form", "button", "x-y"]
F_ELEMS = ["style", "script", "title", "desc", "foreignObject", "g", "mi", "mtext", "annotation-xml", "xmp", "iframe",
           "noscript", "noembed", "noframes", "plaintext", "path", "textarea"]
H_TEXT = ["a", "x<y", "a&lt;b", "a&amp;b", "&lt;/style&gt;", "1<2", " ", "&nbsp;", "©", '"', "'", ">", "é", " ", "\n",
          "<!--c-->", "&", "]]>", "<![CDATA[x<y]]>", "--", "﻿"]


def rand_html(rng, depth=3, foreign=False):
    out = []
    for _ in range(rng.choice([1, 2, 3, 4])):
        r = rng.random()
        if r < 0.4 or depth == 0:
            out.append(rng.choice(H_TEXT))
        else:
            if foreign and rng.random() < 0.7:
                n = rng.choice(F_ELEMS)
            else:
                n = rng.choice(H_ELEMS)
            attrs = ""
            if rng.random() < 0.3:
                attrs = ' %s="%s"' % (rng.choice(ATTR_NAMES + ["xlink:href", "xml:lang", "xmlns:xlink", "xmlns"]),
                                      rng.choice(["v", "a&amp;b", "x<y>z", " ©", "q&quot;", ""]))
            inner = rand_html(rng, depth - 1, foreign or n in ("svg", "math")) if n not in VOID else ""
            close = "" if rng.random() < 0.1 else "</%s>" % n
            out.append("<%s%s>%s%s" % (n, attrs, inner, close))
    return "".join(out)


# ------------------------------------------------------------------ oracles
def between_tags(ns, local, outer):
    """the part of an element's own serialization between its start tag and its end tag"""
    i = outer.find(b">")
    if i < 0:
        return None
    if ns == "h" and local.decode("utf8", "replace") in VOID:
        return outer[i + 1:]
    end = b"</" + local + b">"
    if not outer.endswith(end) or len(outer) < i + 1 + len(end):
        return None
    return outer[i + 1:len(outer) - len(end)]


def judge_elements(field, scripting):
    """field 6: ns:name:outer:inner:inner0,...  -> list of (problem, class)"""
    res = []
    if field == "-":
        return res, 0
    n = 0
    for e in field.split(","):
        ns, name, outer, inner, inner0 = e.split(":")
        n += 1
        if "!" in (outer, inner, inner0):
            res.append(("serializer panicked on element %s" % unhx(name), None))
            continue
        local = unhx(name)
        outer, inner, inner0 = unhx(outer), unhx(inner), unhx(inner0)
        b = between_tags(ns, local, outer)
        if b is None:
            res.append(("outer serialization of %r has no recognisable start/end tag" % local, None))
        elif b != inner:
            raw = RAW + ([] if not scripting else ["noscript"])
            if ns != "h" and local.decode("utf8", "replace") in raw and b == inner0:
                res.append(("children of a non-HTML %r serialized raw under ChildrenOnly(Some(name))" % local,
                            "children-only-ignores-namespace"))
            else:
                res.append(("inner %r != between-tags(outer) %r for element %s:%r" % (inner[:80], b[:80], ns, local), None))
    return res, n


TRUSTED = ["Coq 8.16.1 kernel (coqc; vm_compute in Examples and in the two refutation witnesses)",
           "Extraction (ExtrOcamlBasic only) + ocamlopt 4.13.1",
           "ocaml/htmlser_driver.ml, ocaml/conv.ml, harness/src/bin/htmlser.rs, lib/checks/c07.py (generators, Python "
           "references of WHATWG escaping / the tokenizer fragment, oracles)",
           "hand transcription of WHATWG 'escaping a string' and of the Data / attribute-value / character-reference "
           "tokenizer fragment (coq/HtmlSer/SerSpec.v)",
           "memchr2/memchr3 modelled as first-index search"]
ASSUME = ["text, attribute values and names are valid UTF-8 (StrTendril / LocalName guarantee it)",
          "round trip: vocabulary = names outside every tag!()/local_name!()/tag-set mention of tree_builder/*.rs and "
          "serialize/mod.rs; text and attribute values free of CR and NUL; re-parse with discard_bom = false under a div",
          "template contents are not serialized (RcDom's Serialize does not enter them)"]


def call_seq(rng):
    """a random (mostly unbalanced) call sequence for the Serializer trait"""
    names = ANY_NAMES
    out = []
    for _ in range(rng.randint(0, 7)):
        k = rng.random()
        if k < 0.35:
            attrs = []
            for an in rng.sample(ATTR_NAMES, rng.choice([0, 0, 1])):
                attrs += [rng.choice(["-", "-", "x", "N"]), hx(an), hx(adv_string(rng, 3))]
            out += ["s", rng.choice(["h", "h", "s", "m"]), hx(rng.choice(names)), str(len(attrs) // 3)] + attrs
        elif k < 0.65:
            out += ["e", rng.choice(["h", "h", "s"]), hx(rng.choice(names))]
        elif k < 0.85:
            out += ["t", hx(adv_string(rng, 4))]
        elif k < 0.92:
            out += ["c", hx(adv_string(rng, 3))]
        elif k < 0.96:
            out += ["d", hx("html")]
        else:
            out += ["p", hx("x"), hx(adv_string(rng, 3))]
    scope = rng.choice(["i", "n", "h:" + hx(rng.choice(names)), "s:" + hx(rng.choice(names))])
    return "Q %d %d %s %s" % (rng.randrange(2), rng.randrange(2), scope, " ".join(out))


def judge_tree(scr, t, f, is_vocab):
    """f = the six harness fields for the tree t; returns ([(kind, why, class)], number of elements judged)"""
    res = []
    ref1 = ser_whatwg(t, None, bool(scr))
    defect16 = f[0] != "!" and unhx(f[0]) == ser_whatwg(t, None, bool(scr), esc_bytes_defect16) != ref1
    if is_vocab:
        # (b) round trip
        if f[3] != forest_desc([t]) or f[4] != forest_desc(t[4]):
            res.append(("roundtrip", "round trip: parse_fragment(serialize(t)) != t  (serialized %r)" % (
                unhx(f[0])[:300] if f[0] != "!" else "panic"), "escape-drops-C2-lead-byte" if defect16 else None))
    # (d) the serialization itself against the WHATWG algorithm (decides where text may stay raw)
    if f[0] == "!" or unhx(f[0]) != ref1:
        res.append(("whatwg", "serialization %r differs from the WHATWG fragment serialization %r" % (
            unhx(f[0])[:300] if f[0] != "!" else "panic", ref1[:300]), "escape-drops-C2-lead-byte" if defect16 else None))
    # (c) inner / outer
    probs, n = judge_elements(f[5], scr)
    res += [("inner-outer", "inner/outer: " + w, c) for w, c in probs]
    return res, n


def vocab_ok(t):
    if t[0] == "T":
        return t[1] != ""
    last = False
    for c in t[4]:
        if c[0] == "T" and last:
            return False
        last = c[0] == "T"
        if not vocab_ok(c):
            return False
    return True


def reductions(t):
    """smaller variants of a tree (one step)"""
    if t[0] == "E":
        ns, name, attrs, ch = t[1], t[2], t[3], t[4]
        for i in range(len(ch)):
            yield ("E", ns, name, attrs, ch[:i] + ch[i + 1:])
        for i in range(len(attrs)):
            yield ("E", ns, name, attrs[:i] + attrs[i + 1:], ch)
        for i, a in enumerate(attrs):
            for v2 in shorter(a[2]):
                yield ("E", ns, name, attrs[:i] + [(a[0], a[1], v2)] + attrs[i + 1:], ch)
        for i, c in enumerate(ch):
            if c[0] == "E":
                yield ("E", ns, name, attrs, ch[:i] + c[4] + ch[i + 1:])
            for c2 in reductions(c):
                yield ("E", ns, name, attrs, ch[:i] + [c2] + ch[i + 1:])
    elif t[0] in ("T", "C", "D"):
        for v2 in shorter(t[1]):
            yield (t[0], v2)
    elif t[0] == "P":
        for v2 in shorter(t[2]):
            yield ("P", t[1], v2)


def shorter(s):
    if len(s) > 1:
        yield s[:len(s) // 2]
        yield s[len(s) // 2:]
    if 1 < len(s) <= 8:
        for i in range(len(s)):
            yield s[:i] + s[i + 1:]
    if len(s) == 1 and s != "a":
        yield ""


def shrink_tree(ck, impl, scr, t, is_vocab, kind, budget=400):
    """greedy delta debugging on the tree, judged by the same oracle on the implementation"""
    def fails(c):
        o = ck.run_lines(impl, [], ["T %d %s" % (scr, " ".join(desc(c, [])))], shards=1)[0]
        f = o.split("\t")
        if len(f) != 6:
            return False
        return any(k == kind and not (cls and ck.match_known(cls)) for k, w, cls in judge_tree(scr, c, f, is_vocab)[0])
    progress = True
    while progress and budget > 0:
        progress = False
        for c in reductions(t):
            if is_vocab and not vocab_ok(c):
                continue
            budget -= 1
            if budget <= 0:
                break
            if fails(c):
                t = c
                progress = True
                break
    return t


def cache_known(ck):
    """read known_findings.json once (retrying while another process rewrites it) instead of once per hit"""
    import time
    import vcommon
    ks = []
    for _ in range(50):
        try:
            ks = vcommon.load_known()
            break
        except ValueError:
            time.sleep(0.2)
    table = {k.get("class"): k for k in ks if k.get("property") == ck.pid and k.get("status") == "known"}
    ck.match_known = lambda c: table.get(c)


def run(ck):
    cache_known(ck)
    proofs_ok = ck.coq_props(extra_targets=["Extract/ExtractHtmlSer.vo"])
    bindir = ck.cargo_build(["htmlser"])
    model = ck.ocaml_build("htmlser_model", "htmlser_model.ml", "htmlser_driver.ml")
    impl = os.path.join(bindir, "htmlser")
    rng = ck.rng

    # ---------- which variant does the working tree implement? (two probe cases)
    style_probe = "T 1 " + " ".join(desc(("E", "s", "style", [], [("T", "a<b")]), []))
    pr = ck.run_lines(impl, [], ["W 0 c2a9", style_probe], shards=1)
    fix_c2 = {"a9": "0", "c2a9": "1"}.get(pr[0])
    f3 = pr[1].split("\t")[2] if pr[1].count("\t") >= 5 else "?"
    fix_ns = {hx("a<b"): "0", hx("a&lt;b"): "1"}.get(f3)
    if fix_c2 is None or fix_ns is None:
        ck.broken.append("variant probes gave unexpected answers: %r / %r" % (pr[0], f3))
        fix_c2, fix_ns = fix_c2 or "0", fix_ns or "0"
    variant = fix_c2 + fix_ns
    ck.notes.append("implementation matches model variant fix_c2=%s fix_ns=%s (0 = the defect of DESIGN 6.3 #16 / #11 "
                    "is present, 1 = repaired)" % (fix_c2, fix_ns))

    vocab = [n for n in CANDIDATES if n not in mentioned_names()]
    if len(vocab) < 8:
        ck.broken.append("vocabulary derivation from the Rust sources left only %r" % vocab)
        vocab = vocab or ["x-y"]

    # ---------- cases
    if ck.replay:
        rp = json.load(open(ck.replay))
        if rp.get("kind") == "obligation-broken":
            return ck.finish(trusted=TRUSTED, assumptions=ASSUME)
        strings = [(rp["attr"], rp["string"])] if "string" in rp else []
        vtrees = [(rp["scripting"], tuple_tree(rp["tree"]))] if rp.get("what_kind") == "roundtrip" else []
        atrees = [(rp["scripting"], tuple_tree(rp["tree"]))] if rp.get("what_kind") == "tree" else []
        htmls = [(rp["scripting"], rp["ctx"], rp["html"])] if "ctx" in rp else []
    else:
        ns_, nv, na, nh = (40000, 15000, 8000, 8000) if ck.quick else (1200000, 450000, 240000, 240000)
        strings = []
        corpus = os.path.join(ROOT, "corpus", "c07_strings.txt")
        if os.path.exists(corpus):
            for l in open(corpus):
                if l.strip():
                    s = json.loads(l)
                    strings += [(0, s), (1, s)]
        for c in ASCII + C2 + [" "]:
            strings += [(0, c), (1, c), (0, "a" + c + "b"), (1, c + c)]
        for _ in range(ns_):
            strings.append((rng.randrange(2), adv_string(rng, 12, big=(0.4 if ck.quick else 0.05))))   # about 2400 / 9000 such strings
        vtrees = [(rng.randrange(2), vocab_tree(rng, vocab, rng.choice([1, 2, 3, 4]))) for _ in range(nv)]
        atrees = [(rng.randrange(2), ("E", rng.choice(["h", "s", "m"]), rng.choice(ANY_NAMES[6:]), [],
                                     [any_tree(rng, 3, c2) for _ in range(rng.choice([1, 2, 3]))]))
                  for c2 in [1.0 if rng.random() < 0.1 else 0.0 for _ in range(na)]]
        htmls = [(rng.randrange(2), rng.choice(["-", "-", "h:div", "h:body", "s:svg", "m:math", "h:template", "h:table"]),
                  rand_html(rng)) for _ in range(nh)]

    # ---------- direct call sequences (correspondence only: empty-stack arms, create_missing_parent)
    ql = [] if ck.replay else [call_seq(rng) for _ in range(4000 if ck.quick else 100000)]
    impl_q = ck.run_lines(impl, [], ql)
    model_q = ck.run_lines(model, [variant], ql)
    dis_q = 0
    q_panics = 0
    for c, a, b in zip(ql, impl_q, model_q):
        q_panics += a == "!"
        if a != b:
            dis_q += 1
            if dis_q <= 3:
                ck.broken.append("correspondence serializer model(%s) vs HtmlSerializer on call sequence %s: impl %s model %s"
                                 % (variant, c, a[:200], b[:200]))

    # ---------- (a) escaping
    wl = ["W %d %s" % (m, hx(s)) for m, s in strings]
    impl_w = ck.run_lines(impl, [], wl)
    model_w = ck.run_lines(model, [variant], wl)
    spec_s = ck.run_lines(model, [variant], ["S %d %s" % (m, hx(s)) for m, s in strings])
    unesc = ck.run_lines(model, [variant], ["U %d %s" % (m, hx(escape_ref(m, s))) for m, s in strings])
    esc_fail = esc_known = dis_w = specdis = 0
    nontrivial = set()
    for (m, s), a, b, sp, u in zip(strings, impl_w, model_w, spec_s, unesc):
        ref = escape_ref(m, s).encode("utf8")
        if any(c in s for c in '&<>" ') or any(in_c2_class(c) for c in s):
            nontrivial.add((m, s))
        got = None if a.startswith(("!", "?", "<no-output")) else unhx(a)
        if got != ref:
            cls = None
            if got is not None and got == esc_bytes_defect16(m, s):
                cls = "escape-drops-C2-lead-byte"
            if cls and ck.match_known(cls):
                esc_known += 1
            else:
                esc_fail += 1
            if esc_fail <= 3 or cls:
                ck.violation("write_escaped(%r, attr=%d) = %r, WHATWG escaping gives %r" % (s, m, got, ref),
                             {"kind": "failing-input", "string": s, "attr": m, "impl": a, "expected": ref.hex()},
                             case_class=cls)
        if a != b:
            dis_w += 1
            if dis_w <= 3:
                ck.broken.append("correspondence write_escaped model(%s) vs serialize/mod.rs: %r attr=%d impl %s model %s"
                                 % (variant, s, m, a, b))
        if sp != hx(ref):
            specdis += 1
            if specdis <= 3:
                ck.broken.append("Coq escape_spec differs from the Python reference on %r attr=%d" % (s, m))
        want = "N" if ("\0" in s or "\r" in s) else "S" + hx(s)
        if u != want or (unescape_ref(m, escape_ref(m, s)) != (None if want == "N" else s)):
            specdis += 1
            if specdis <= 3:
                ck.broken.append("Coq unescape / Python unescape do not invert escaping on %r attr=%d: %s" % (s, m, u))

    # ---------- (b) round trip on vocabulary trees, (c) inner/outer, correspondence
    tl = ["T %d %s" % (scr, " ".join(desc(t, []))) for scr, t in vtrees + atrees]
    impl_t = ck.run_lines(impl, [], tl)
    hl = ["H %d %s %s" % (scr, ctx, hx(h)) for scr, ctx, h in htmls]
    impl_h = ck.run_lines(impl, [], hl)
    # parsed trees go to the model as T lines
    h_as_t = []
    for (scr, ctx, h), o in zip(htmls, impl_h):
        f = o.split("\t")
        h_as_t.append("T %d %s" % (scr, f[0]) if len(f) == 7 else None)
    model_t = ck.run_lines(model, [variant], tl + [x for x in h_as_t if x])
    rt_fail = rt_known = io_fail = io_known = dis_t = ser_fail = ser_known = 0
    counts = {}
    elems = 0
    sizes = {}
    mi = 0
    raw_parents = foreign_raw = 0

    def corr(case, a_fields, b_line):
        nonlocal dis_t
        want = "\t".join([a_fields[0], a_fields[1], a_fields[2], a_fields[5]])
        if want != b_line:
            dis_t += 1
            if dis_t <= 3:
                ck.broken.append("correspondence serializer model(%s) vs html5ever::serialize on %s: impl %s model %s"
                                 % (variant, case[:300], want[:300], b_line[:300]))

    reported = {}
    for idx, ((scr, t), line, o) in enumerate(zip(vtrees + atrees, tl, impl_t)):
        f = o.split("\t")
        is_vocab = idx < len(vtrees)
        if len(f) != 6:
            rt_fail += 1
            ck.violation("harness failed on a tree: %s" % o[:100], {"kind": "failing-input", "what_kind": "tree",
                                                                   "scripting": scr, "tree": t})
            mi += 1
            continue
        corr(line, f, model_t[mi])
        mi += 1
        if is_vocab:
            sizes[len(line.split()) // 8] = sizes.get(len(line.split()) // 8, 0) + 1
        probs, n = judge_tree(scr, t, f, is_vocab)
        elems += n
        for kind, why, cls in probs:
            known = bool(cls and ck.match_known(cls))
            counts[(kind, known)] = counts.get((kind, known), 0) + 1
            if known:
                ck.violation(why, {}, case_class=cls)
            elif reported.get(kind, 0) < 3:
                reported[kind] = reported.get(kind, 0) + 1
                small = shrink_tree(ck, impl, scr, t, is_vocab, kind) if reported[kind] == 1 and not ck.replay else t
                line2 = "T %d %s" % (scr, " ".join(desc(small, [])))
                f2 = ck.run_lines(impl, [], [line2], shards=1)[0].split("\t")
                why2 = next((w for k, w, c in (judge_tree(scr, small, f2, is_vocab)[0] if len(f2) == 6 else []) if k == kind), why)
                ck.violation(why2, {"kind": "failing-input", "what_kind": "roundtrip" if is_vocab else "tree",
                                    "scripting": scr, "tree": small, "unshrunk_tree": t if small is not t else None,
                                    "rendering": (ser_whatwg(small, None, bool(scr))).decode("utf8", "replace")}, case_class=cls)
    rt_fail, rt_known = counts.get(("roundtrip", False), 0), counts.get(("roundtrip", True), 0)
    ser_fail, ser_known = counts.get(("whatwg", False), 0), counts.get(("whatwg", True), 0)
    io_fail, io_known = counts.get(("inner-outer", False), 0), counts.get(("inner-outer", True), 0)
    for (scr, ctx, h), line, o, t_line in zip(htmls, hl, impl_h, h_as_t):
        f = o.split("\t")
        if len(f) != 7:
            io_fail += 1
            ck.violation("harness failed on a document: %s" % o[:100], {"kind": "failing-input", "scripting": scr, "ctx": ctx, "html": h})
            continue
        corr(t_line, f[1:], model_t[mi])
        mi += 1
        probs, n = judge_elements(f[6], scr)
        elems += n
        for e in f[6].split(","):
            p = e.split(":")
            if len(p) == 5 and unhx(p[1]).decode("utf8", "replace") in RAW + ["noscript"]:
                raw_parents += 1
                foreign_raw += p[0] != "h"
        for why, cls in probs:
            if cls and ck.match_known(cls):
                io_known += 1
            else:
                io_fail += 1
            if io_fail <= 3 or cls:
                ck.violation("inner/outer: " + why, {"kind": "failing-input", "scripting": scr, "ctx": ctx, "html": h},
                             case_class=cls)

    ck.cov.update({
        "evaluations": len(strings) + len(tl) + len(hl) + len(ql),
        "distinct_nontrivial": len(nontrivial) + len(vtrees),
        "rule": "strings: every ASCII char and every U+0080..U+00BF char alone and embedded, both modes, + random strings "
                "over a %d-symbol pool (specials, entities-look-alikes, ]]>, --, 2/3/4-byte chars, runs of 15..100 bytes "
                "with one special at a random offset); non-trivial = string containing a character that must be escaped "
                "or a 0xC2-lead character.  trees: random vocabulary trees (depth<=4, %d names outside every tree-builder "
                "mention) for the round trip; arbitrary trees (all namespaces, raw-text names in foreign namespaces, "
                "comments, doctypes, PIs) and parsed random documents for inner/outer and correspondence" % (len(POOL), len(vocab)),
        "samples": [wl[600] if len(wl) > 600 else "", tl[0] if tl else "", hl[0] if hl else ""],
        "vocabulary": vocab, "model_variant": variant,
        "strings": len(strings), "vocabulary_trees": len(vtrees), "arbitrary_trees": len(atrees), "parsed_documents": len(htmls),
        "elements_inner_outer": elems, "raw_text_named_parents": raw_parents, "of_which_foreign": foreign_raw,
        "tree_size_histogram(tokens/8)": sizes,
        "escape_failures": esc_fail, "roundtrip_failures": rt_fail, "inner_outer_failures": io_fail,
        "whatwg_serialization_failures": ser_fail,
        "known_finding_hits": {"escape": esc_known, "roundtrip": rt_known, "inner_outer": io_known, "serialization": ser_known},
        "correspondence_disagreements": dis_w + dis_t + dis_q, "call_sequences": len(ql), "call_sequences_panicking": q_panics, "spec_vs_reference_disagreements": specdis,
        "explanation": "Props/C07.v proves the escaping and inner/outer statements for the model (all strings, all trees); "
                       "the model is tied to serialize/mod.rs + rcdom by running both on the same strings / trees; the "
                       "WHATWG-escaping, round-trip and inner/outer oracles are evaluated on the implementation's outputs.",
    })
    ck.notes.append("parse_fragment(serialize t) = t is NOT proved (needs the tokenizer and tree-builder models): judged on "
                    "the implementation by the round-trip oracle over vocabulary trees.")
    return ck.finish(trusted=TRUSTED, assumptions=ASSUME)


def tuple_tree(t):
    """JSON lists back to tuples"""
    if t[0] == "E":
        return ("E", t[1], t[2], [tuple(a) for a in t[3]], [tuple_tree(c) for c in t[4]])
    return tuple(t)
