"""C06 - A parsed document always has the canonical html/head/body skeleton.

proof      : coq/Props/C06.v - Skeleton.skeleton_ok (the judge) is shown to mean the predicate the property states
             (document children = comments* doctype? comments* html comments*; html's element children = head then
             body | frameset noframes*; only white-space text below html; no adjacent text siblings, no empty text,
             only containers have children); the WHATWG-conformant counterexample is evaluated inside Coq.
tie/oracle : every generated document is parsed by html5ever::parse_document under several chunkings and both
             scripting settings into TraceSink<RcDom> / TraceSink<ArenaSink> (harness bin `sinkmon`); the extracted
             skeleton_ok is applied to the abstract DOM that DomSpec.run computes from the recorded calls
             (ocaml/sinkspec_driver.ml).  Cross-checks: that DOM must equal RcDom's own tree and the arena sink's
             tree, and an independent Python evaluation of the statement on RcDom's tree must give the same verdict.
"""
import json

from checks import c05 as L

KF_RECONSTRUCT = "html-child-formatting-element-reconstructed-after-frameset"
WS = set("\t\n\x0c\r ")


def py_skeleton(roots):
    """the statement of C06 evaluated on a parsed forest (independent of the Coq function); returns set of fault names"""
    faults = set()
    doc = roots[0]
    phase = 0
    for k in doc["kids"]:
        if k["kind"] == "comment":
            continue
        if k["kind"] == "doctype" and phase == 0:
            phase = 1
        elif k["kind"] == "elem" and k["ns"] == L.HTML and k["local"] == "html" and phase < 2:
            phase = 2
        else:
            faults.add("doc-children")
            break
    else:
        if phase != 2:
            faults.add("doc-children")
    for h in doc["kids"]:
        if h["kind"] == "elem" and h["ns"] == L.HTML and h["local"] == "html":
            for k in h["kids"]:
                if k["kind"] in ("elem", "comment"):
                    continue
                if k["kind"] == "text" and all(c in WS for c in L.unesc(k["f"][0])):
                    continue
                faults.add("html-child-kind")
            els = [(k["ns"], k["local"]) for k in h["kids"] if k["kind"] == "elem"]
            ok = len(els) >= 2 and els[0] == (L.HTML, "head") and (
                (els[1] == (L.HTML, "body") and len(els) == 2) or
                (els[1] == (L.HTML, "frameset") and all(e == (L.HTML, "noframes") for e in els[2:])))
            if not ok:
                faults.add("html-elements")
    for n in L.all_nodes(roots):
        ks = n["kids"]
        if any(a["kind"] == "text" and b["kind"] == "text" for a, b in zip(ks, ks[1:])):
            faults.add("adjacent-text")
        if n["kind"] == "text" and L.unesc(n["f"][0]) == "":
            faults.add("empty-text")
        if ks and n["kind"] not in ("elem", "doc"):
            faults.add("children-of-leaf")
    return faults


def coq_faults(skel):
    return set() if skel == "ok" else set(x.split("@")[0] for x in skel.split())


def classify(trace, tree, faults):
    """the known WHATWG-conformant class, or a generic signature of the failing tree"""
    sig = "+".join(sorted(faults))
    try:
        roots = L.parse_forest(tree)
        htmls = [k for k in roots[0]["kids"] if k["kind"] == "elem" and k["ns"] == L.HTML and k["local"] == "html"]
        if faults == {"html-elements"} and len(htmls) == 1:
            els = [k for k in htmls[0]["kids"] if k["kind"] == "elem"]
            names = [(k["ns"], k["local"]) for k in els]
            if len(els) > 2 and names[0] == (L.HTML, "head") and names[1] == (L.HTML, "frameset"):
                extra = [k for k in els[2:] if (k["ns"], k["local"]) != (L.HTML, "noframes")]
                fs_id = int(els[1]["id"])
                created = {}
                for o in L.trace_ops(trace):
                    if o.startswith("create_element "):
                        w = o.split()
                        created[int(w[1])] = (L.unesc(w[3]), L.unesc(w[4]))
                ok = bool(extra)
                for e in extra:
                    eid = int(e["id"])
                    # a formatting element created after the frameset, appended directly to html, whose name was
                    # already carried by an element created before the frameset (the entry that is reconstructed)
                    ok = ok and e["ns"] == L.HTML and e["local"] in L.FMT and eid > fs_id
                    ok = ok and ("append %s n %d" % (htmls[0]["id"], eid)) in L.trace_ops(trace)
                    ok = ok and any(v == (L.HTML, e["local"]) and k < fs_id for k, v in created.items())
                if ok:
                    return KF_RECONSTRUCT
            sig += ":" + ",".join(n[1] for n in names[:6])
        elif "doc-children" in faults:
            sig += ":" + ",".join(k["kind"] + ("=" + k["local"] if k["kind"] == "elem" else "") for k in roots[0]["kids"][:6])
    except Exception as e:      # noqa
        sig += ":unparsed"
    return sig


SKEL_WS = ["", " ", "\n", "\t", "\x0c", "\r", "&nbsp;", "\u00a0", "\u2003", "\u3000", "\u0085", "\x0b", "\u2028", "\ufeff", "x",
           "&#32;", "&#x3000;", "\0", "<!--c-->"]
SKEL_PARTS = ["<!DOCTYPE html>", "<html>", "<head>", "</head>", "<body>", "</body>", "</html>", "<frameset>", "<frame>",
              "</frameset>", "<noframes>", "</noframes>", "<title>t</title>", "<p>", "x", "<template>", "</template>"]


def gen_skeleton_input(rng):
    """directed at the skeleton itself: every kind of (non-)whitespace character between the structural tags"""
    k = rng.random()
    if k < 0.5:
        seq = ["<!DOCTYPE html>", "<html>", "<head>", "</head>", "<body>", "x", "</body>", "</html>"]
    elif k < 0.8:
        seq = ["<!DOCTYPE html>", "<html>", "<head>", "</head>", "<frameset>", "<frame>", "</frameset>", "</html>"]
    else:
        seq = [rng.choice(SKEL_PARTS) for _ in range(rng.randint(2, 9))]
    seq = [t for t in seq if rng.random() < 0.85]
    out = []
    for t in seq:
        out.append(t)
        if rng.random() < 0.5:
            out.append("".join(rng.choice(SKEL_WS) for _ in range(rng.randint(1, 3))))
    return "".join(out)


def gen_doc_cases(rng, n):
    """documents only; every input under the whole / one-character / a random chunking and a scripting setting"""
    cases = []
    while len(cases) < n:
        s = gen_skeleton_input(rng) if rng.random() < 0.2 else L.gen_html_input(rng)
        fl = L.rand_flags(rng)
        chs = [[s]]
        if 1 < len(s) <= 160:
            chs.append(list(s))
        if len(s) > 1:
            chs.append(L.pick_chunking(rng, s, 0.0, 0.0))
        for c in chs:
            cases.append(L.mk_case("html", c, fl))
        # the other scripting setting, whole input
        other = fl.replace("s", "") if "s" in fl else fl.replace("-", "") + "s"
        cases.append(L.mk_case("html", [s], other or "-"))
    return cases


def judge_batch(ck, cases, res, stats, fault_hist, nontriv, samples, by_class):
    for case, (a, b) in zip(cases, res):
        f = L.case_fields(case)
        if f["kind"] != "html":
            continue
        if "bad" in a:
            L.note_broken(ck, "sinkmon produced no result for %r: %s" % (case[:300], a["bad"]))
            continue
        if a["apanic"]:
            stats["tree_builder_panics"] += 1
            if stats["tree_builder_panics"] <= 2:
                # fail closed: a parse that cannot be judged is no evidence for the property
                L.note_broken(ck, "parse could not be judged because the tree builder panicked (C04's property): %s on %s" % (
                    a["trace"][:160], json.dumps(L.describe(case), ensure_ascii=True)[:300]))
            continue
        if "bad" in b:
            L.note_broken(ck, "model driver failed on the trace of %r: %s" % (case[:300], b["bad"]))
            continue
        stats["documents"] += 1
        stats["with_scripting" if "s" in f["flags"] else "without_scripting"] += 1
        if len(f["chunks"]) > 1 and all(len(c) == 1 for c in f["chunks"]):
            stats["one_char_chunked"] += 1
        tr = a["trace"]
        if '"frameset"' in tr:
            stats["frameset_documents"] += 1
        if "get_template_contents" in tr:
            stats["with_template"] += 1
        if "append_doctype_to_document" in tr:
            stats["with_doctype"] += 1
        if L.nontrivial(tr):
            nontriv.add(hash(b["TREE"]))
        if len(samples) < 3:
            samples.append(L.describe(case)["input"][:200])
        faults = coq_faults(b["SKEL"])
        if b["SKEL"] == "INCONSISTENT":
            L.note_broken(ck, "skeleton_ok and skeleton_faults disagree on %r" % case[:300])
        # cross-checks: the DOM the judge saw is the tree the sinks built; an independent evaluation agrees
        clone = "maybe_clone_an_option" in tr
        if a["rpanic"]:
            ck.notes.append("RcDom panicked (C05's subject): %s" % a["rtrace"][:160])
        elif clone and (a["rforest"] != b["TREE"] or a["aforest"] != b["TREE"]):
            stats["clone_traces_not_compared_with_rcdom"] += 1
        else:
            if a["rforest"] != b["TREE"]:
                L.note_broken(ck, "DomSpec.run of the recorded calls differs from RcDom's tree for %r" % case[:300])
            if a["aforest"] != b["TREE"]:
                L.note_broken(ck, "DomSpec.run of the recorded calls differs from the arena sink's tree for %r" % case[:300])
            try:
                pf = py_skeleton(L.parse_forest(a["rforest"]))
                if pf != faults:
                    L.note_broken(ck, "Python evaluation of the statement on RcDom's tree (%s) disagrees with skeleton_ok (%s) for %r" % (
                        sorted(pf), sorted(faults), case[:300]))
            except Exception as e:      # noqa
                L.note_broken(ck, "cannot parse RcDom's tree for %r: %s" % (case[:200], e))
        if faults:
            stats["skeleton_bad"] += 1
            for x in faults:
                fault_hist[x] = fault_hist.get(x, 0) + 1
            items = by_class.setdefault(classify(a["trace"], b["TREE"], faults), [])
            items.append((case, a, b, faults) if len(items) < 200 else None)
        else:
            stats["skeleton_ok"] += 1



def run(ck):
    proofs_ok, impl, model = L.build(ck)
    if model is None:
        return ck.finish(trusted=L.TRUSTED)
    rng = ck.rng
    if ck.replay:
        rp = json.load(open(ck.replay))
        batches = [[rp["case"]] if "case" in rp else []]
    else:
        total = 100000 if ck.quick else 1200000
        bsz = 50000
        batches = [None] * ((total + bsz - 1) // bsz)

    stats = {"documents": 0, "tree_builder_panics": 0, "skeleton_ok": 0, "skeleton_bad": 0, "one_char_chunked": 0,
             "with_scripting": 0, "without_scripting": 0, "frameset_documents": 0, "with_template": 0,
             "with_doctype": 0, "clone_traces_not_compared_with_rcdom": 0}
    fault_hist = {}
    nontriv = set()
    samples = []
    by_class = {}
    evaluations = 0
    for bi, cases in enumerate(batches):
        if cases is None:
            cases = (L.load_corpus("c06.txt") if bi == 0 else []) + gen_doc_cases(rng, bsz)
        evaluations += len(cases)
        res = L.run_all(ck, impl, model, cases)
        judge_batch(ck, cases, res, stats, fault_hist, nontriv, samples, by_class)
        if len(ck.broken) > 20:
            break

    for cls, all_items in sorted(by_class.items()):
        items = [it for it in all_items if it is not None]
        case, a, b, faults = min(items, key=lambda it: len(L.case_input(it[0])))

        def same(a2, b2, cls=cls):
            if "bad" in a2 or "bad" in b2 or a2["apanic"]:
                return False
            f2 = coq_faults(b2["SKEL"])
            return bool(f2) and classify(a2["trace"], b2["TREE"], f2) == cls
        small = case if ck.replay else L.shrink(ck, impl, model, case, same)
        (a2, b2), = L.run_all(ck, impl, model, [small])
        ck.violation(
            "parsed document does not have the canonical skeleton (%s) - %d failing cases of this class" % (
                "+".join(sorted(faults)), len(all_items)),
            {"kind": "failing-input", "case": small, "input": L.describe(small), "faults": sorted(faults),
             "tree": b2.get("TREE", "")[:3000], "original_case": case}, case_class=cls)

    ck.cov.update({
        "evaluations": evaluations, "distinct_nontrivial": len(nontriv),
        "rule": "one evaluation = one html5ever::parse_document run (one input, one chunking, one option setting) whose "
                "final tree is judged by the extracted Skeleton.skeleton_ok; non-trivial = distinct final trees of parses "
                "whose call trace contains at least one of " + ", ".join(L.RARE),
        "samples": samples, "case_counts": stats, "fault_histogram": fault_hist,
        "explanation": "Props/C06.v proves that the boolean judge means the stated predicate and evaluates the WHATWG "
                       "counterexample; that every parse yields the skeleton outside the known class is established by the "
                       "monitored runs counted here, not by a proof about the tree builder.",
    })
    return ck.finish(
        trusted=L.TRUSTED,
        assumptions=["reading decision: 'frameset optionally followed by noframes' allows several noframes elements",
                     "the conditions on text nodes / leaves are judged on every node of the arena (detached subtrees too)",
                     "the tree judged is DomSpec.run of the recorded TreeSink calls (cross-checked against RcDom's and the "
                     "arena sink's trees on every case without an option->selectedcontent request)",
                     "quantification over all inputs: monitored runs only"])
