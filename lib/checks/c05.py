"""C05 - Tree builders honour the documented TreeSink calling contract.

proof      : coq/Props/C05.v - meta-theorems about the decision procedure: Contract.monitor (the judge) answers
             None exactly when every call of the trace satisfies the relational statement of the contract in the
             DOM state in which it is issued; contract-respecting call sequences keep the abstract DOM well-formed;
             a trace accepted by the monitor satisfies DomSpec.contract_run (C20's assumption).
tie/oracle : monitored runs - html5ever (documents, fragments over many context elements, with/without a form
             element, scripting on/off, other options) and xml5ever parse generated inputs chunk by chunk into
             TraceSink<ArenaSink> and TraceSink<RcDom> (harness bin `sinkmon`, every TreeSink call recorded incl.
             queries); the extracted Coq monitor (ocaml/sinkspec_driver.ml) judges every recorded trace.
             Cross-checks: the two sinks must record the same calls and build the same forest; the arena sink's own
             breach notes must name the same clauses as the Coq monitor; RcDom must not panic.
This module also holds the generators / runners shared with C06 and C18.
"""
import json
import os
import re

import toklib as T

ROOT = os.path.dirname(os.path.dirname(os.path.dirname(os.path.abspath(__file__))))
HTML = "http://www.w3.org/1999/xhtml"

TRUSTED = [
    "Coq 8.16.1 kernel (coqc; vm_compute for the concrete witnesses and the census lemma)",
    "Extraction (ExtrOcamlBasic only) + ocamlopt 4.13.1; ocaml/sinkspec_driver.ml, ocaml/conv.ml",
    "harness/src/tracesink.rs (records every TreeSink call), harness/src/monitor.rs (arena sink, GC simulation), "
    "harness/src/bin/sinkmon.rs (drives tokenizer.feed chunk by chunk, calls trace_handles at every return)",
    "DomSpec.apply as the reading of the TreeSink documentation; Contract.check_op as the reading of the contract",
    "lib/checks/c05.py generators; the quantification over all inputs is discharged by monitored runs, not by a proof "
    "about the tree builders (the executable tree-builder model is not finished)",
]


def note_broken(ck, msg):
    """a broken tie / cross-check; the list is capped so that a systematic breakage stays readable"""
    if len(ck.broken) < 25:
        ck.broken.append(msg)
    elif len(ck.broken) == 25:
        ck.broken.append("... further broken cross-checks suppressed")


# ---------------------------------------------------------------------- trace text format (tracesink.rs)
def esc(s):
    o = ['"']
    for c in s:
        u = ord(c)
        if 0x21 <= u <= 0x7e and c not in '"\\':
            o.append(c)
        else:
            o.append("\\u{%x}" % u)
    o.append('"')
    return "".join(o)


def unesc(tok):
    return re.sub(r"\\u\{([0-9a-f]+)\}", lambda m: chr(int(m.group(1), 16)), tok[1:-1])


def mk_case(kind, chunks, flags="-", ctx="-", form=False):
    fl = "".join(sorted(set(flags.replace("-", "")))) or "-"
    return "P %s %s %s %s %s" % (kind, fl, ctx, "f" if form else "-", " ".join(esc(c) for c in chunks))


def case_fields(case):
    w = case.split()
    return {"kind": w[1], "flags": w[2], "ctx": w[3], "form": w[4] == "f", "chunks": [unesc(x) for x in w[5:]]}


def case_input(case):
    return "".join(case_fields(case)["chunks"])


def rechunk(case, chunks):
    w = case.split()
    return " ".join(w[:5] + [esc(c) for c in chunks])


def with_flags(case, flags):
    w = case.split()
    w[2] = "".join(sorted(set(flags.replace("-", "")))) or "-"
    return " ".join(w)


def describe(case):
    f = case_fields(case)
    return {"kind": f["kind"], "flags": f["flags"], "context": f["ctx"], "form_element": f["form"],
            "chunks": f["chunks"], "input": "".join(f["chunks"])}


# ---------------------------------------------------------------------- input pools
FMT = ["a", "b", "big", "code", "em", "font", "i", "nobr", "s", "small", "strike", "strong", "tt", "u"]
GENERAL = ["<p>", "</p>", "<div>", "</div>", "<b>", "</b>", "<i>", "</i>", "<a href=x>", "</a>", "<span id=s>", "</span>",
           "text", "x y", " ", "\n", "<!--c-->", "&amp;", "<br>", "<ul><li>", "</li>", "</ul>", "<h1>", "</h1>", "<nobr>",
           "</nobr>", "<em>", "</em>", "<svg><g>", "</g></svg>", "<math><mi>", "</mi></math>", "<pre>\n", "</pre>", "<form>",
           "</form>", "<input>", "<button>", "</button>", "<script>a<b</script>", "<style>p{}</style>",
           "<textarea>t</textarea>", "<title>T</title>", "<!DOCTYPE html>", "<html lang=en>", "<body class=c>", "<head>",
           "</head>", "</body>", "</html>", "<noscript>", "</noscript>", "<font color=r>", "</font>", "<u>", "</u>",
           "<math><annotation-xml encoding=text/html><p>", "</annotation-xml></math>", "<svg><foreignObject><div>",
           "</foreignObject></svg>", "\u00e9", "<img src=i a=1 a=2>", "<marquee>", "<object>", "</object>", "<dd>", "<dt>",
           "<image>", "<plaintext>", "<xmp>", "</xmp>", "<iframe>", "</iframe>", "<hr>", "<listing>\n", "<li>", "<dl>",
           "<meta charset=x>", "<link>", "<base>", "<svg><title>", "<svg><desc><b>", "</svg>", "</math>", "<math><mtext><i>",
           "<svg><script>s</script>", "<svg/>", "<br/>", "</br>", "<p/>", "\0", "<![CDATA[x]]>", "<svg><![CDATA[y]]>",
           # constructs whose content is empty (an empty run of characters must never become a text node)
           "<svg><![CDATA[]]></svg>", "<math><mi><![CDATA[]]>", "<svg><![CDATA[]]>x<![CDATA[]]>", "<!---->", "<svg><![CDATA[]]><![CDATA[ ]]>"]
TABLE = ["<table>", "</table>", "<tr>", "</tr>", "<td>", "</td>", "<th>", "<tbody>", "</tbody>", "<thead>", "<tfoot>",
         "<caption>", "</caption>", "<colgroup>", "<col>", "foster", " ", "<b>", "</b>", "<input type=hidden>", "<input>",
         "<form>", "</form>", "<select>", "<template>", "</template>", "<style>x</style>", "<script></script>", "<a>", "<p>",
         "x", "<table>", "<div>", "<!--t-->", "<i>", "<nobr>", "</a>", "<button>", "<svg>", "<math>", "</colgroup>",
         "<input type=HIDDEN a a>", "\n", "<li>", "</p>", "<h1>", "</body>", "</html>", "<frameset>", "<body a=b>"]
ADOPT = ["<b>", "<i>", "<a href=1>", "<a>", "<em>", "<u>", "<font size=1>", "<nobr>", "<s>", "<strong>", "<code>", "<tt>",
         "</b>", "</i>", "</a>", "</em>", "</u>", "</font>", "</nobr>", "</s>", "</strong>", "<p>", "</p>", "<div>", "</div>",
         "x", "y", " ", "<table>", "<td>", "</table>", "<li>", "<button>", "<address>", "<blockquote>", "<h2>", "</h2>",
         "<applet>", "</applet>", "<b a=1 b=2>", "<b a=1 b=2>", "<b a=1 b=2>", "<b a=1 b=2>", "<big>", "<small>", "</big>",
         "<marquee>", "</marquee>", "<object>", "<template>", "</template>", "<tr>", "<select>", "<svg>", "</svg>"]
SELECT = ["<select>", "<select multiple>", "</select>", "<option>", "<option selected>", "<option selected id=o>", "</option>",
          "<optgroup>", "</optgroup>", "<button>", "</button>", "<selectedcontent>", "</selectedcontent>", "<div>", "</div>",
          "<span>", "</span>", "A", "<b>c</b>", "<hr>", "<datalist>", "</datalist>", "<img src=i>", "<i>", "</i>", "<template>",
          "</template>", "<svg><g></g></svg>", "<input>", "<p>", "text", "<selectedcontent>old</selectedcontent>",
          "<option selected>S<i>t</i>u</option>", "<keygen>", "<textarea>", "<table>", "<tr>", "<td>", "<caption>",
          "<script>s</script>", "<b>", "</b>"]
TEMPLATE = ["<template>", "</template>", "<template>", "</template>", "<tr>", "<td>", "x", "<div>", "</div>", "<table>",
            "</table>", "<p>", "<b>", "</b>", " ", "<!--c-->", "<select>", "<option>", "<col>", "<body>", "<html a=1>",
            "<frameset>", "<script></script>", "<caption>", "<tbody>", "<head>", "</head>", "</body>", "</html>",
            "<template shadowrootmode=open>", "<template shadowrootmode=closed a=1>", "<form>", "<input>", "</form>",
            "<colgroup>", "<style>s</style>", "<title>t</title>", "<svg><template>", "<math><template>", "<i>", "</i>"]
FRAMESET = ["<frameset>", "</frameset>", "<frame>", "<noframes>", "</noframes>", "<frameset rows=1>", "</html>", "</body>",
            "<html a=1>", "<body>", "<head>", "</head>", " ", "\n", "x", "<!--c-->", "<s>", "<b>", "<i>", "<a>", "<nobr>",
            "<p>", "<div>", "<br>", "<input type=hidden>", "<input>", "<template>", "</template>", "<script></script>",
            "<!DOCTYPE html>", "<table>", "<svg>", "<li>", "<pre>", "<embed>", "<object>", "\0", "<noframes>x</noframes>",
            "<font>", "</font>", "<em>", "<title>t</title>", "<meta>", "<style></style>", "<base>", "<select>", "<form>"]
HEAD = ["<head>", "</head>", "<head a=1>", "<title>t</title>", "<meta charset=u>", "<link>", "<base>", "<style>s</style>",
        "<script>x</script>", "<noscript>", "</noscript>", "<noscript><link>", "<noscript><p>", "<template>", "</template>",
        "<body>", "</body>", "<html>", "</html>", "<html b=2>", " ", "\n", "x", "<!--c-->", "<!DOCTYPE html>",
        "<!DOCTYPE html PUBLIC \"-//W3C//DTD HTML 4.01 Transitional//EN\">", "<!doctype a SYSTEM 'x'>", "<br>", "</br>",
        "</p>", "<p>", "<frameset>", "<noframes>", "</noframes>", "<basefont>", "<bgsound>", "<object>", "</head><title>t",
        "</head> <link>", "</head><script>s</script>", "</head><template>", "</head><noframes>", "</head><style>",
        "<plaintext>", "<textarea>", "</textarea>", "\t", "\x0c", "\r", "<svg>", "<math>", "<a>", "<i>"]
FORMS = ["<form>", "</form>", "<form id=f>", "<input>", "<input form=f>", "<button>", "</button>", "<fieldset>", "</fieldset>",
         "<object>", "</object>", "<output>", "<select>", "</select>", "<textarea>", "</textarea>", "<img>", "<image>",
         "<label>", "<table>", "<tr>", "<td>", "</table>", "<template>", "</template>", "<div>", "</div>", "<p>", "x", "<b>",
         "</b>", "<form><form>", "<table><form>", "<table><input>", "<table><input type=hidden>", "<keygen>", "<isindex>",
         "<option>", "<svg><input>", "<math><img>", "</p>", "<li>", "<a>", "</a>", "<nobr>"]
DUP = ["<html a=1 b=2>", "<html b=9 c=3>", "<head>", "</head>", "<body x=1>", "<body x=2 y=3>", "<body z>", "x", "<p>", "</body>",
       "</html>", "<frameset>", "</frameset>", "<html>", " ", "<!--c-->", "<div>", "<body y=4 onload=f>", "<noframes>",
       "<template>", "</template>", "<html a a A=2>", "<body x X x=3>", "<div id=1 ID=2 id=3>", "<svg viewBox=1 viewbox=2>",
       "<math definitionurl=1 definitionURL=2>", "<svg xlink:href=1 xlink:href=2 xml:lang=a>", "<b a a>", "</b>", "<p>",
       "<a xlink:href=1 href=2>", "<svg><a xlink:href=1 XLINK:HREF=2>", "<table>", "<img a=1 a=2 b a>"]
POOLS = {"general": GENERAL, "table": TABLE, "adoption": ADOPT, "select": SELECT, "template": TEMPLATE,
         "frameset": FRAMESET, "head": HEAD, "forms": FORMS, "dup": DUP}
THEMES = ["general", "table", "table", "adoption", "adoption", "adoption", "select", "template", "template", "frameset",
          "frameset", "head", "head", "forms", "forms", "dup"]
FRAG_CTX = ["html:div", "html:table", "html:tr", "html:tbody", "html:td", "html:th", "html:select", "html:template",
            "html:body", "html:html", "html:head", "html:title", "html:textarea", "html:colgroup", "html:caption",
            "html:script", "html:style", "html:noscript", "html:plaintext", "html:frameset", "html:form", "html:p",
            "html:option", "html:optgroup", "html:button", "html:object", "html:xmp", "html:iframe", "html:noframes",
            "svg:svg", "svg:foreignObject", "svg:title", "svg:desc", "svg:script", "math:math", "math:mi",
            "math:annotation-xml", "math:mtext", "html:a", "html:b", "html:li"]
XML = ["<a>", "</a>", "<b x=\"1\">", "</b>", "<c y='2' z='3'/>", "<?pi d?>", "<!--c-->", "text", " ", "<![CDATA[x<y]]>",
       "<!DOCTYPE a>", "<!DOCTYPE b SYSTEM \"s\">", "<p:q xmlns:p=\"u\">", "</p:q>", "&amp;", "&#x41;", "<d xmlns=\"n\">",
       "</d>", "<e/>", "\n", "</>", "<a", "<?xml version=\"1.0\"?>", "t&lt;u", "<script/>", "<script>", "</script>",
       "<a x=\"1\" x=\"2\">", "<a p:x=\"1\" q:x=\"2\" xmlns:p=\"u\" xmlns:q=\"u\">", "<a p:x=\"1\" p:x=\"2\" xmlns:p=\"u\">",
       "<a x=\"1\" p:x=\"2\">", "<a xmlns:p=\"u\" xmlns:p=\"v\">", "<a xml:lang=\"en\" xml:lang=\"fr\"/>",
       "<a xml:space=\"x\" y=\"1\" xml:space=\"z\">", "<a xmlns:x=\"u\" x:y=\"1\" x:y=\"2\"/>", "<a xml:id=\"1\" xml:id=\"1\">", "<template>", "</template>", "<r/>", "\0", "<a/><b/>"]

RARE = ("append_before_sibling", "append_based_on_parent_node", "reparent_children", "add_attrs_if_missing",
        "get_template_contents", "remove_from_parent", "maybe_clone_an_option_into_selectedcontent",
        "associate_with_form", "mark_script_already_started", "append_doctype_to_document", "attach_declarative_shadow")


def gen_soup(rng, theme, n):
    pool = POOLS[theme]
    return "".join(rng.choice(pool) if rng.random() < 0.8 else rng.choice(GENERAL) for _ in range(n))


def gen_eof_in_mode(rng):
    """a short prefix that leaves the tree builder in a chosen insertion mode, then end of input (or a little more)"""
    pre = rng.choice(["", "<!DOCTYPE html>", "<html>", "<head>", "<head><title>", "<head><script>", "<head><noscript>",
                      "<head></head>", "<body>", "<body><p><b>", "<table>", "<table><caption>", "<table><colgroup>",
                      "<table><tbody>", "<table><tr>", "<table><tr><td>", "<select>", "<table><select>", "<template>",
                      "<template><tr>", "<template><td>", "<template><col>", "<body></body>", "<frameset>",
                      "<frameset></frameset>", "<body></html>", "<frameset></frameset></html>", "<textarea>", "<svg>",
                      "<math><mi>", "<table>x", "<plaintext>", "<p><b><i><table><tr><td><a>", "<b><frameset>",
                      "<s><frameset></frameset></html>", "<head></head><i>"])
    return pre + "".join(rng.choice(GENERAL + FRAMESET + [" ", "x", "</html>", "</body>"]) for _ in range(rng.randint(0, 3)))


BLOCKS = ["<p>", "<div>", "<li>", "<table><tr><td>", "<button>", "<address>", "<h1>", "<blockquote>", "<center>", "<ul><li>",
          "<dl><dd>", "<marquee>", "<object>", "<applet>", "<table><caption>", "<svg><foreignObject>", "<math><mtext>",
          "<template>", "<select>", "<fieldset>", "<form>", "<pre>", "<table>", "<td>"]


def gen_adoption(rng):
    """formatting elements opened, block-level / special elements nested inside, formatting end tags out of order:
    the adoption agency algorithm with furthest blocks, inner-loop clones, foster parenting, Noah's Ark clause"""
    out = []
    opened = []
    for _ in range(rng.randint(1, 5)):
        f = rng.choice(FMT)
        opened.append(f)
        out.append("<%s%s>" % (f, rng.choice(["", "", " a=1", " a=1 b=2", " href=x"])))
        if rng.random() < 0.4:
            out.append(rng.choice(["x", " ", "y z"]))
    for _ in range(rng.randint(0, 3)):
        out.append(rng.choice(BLOCKS))
        if rng.random() < 0.5:
            f = rng.choice(FMT)
            opened.append(f)
            out.append("<%s>" % f)
        if rng.random() < 0.5:
            out.append(rng.choice(["1", "2", " "]))
    rng.shuffle(opened)
    for f in opened[:rng.randint(1, len(opened))]:
        out.append("</%s>" % f)
        if rng.random() < 0.5:
            out.append(rng.choice(["t", " ", "<p>", "</p>", "</div>", "</table>", "<b>", "</td>"]))
    return "".join(out)


DOC_PREFIX = ["<!--a-->", "<!DOCTYPE html>", " ", "\n", "<!--b-->", "<!DOCTYPE x>", "<!doctype html SYSTEM 'about:legacy-compat'>",
              "<!DOCTYPE html PUBLIC \"-//W3C//DTD XHTML 1.0 Transitional//EN\" \"u\">", "<?pi?>", "<!-->", "x", "</p>", "<html>",
              "<!--c--><!--d-->", "<![CDATA[x]]>", "\0", "&amp;"]
DOC_SUFFIX = ["</body>", "</html>", "<!--z-->", " ", "x", "</html><!--y-->", "</body><!--x-->", "</html> ", "</html>x", "<p>",
              "<!DOCTYPE late>", "</frameset>", "<noframes>", "</noframes>", "\n", "</html><frameset>", "</html><noframes>"]


_ADJ_CACHE = {}


def foreign_attr_names():
    """attribute names the tree builder rewrites in foreign content, read from the Rust source at run time
    (adjust_svg_attributes / adjust_mathml_attributes / adjust_foreign_attributes): two source names mapping to one
    target name would hand the sink a duplicate"""
    if "n" not in _ADJ_CACHE:
        import re as _re, os as _os
        names = set()
        try:
            src = open(_os.path.join(_os.environ.get("VERIF_REPO", "/repo"), "html5ever/src/tree_builder/mod.rs")).read()
            for fn in ("adjust_svg_attributes", "adjust_mathml_attributes", "adjust_foreign_attributes"):
                m = _re.search(r"fn %s.*?\n    }\n" % fn, src, _re.S)
                if m:
                    names.update(_re.findall(r'"([A-Za-z:]+)"', m.group(0)))
        except OSError:
            pass
        _ADJ_CACHE["n"] = sorted(names) or ["viewbox", "xlink:href", "definitionurl"]
    return _ADJ_CACHE["n"]


def gen_foreign_attrs(rng):
    names = foreign_attr_names()
    el = rng.choice(["<svg>", "<svg><filter>", "<math>", "<svg><g>", "<math><mi>", "<svg><foreignObject><svg>"])
    tag = rng.choice(["feDisplacementMap", "rect", "linearGradient", "mi", "g", "clipPath", "animate"])
    k = rng.randint(2, 5)
    base = rng.randrange(len(names))
    # neighbours in the source table (copy-paste slips pair up adjacent rows) plus random ones
    pick = [names[(base + i) % len(names)] for i in range(k)] if rng.random() < 0.6 else rng.sample(names, min(k, len(names)))
    attrs = " ".join("%s=%s" % (n if rng.random() < 0.7 else n.lower(), i) for i, n in enumerate(pick))
    return el + "<" + tag + " " + attrs + ">x"


def gen_html_input(rng):
    r = rng.random()
    if r < 0.06:
        return gen_foreign_attrs(rng)
    if r < 0.10:
        s = T.gen_html(rng)
    elif r < 0.20:
        s = gen_eof_in_mode(rng)
    elif r < 0.34:
        s = gen_adoption(rng)
    else:
        s = gen_soup(rng, rng.choice(THEMES), rng.randint(2, 22))
    if rng.random() < 0.2:
        s = "".join(rng.choice(DOC_PREFIX) for _ in range(rng.randint(1, 4))) + s
    if rng.random() < 0.2:
        s = s + "".join(rng.choice(DOC_SUFFIX) for _ in range(rng.randint(1, 4)))
    return s


XML_NS_URI = "http://www.w3.org/XML/1998/namespace"


def gen_xml_alias_tag(rng):
    """a start tag whose attributes are drawn from tiny pools of prefixes, bound URIs and local names, so that one
    expanded name is often reached twice - through a repeated name or through two prefixes bound to one URI (the
    reserved xml prefix and its URI included); declarations sit in the tag itself, in any position"""
    uris = ["u", "v", XML_NS_URI]
    decls = [("xmlns:" + p, rng.choice(uris)) for p in rng.sample(["p", "q"], rng.randint(0, 2))]
    if rng.random() < 0.15:
        decls.append(("xmlns", rng.choice(uris)))
    attrs = [(rng.choice(["", "p:", "q:", "xml:"]) + rng.choice(["x", "lang"]), str(i)) for i in range(rng.randint(2, 4))]
    items = decls + attrs
    rng.shuffle(items)
    name = rng.choice(["a", "p:a", "q:b"])
    return "<%s %s%s>" % (name, " ".join('%s="%s"' % kv for kv in items), rng.choice(["", "/"]))


def gen_xml_input(rng):
    r = rng.random()
    if r < 0.30:
        return T.gen_xml(rng)
    if r < 0.45:
        return "".join(gen_xml_alias_tag(rng) if rng.random() < 0.5 else rng.choice(XML) for _ in range(rng.randint(1, 8)))
    return "".join(rng.choice(XML) for _ in range(rng.randint(1, 14)))


def rand_flags(rng):
    fl = ""
    if rng.random() < 0.5:
        fl += "s"
    if rng.random() < 0.06:
        fl += "d"
    if rng.random() < 0.06:
        fl += "i"
    if rng.random() < 0.06:
        fl += rng.choice("ql")
    if rng.random() < 0.1:
        fl += "e"
    return fl or "-"


def pick_chunking(rng, s, one_char=0.2, whole=0.4):
    r = rng.random()
    if r < whole or len(s) < 2:
        return [s]
    if r < whole + one_char and len(s) <= 160:
        return list(s)
    cuts = sorted(rng.sample(range(0, len(s) + 1), min(len(s) + 1, rng.randint(1, 5))))
    pieces, prev = [], 0
    for c in cuts:
        pieces.append(s[prev:c])
        prev = c
    pieces.append(s[prev:])
    if rng.random() < 0.7:
        pieces = [p for p in pieces if p] or [""]
    return pieces


def gen_cases(rng, n, kinds=("html", "frag", "xml"), weights=(0.62, 0.23, 0.15), one_char=0.2, whole=0.4):
    cases = []
    for _ in range(n):
        kind = rng.choices(kinds, weights=weights[:len(kinds)])[0]
        if kind == "xml":
            s = gen_xml_input(rng)
            cases.append(mk_case("xml", pick_chunking(rng, s, one_char, whole), "e" if rng.random() < 0.1 else "-"))
        elif kind == "frag":
            s = gen_html_input(rng)
            cases.append(mk_case("frag", pick_chunking(rng, s, one_char, whole), rand_flags(rng), rng.choice(FRAG_CTX),
                                 rng.random() < 0.3))
        else:
            s = gen_html_input(rng)
            cases.append(mk_case("html", pick_chunking(rng, s, one_char, whole), rand_flags(rng)))
    return cases


def load_corpus(name):
    p = os.path.join(ROOT, "corpus", name)
    out = []
    if os.path.exists(p):
        for l in open(p, encoding="utf8"):
            l = l.strip()
            if l.startswith("P "):
                out.append(l)
    return out


# ---------------------------------------------------------------------- building and running
def build(ck, extra_targets=()):
    """Coq proofs of the property + extraction, harness, model driver.  Returns (proofs_ok, impl exe, model exe)"""
    proofs_ok = ck.coq_props(extra_targets=["Extract/ExtractSinkSpec.vo"] + list(extra_targets))
    bindir = ck.cargo_build(["sinkmon"])
    model = None
    if os.path.exists(os.path.join(ROOT, "coq", "Extract", "sinkspec_model.ml")):
        model = ck.ocaml_build("sinkspec_model", "sinkspec_model.ml", "sinkspec_driver.ml")
    else:
        note_broken(ck, "coq/Extract/sinkspec_model.ml was not produced (Coq build of Extract/ExtractSinkSpec.v failed)")
    return proofs_ok, os.path.join(bindir, "sinkmon"), model


def parse_impl(line):
    """one output line of sinkmon -> dict"""
    if not line.startswith("A "):
        return {"bad": line[:300]}
    body, _, rc = line[2:].partition(" |R| ")
    m = re.match(r"(.*?) \|AT\| (.*?) \|AG\| (.*?) \|AM\| (.*?) \|AS\| (.*?) \|AR\| (.*)$", body, flags=re.S)
    if not m:
        return {"bad": line[:300]}
    rtrace, _, rforest = rc.partition(" |RT| ")
    d = {"trace": m.group(1), "aforest": m.group(2), "gc": m.group(3), "breaches": m.group(4), "collected": m.group(5),
         "rescued": m.group(6),
         "rtrace": m.group(1) if rtrace == "=" else rtrace, "rforest": m.group(2) if rforest == "=" else rforest}
    d["apanic"] = d["trace"].startswith("PANIC ")
    d["rpanic"] = d["rtrace"].startswith("PANIC ")
    return d


def parse_model(line):
    if line.startswith("MODELERROR") or " ## " not in line:
        return {"bad": line[:300]}
    d = {}
    for part in line.split(" ## "):
        k, _, v = part.partition(" ")
        d[k] = v
    tree, _, q = d.get("TREE", "").rpartition(" | Q ")
    d["TREE"], d["Q"] = tree, q
    return d


def run_all(ck, impl, model, cases, margs=()):
    """sinkmon on the cases, then the extracted judge on the arena traces; returns list of (impl dict, model dict)"""
    io = [parse_impl(l) for l in ck.run_lines(impl, [], cases)]
    traces = [(d["trace"] if ("bad" not in d and not d["apanic"]) else "") for d in io]
    mo = [parse_model(l) for l in ck.run_lines(model, list(margs), traces)]
    return list(zip(io, mo))


def trace_ops(trace):
    return [x for x in trace.split(" ; ") if x and not x.startswith("#suspend")]


def expanded_name_duplicates(trace):
    """reading of "two attributes with the same qualified name" after namespace processing (Namespaces in XML 6.3: an
    element may not have two attributes whose qualified names have the same local part and prefixes bound to the same
    namespace name): the ops whose attribute list holds one (namespace, local name) twice, whatever the prefixes.
    Restricted to names that are in a namespace.  The extracted Coq judge compares QualName values (prefix included, as `QualName: Eq` does); this oracle is the
    namespace-aware half.  Returns [(call index, op text)]."""
    bad = []
    for i, o in enumerate(trace_ops(trace)):
        if o.startswith("create_element "):
            t = TOK.findall(o)[6:]          # op H prefix ns local FLAGS | N attrs...
        elif o.startswith("add_attrs_if_missing "):
            t = TOK.findall(o)[2:]
        else:
            continue
        if not t or not t[0].isdigit():
            continue
        n = int(t[0])
        names = [(t[1 + 4 * k + 1], t[1 + 4 * k + 2]) for k in range(n) if 1 + 4 * k + 2 < len(t)]
        # only names in a namespace: the rule is about prefixes BOUND to one namespace name; an unbound prefix
        # (xml5ever's error recovery keeps the prefix and puts the name in no namespace) is not covered by it
        names = [x for x in names if x[0] != '""']
        if len(set(names)) != len(names):
            bad.append((i, o))
    return bad


def op_hist(trace, hist):
    for o in trace.split(" ; "):
        k = o.split(" ", 1)[0]
        hist[k] = hist.get(k, 0) + 1


def nontrivial(trace):
    return any((" ; " + r + " ") in (" ; " + trace) for r in RARE)


# ---------------------------------------------------------------------- canonical forests (TREE text of the drivers)
TOK = re.compile(r'"[^"]*"|\(|\)|[^\s()"]+')


def parse_forest(text):
    """'(doc 0 (elem 1 - "ns" "local" - 0 ...) ...) (elem ...)' -> list of node dicts"""
    toks = TOK.findall(text)
    pos = [0]

    def nxt():
        t = toks[pos[0]]
        pos[0] += 1
        return t

    def node():
        assert nxt() == "("
        kind = nxt()
        nd = {"kind": kind, "id": None, "f": [], "tmpl": None, "kids": []}
        if kind == "doc":
            nd["id"] = nxt()
        elif kind == "doctype":
            nd["f"] = [nxt(), nxt(), nxt()]
        elif kind == "text":
            nd["f"] = [nxt()]
        elif kind == "comment":
            nd["id"] = nxt()
            nd["f"] = [nxt()]
        elif kind == "pi":
            nd["id"] = nxt()
            nd["f"] = [nxt(), nxt()]
        elif kind == "elem":
            nd["id"] = nxt()
            nd["name"] = [nxt(), nxt(), nxt()]
            nd["ns"] = unesc(nd["name"][1])
            nd["local"] = unesc(nd["name"][2])
            nd["mip"] = nxt()
            k = int(nxt())
            nd["attrs"] = [[nxt(), nxt(), nxt(), nxt()] for _ in range(k)]
            if toks[pos[0]] == "tmpl":
                nxt()
                nd["tmpl"] = node()
        else:
            raise ValueError("bad node kind " + kind)
        while toks[pos[0]] == "(":
            nd["kids"].append(node())
        assert nxt() == ")"
        return nd

    roots = []
    while pos[0] < len(toks):
        roots.append(node())
    return roots


def all_nodes(roots):
    st = list(roots)
    while st:
        n = st.pop()
        yield n
        st.extend(n["kids"])
        if n["tmpl"] is not None:
            st.append(n["tmpl"])


# ---------------------------------------------------------------------- shrinking
PIECE = re.compile(r"<[^<>]*>?|&[#\w]*;?|[^<&]", re.S)


def shrink(ck, impl, model, case, still_fails, margs=(), budget=12):
    """greedy removal of syntactic pieces while `still_fails(impl dict, model dict)` holds (whole input, one chunk
    unless the chunking is needed)"""
    f = case_fields(case)
    whole = rechunk(case, ["".join(f["chunks"])])
    res = run_all(ck, impl, model, [whole], margs)
    if still_fails(*res[0]):
        case = whole
    else:
        return case
    for _ in range(budget):
        s = case_input(case)
        pieces = PIECE.findall(s)
        if len(pieces) <= 1:
            break
        cands = [rechunk(case, ["".join(pieces[:i] + pieces[i + 1:])]) for i in range(len(pieces))]
        res = run_all(ck, impl, model, cands, margs)
        nxt = None
        for c, (a, b) in zip(cands, res):
            if "bad" not in a and "bad" not in b and still_fails(a, b):
                nxt = c
                break
        if nxt is None:
            break
        case = nxt
    return case


# ---------------------------------------------------------------------- C05 proper
ARENA_TO_CLAUSE = {
    "child-has-parent": "child-has-parent", "child-kind": "child-not-created", "cycle": "cycle",
    "parent-not-container": "parent-not-container", "sibling-is-text": "sibling-is-text",
    "sibling-without-parent": "sibling-without-parent", "second-doctype": "second-doctype",
    "after-element": "doctype-after-element", "duplicate-attribute": "duplicate-attribute",
    "non-element": "not-element", "non-template": "not-template", "before-itself": "cycle",
}
# clauses only the Coq monitor knows (kinds of elements, trace numbering)
COQ_ONLY = {"not-form", "not-form-associatable", "not-script", "not-option", "template-flag", "mathml-ip-flag",
            "handle-numbering", "unknown-handle", "clone-model"}

KF_XML_DOCTYPE = "xml-doctype-appended-twice"


def arena_clauses(breaches):
    out = set()
    if breaches in ("ok", "-"):
        return out
    for b in breaches.split():
        what = b.split(":", 1)[1] if ":" in b else b
        for k, v in ARENA_TO_CLAUSE.items():
            if what.endswith(k):
                out.add(v)
                break
        else:
            out.add("?" + what)
    return out


def coq_violations(contract):
    """'bad@K clause call , bad@...' -> [(K, clause, call)]"""
    if contract == "ok":
        return []
    out = []
    for part in contract.split(" , "):
        m = re.match(r"bad@(\d+) (\S+) (\S+)", part)
        out.append((int(m.group(1)), m.group(2), m.group(3)))
    return out


def classify(case, trace, viols):
    """narrow signature of a failing trace: the known XML Start-phase finding, or a generic description"""
    kind = case_fields(case)["kind"]
    ops = trace_ops(trace)
    if kind == "xml" and viols and all(v[1] == "second-doctype" for v in viols):
        # root cause signature: every offending doctype arrives before the first element is created (Start phase)
        first_elem = next((i for i, o in enumerate(ops) if o.startswith("create_element ")), len(ops))
        if all(v[0] < first_elem for v in viols):
            return KF_XML_DOCTYPE
    k, clause, call = viols[0]
    return "%s:%s:%s" % (kind, clause, call)


# ---------------------------------------------------------------------- differential test of the judge's glue
FIXED_OPS = ("create_element", "create_comment", "create_pi", "get_template_contents")


def mutate_trace(rng, ops):
    """a recorded call sequence with a few calls duplicated, deleted or pointed at another handle (the calls that
    number handles are left alone): mostly contract-breaking sequences the tree builders never produce"""
    ops = list(ops)
    for _ in range(rng.randint(1, 3)):
        idx = [i for i, o in enumerate(ops) if o.split(" ", 1)[0] not in FIXED_OPS]
        if not idx:
            break
        i = rng.choice(idx)
        r = rng.random()
        if r < 0.3:
            ops.insert(rng.randint(i, len(ops)), ops[i])
        elif r < 0.55:
            del ops[i]
        else:
            created = sum(1 for o in ops[:i] if o.split(" ", 1)[0] in FIXED_OPS[:3])
            w = ops[i].split(" ")
            pos = [k for k in range(1, len(w)) if w[k].isdigit() and not (w[0] == "set_current_line")
                   and not (k >= 2 and w[k - 1] == "t")]
            if w[0] in ("add_attrs_if_missing", "attach_declarative_shadow"):
                pos = [k for k in pos if k <= (1 if w[0] == "add_attrs_if_missing" else 2)]
            if pos:
                w[rng.choice(pos)] = str(rng.randint(0, created))
                ops[i] = " ".join(w)
    return ops


def glue_differential(ck, impl, model, traces, rng, n):
    """mutated traces: the arena sink's first breach and the Coq monitor's first breach must agree (call index and
    clause), and on accepted sequences DomSpec.run and the arena sink must build the same forest"""
    muts = []
    while len(muts) < n:
        t = rng.choice(traces)
        m = " ; ".join(mutate_trace(rng, trace_ops(t)))
        if m:
            muts.append(m)
    io = [parse_impl(l) for l in ck.run_lines(impl, [], ["R " + m for m in muts])]
    mo = [parse_model(l) for l in ck.run_lines(model, ["--all"], muts)]
    st = {"mutated_traces": len(muts), "both_accept": 0, "both_reject_same_call_and_clause": 0, "skipped_kind_only_clause_first": 0,
          "first_clauses": {}}
    for m, a, b in zip(muts, io, mo):
        if "bad" in a or "bad" in b or a.get("apanic"):
            note_broken(ck, "glue differential: no result for mutated trace %r: %s / %s" % (m[:200], a.get("bad", a.get("trace", ""))[:100], b.get("bad", "")[:100]))
            continue
        viols = coq_violations(b["CONTRACT"])
        ab = []
        if a["breaches"] not in ("ok", "-"):
            for x in a["breaches"].split():
                i, _, what = x.partition(":")
                cl = next((v for k, v in ARENA_TO_CLAUSE.items() if what.endswith(k)), "?" + what)
                # Replayer::new itself calls get_document once: the arena's call counter is one ahead
                ab.append((int(i) - 1, cl))
        first_a = ab[0] if ab else None
        first_c = (viols[0][0], viols[0][1]) if viols else None
        if first_c is not None and first_c[1] in COQ_ONLY and (first_a is None or first_c[0] <= first_a[0]):
            st["skipped_kind_only_clause_first"] += 1
            continue
        if first_a != first_c:
            note_broken(ck, "glue differential: arena sink's first breach %s, Coq monitor's first breach %s on mutated trace %r" % (
                first_a, first_c, m[:600]))
            continue
        if first_c is None:
            st["both_accept"] += 1
            if b["TREE"] != a["aforest"] and "maybe_clone_an_option" not in m:
                note_broken(ck, "glue differential: DomSpec.run and the arena sink build different forests for accepted trace %r" % m[:600])
        else:
            st["both_reject_same_call_and_clause"] += 1
            st["first_clauses"][first_c[1]] = st["first_clauses"].get(first_c[1], 0) + 1
    return st


def judge_batch(ck, cases, res, stats, hist, clause_hist, ctx_seen, nontriv, samples, by_class):
    for case, (a, b) in zip(cases, res):
        f = case_fields(case)
        stats[f["kind"]] += 1
        if "bad" in a:
            note_broken(ck, "sinkmon produced no result for %r: %s" % (case[:300], a["bad"]))
            continue
        if a["apanic"]:
            # the tree builder itself panicked (also with a sink that never panics): C04's subject
            stats["tree_builder_panics"] += 1
            if stats["tree_builder_panics"] <= 2:
                # fail closed: a parse that cannot be judged is no evidence for the property
                note_broken(ck, "parse could not be judged because the tree builder panicked (C04's property): %s on %s" % (
                    a["trace"][:160], json.dumps(describe(case), ensure_ascii=True)[:300]))
            continue
        if "bad" in b:
            note_broken(ck, "model driver failed on the trace of %r: %s" % (case[:300], b["bad"]))
            continue
        stats["traces_judged"] += 1
        ncalls = len(trace_ops(a["trace"]))
        stats["calls_judged"] += ncalls
        if "s" in f["flags"]:
            stats["with_scripting"] += 1
        if len(f["chunks"]) > 1 and all(len(c) == 1 for c in f["chunks"]):
            stats["one_char_chunked"] += 1
        if f["kind"] == "frag":
            ctx_seen.add(f["ctx"])
        op_hist(a["trace"], hist)
        if nontrivial(a["trace"]):
            nontriv.add(hash(a["trace"]))
        if len(samples) < 3 and f["kind"] == "html":
            samples.append(describe(case)["input"][:200])
        viols = coq_violations(b["CONTRACT"])
        xdup = expanded_name_duplicates(a["trace"])
        if xdup and not any(v[1] == "duplicate-attribute" for v in viols):
            stats["expanded_name_duplicates"] = stats.get("expanded_name_duplicates", 0) + 1
            if stats["expanded_name_duplicates"] <= 3:
                ck.violation("TreeSink contract breached (duplicate-attribute by expanded name) by call #%d `%s`" % (
                                 xdup[0][0], xdup[0][1][:200]),
                             {"kind": "failing-input", "case": case, "input": describe(case), "calls": [x[1] for x in xdup[:5]]},
                             case_class="duplicate-expanded-name")
        # consistency of the extracted functions: monitor ok => DomSpec.contract_run ok (theorem C05_implies_domspec)
        if not viols and b["DOMSPEC"] != "ok":
            note_broken(ck, "Contract.monitor accepts a trace that DomSpec.contract_run rejects: %r" % case[:300])
        # cross-check 1: the arena sink's own notes name the same clauses
        ac = arena_clauses(a["breaches"])
        cc = set(v[1] for v in viols) - COQ_ONLY
        if ac != cc:
            note_broken(ck, "arena sink and Coq monitor disagree on %r: arena %s, Coq %s" % (
                case[:300], sorted(ac), sorted(set(v[1] for v in viols))))
        # cross-check 2: both sinks saw the same calls / built the same forest
        if a["rpanic"]:
            if not viols:
                ck.violation("RcDom panics although the monitor found no breach of the contract: " + a["rtrace"][:200],
                             {"kind": "failing-input", "case": case, "input": describe(case)}, case_class="rcdom-panic-without-breach")
        else:
            if a["rtrace"] != a["trace"]:
                note_broken(ck, "TraceSink<RcDom> and TraceSink<ArenaSink> recorded different calls for %r" % case[:300])
            elif a["rforest"] != a["aforest"] and "maybe_clone_an_option" not in a["trace"] and not viols:
                note_broken(ck, "RcDom and the arena sink built different forests for %r" % case[:300])
            elif not viols and b["TREE"] != a["aforest"] and "maybe_clone_an_option" not in a["trace"]:
                note_broken(ck, "DomSpec.run and the arena sink built different forests for %r" % case[:300])
        if viols:
            stats["contract_bad"] += 1
            for v in viols:
                clause_hist[v[1]] = clause_hist.get(v[1], 0) + 1
            items = by_class.setdefault(classify(case, a["trace"], viols), [])
            if len(items) < 200:
                items.append((case, a, b, viols))
            else:
                items.append(None)
        else:
            stats["contract_ok"] += 1



def run(ck):
    proofs_ok, impl, model = build(ck)
    if model is None:
        return ck.finish(trusted=TRUSTED)
    rng = ck.rng
    if ck.replay:
        rp = json.load(open(ck.replay))
        batches = [[rp["case"]] if "case" in rp else []]
    else:
        total = 120000 if ck.quick else 1500000
        bsz = 60000
        batches = [None] * ((total + bsz - 1) // bsz)

    stats = {"html": 0, "frag": 0, "xml": 0, "tree_builder_panics": 0, "traces_judged": 0, "calls_judged": 0,
             "contract_ok": 0, "contract_bad": 0, "one_char_chunked": 0, "with_scripting": 0}
    hist, clause_hist, ctx_seen = {}, {}, set()
    nontriv = set()
    samples = []
    by_class = {}
    evaluations = 0
    for bi, cases in enumerate(batches):
        if cases is None:
            cases = (load_corpus("c05.txt") if bi == 0 else []) + gen_cases(rng, bsz)
        evaluations += len(cases)
        res = run_all(ck, impl, model, cases, ["--all"])
        judge_batch(ck, cases, res, stats, hist, clause_hist, ctx_seen, nontriv, samples, by_class)
        if bi == 0 and not ck.replay:
            good = [a["trace"] for a, b in res if "bad" not in a and not a["apanic"] and "bad" not in b and b["CONTRACT"] == "ok"
                    and nontrivial(a["trace"])]
            if good:
                ck.cov["glue_differential"] = glue_differential(ck, impl, model, good, rng, 20000 if ck.quick else 200000)
        if len(ck.broken) > 20:
            break

    # report: one (shrunk) witness per class
    for cls, all_items in sorted(by_class.items()):
        items = [it for it in all_items if it is not None]
        case, a, b, viols = min(items, key=lambda it: len(case_input(it[0])))

        def same(a2, b2, cls=cls, case=case):
            if "bad" in a2 or "bad" in b2 or a2["apanic"]:
                return False
            v2 = coq_violations(b2["CONTRACT"])
            return bool(v2) and classify(case, a2["trace"], v2) == cls
        small = case if ck.replay else shrink(ck, impl, model, case, same, ["--all"])
        (a2, b2), = run_all(ck, impl, model, [small], ["--all"])
        v2 = coq_violations(b2.get("CONTRACT", "ok")) or viols
        ops = trace_ops(a2["trace"]) if "trace" in a2 else []
        k = v2[0][0]
        ck.violation(
            "TreeSink contract breached (%s) by call #%d `%s` - %d failing cases of this class" % (
                v2[0][1], k, ops[k][:120] if k < len(ops) else "?", len(all_items)),
            {"kind": "failing-input", "case": small, "input": describe(small), "violations": v2[:10],
             "trace": ops[:k + 1][-12:], "original_case": case}, case_class=cls)

    ck.cov.update({
        "evaluations": evaluations, "distinct_nontrivial": len(nontriv),
        "rule": "one evaluation = one parse (html5ever document / fragment, xml5ever) of a generated input under one "
                "chunking and option setting, every TreeSink call of which is judged by the extracted Contract.monitor; "
                "non-trivial = distinct call traces containing at least one of " + ", ".join(RARE),
        "samples": samples, "op_histogram": hist, "case_counts": stats, "clauses_breached": clause_hist,
        "fragment_contexts_covered": len(ctx_seen),
        "explanation": "Props/C05.v proves the decision procedure (monitor = None <-> the relational contract holds at "
                       "every call; contract-respecting sequences keep the abstract DOM well-formed; acceptance implies "
                       "DomSpec.contract_run).  That html5ever/xml5ever satisfy it on ALL inputs is established only by "
                       "the monitored runs counted here (plus the known XML doctype finding).",
    })
    return ck.finish(
        trusted=TRUSTED,
        assumptions=["reading decision: a child handed to append_before_sibling / append_based_on_parent_node must be "
                     "parentless too (the documentation allows an old parent for append_before_sibling; html5ever never "
                     "uses that licence, and DomSpec.contract_ok - C20's hypothesis - is stated this way)",
                     "handles are identified by the numbers TraceSink assigns (Document 0, creation order)",
                     "quantification over all inputs: meta-theorems over all call sequences + monitored runs; no proof "
                     "about the tree builders' code yet"])
