"""C13 - BufferQueue behaves as one flat character stream.

proof      : coq/Props/C13.v  (byte-level model refines the flat-string spec, all histories)
tie        : correspondence - random operation histories through markup5ever::BufferQueue
             (harness bin `bq`) and through the extracted Coq model (ocaml/bq_driver.ml)
oracle     : the flat-String comparison itself, evaluated in Python on the implementation's outputs
"""
import json
import os
from vcommon import TEXT_POOL, rand_text

TOK_SETS = [  # small_char_set! literals of the two tokenizers (+ a few others)
    "\r\0&<\n", "\r\0&\n", "\r\0-<\n", "\r\0<\n", "\r\0\n", "\r\"&\0\n", "\r'&\0\n", "\r\0-\n", "]\0\r\n",
    "\r&<\n", "\"&", "'&", "", "@", "?>", "\0",
]
PATTERNS = ["--", "doctype", "[CDATA[", "public", "system", "DOCTYPE", "PUBLIC", "a", "éx", "<b", "&amp;", ""]


def mask_of(chars):
    m = 0
    for c in chars:
        if ord(c) < 64:
            m |= 1 << ord(c)
    return m


def gen_case(rng, nops):
    ops = []
    for _ in range(nops):
        k = rng.random()
        if k < 0.25:
            s = rand_text(rng, 6).encode("utf8", "surrogatepass")
            ops.append("B %d %s" % (len(s), " ".join(map(str, s))))
        elif k < 0.32:
            s = rand_text(rng, 4).encode("utf8")
            ops.append("F %d %s" % (len(s), " ".join(map(str, s))))
        elif k < 0.45:
            ops.append("N")
        elif k < 0.52:
            ops.append("P")
        elif k < 0.78:
            if rng.random() < 0.7:
                m = mask_of(rng.choice(TOK_SETS))
            else:
                m = rng.getrandbits(64) & rng.getrandbits(64)
            ops.append("X %d" % m)
        else:
            if rng.random() < 0.6:
                p = rng.choice(PATTERNS)
            else:
                p = rand_text(rng, 3)
            if rng.random() < 0.3:
                p = p.upper() if rng.random() < 0.5 else p.lower()
            b = p.encode("utf8")
            ops.append("E %d %d %s" % (1 if rng.random() < 0.6 else 0, len(b), " ".join(map(str, b))))
    return " ; ".join(ops)


def split_random(rng, b, maxparts=4):
    """split a byte string (valid UTF-8) into buffers at character boundaries"""
    s = b.decode("utf8")
    if len(s) <= 1:
        return [b] if b else []
    k = rng.randint(1, min(maxparts, len(s)))
    cuts = sorted(rng.sample(range(1, len(s)), k - 1)) if k > 1 else []
    parts, prev = [], 0
    for c in cuts + [len(s)]:
        parts.append(s[prev:c].encode("utf8")); prev = c
    return [p for p in parts if p]


def gen_eat_case(rng):
    """directed: the queue holds (a case variant of) a pattern, exactly, plus an optional tail or minus its last
    characters, split over several buffers; then eat / next / eat again"""
    pat = rng.choice(PATTERNS[:-1] + ["éx<b", "abc", "DOCTYPE html"])
    text = "".join(ch.upper() if rng.random() < 0.5 else ch.lower() for ch in pat)
    k = rng.random()
    if k < 0.4:
        pass                                  # exact: the match ends at the end of the last buffer
    elif k < 0.7:
        text += rand_text(rng, 3)
    else:
        text = text[: rng.randint(0, max(0, len(text) - 1))]   # truncated: need more
    ops = []
    for part in split_random(rng, text.encode("utf8")):
        ops.append("B %d %s" % (len(part), " ".join(map(str, part))))
    pb = pat.encode("utf8")
    ic = 1 if rng.random() < 0.7 else 0
    ops.append("E %d %d %s" % (ic, len(pb), " ".join(map(str, pb))))
    if rng.random() < 0.5:
        more = rand_text(rng, 3).encode("utf8")
        ops.append("B %d %s" % (len(more), " ".join(map(str, more))))
        ops.append("E %d %d %s" % (ic, len(pb), " ".join(map(str, pb))))
    ops += [rng.choice(["N", "P", "X %d" % mask_of("<&")]) for _ in range(rng.randint(0, 3))]
    return " ; ".join(ops)


def gen_set_case(rng):
    """directed: characters around the 64-bit set boundary and multi-byte characters whose low bits collide with members"""
    members = rng.choice(TOK_SETS)
    pool = list(members) + ["?", "@", "\0", "\x3f", "\x40", "a", "č", "Ā", "Ħ", "ļ", "Ġ", "Ŀ", "\u010a", "\u0126", "\u013c", "\u2026", "\U0001003c"]
    text = "".join(rng.choice(pool) for _ in range(rng.randint(1, 10)))
    ops = []
    for part in split_random(rng, text.encode("utf8"), 3):
        ops.append("B %d %s" % (len(part), " ".join(map(str, part))))
    m = mask_of(members) if rng.random() < 0.8 else (rng.getrandbits(64) | 1 | (1 << 63))
    ops += ["X %d" % m] * rng.randint(1, 6)
    return " ; ".join(ops)


def lower_ascii(b):
    return bytes(x + 32 if 65 <= x <= 90 else x for x in b)


def oracle(case, outline):
    """the property itself on the implementation's output: a flat String model"""
    flat = b""
    toks, _, tail = outline.partition("|")
    outs = toks.split()
    ops = [o.split() for o in case.split(";")]
    if len(outs) != len(ops):
        return "output count"
    for o, r in zip(ops, outs):
        if r == "!":
            return "panic in %s" % o[0]
        if o[0] == "B":
            flat = flat + bytes(map(int, o[2:]))
        elif o[0] == "F":
            flat = bytes(map(int, o[2:])) + flat
        elif o[0] in ("N", "P"):
            s = flat.decode("utf8")
            exp = "-" if not s else "c%d" % ord(s[0])
            if r != exp:
                return "%s gave %s, flat string says %s" % (o[0], r, exp)
            if o[0] == "N" and s:
                flat = s[1:].encode("utf8")
        elif o[0] == "X":
            m = int(o[1])
            s = flat.decode("utf8")
            if not s:
                if r != "-":
                    return "pop_except_from on empty gave " + r
                continue
            first_in = ord(s[0]) < 64 and (m >> ord(s[0])) & 1
            if first_in:
                if r != "s%d" % ord(s[0]):
                    return "expected FromSet(%d) got %s" % (ord(s[0]), r)
                flat = s[1:].encode("utf8")
            else:
                if not r.startswith("r"):
                    return "expected NotFromSet got " + r
                run = bytes.fromhex(r[1:])
                if not run or not flat.startswith(run):
                    return "run is not a non-empty prefix of the flat text"
                try:
                    rs = run.decode("utf8")
                except UnicodeDecodeError:
                    return "run splits a code point"
                if any(ord(c) < 64 and (m >> ord(c)) & 1 for c in rs):
                    return "run contains a set member"
                flat = flat[len(run):]
        elif o[0] == "E":
            ic = o[1] == "1"
            pat = bytes(map(int, o[3:]))
            a, b = (lower_ascii(pat), lower_ascii(flat)) if ic else (pat, flat)
            if not flat:
                exp = "-"
            elif b.startswith(a):
                exp = "t"
            elif a.startswith(b):
                exp = "-"
            else:
                exp = "f"
            if r != exp:
                return "eat gave %s, prefix comparison says %s" % (r, exp)
            if exp == "t":
                flat = flat[len(pat):]
    rest = b"".join(bytes.fromhex(x) for x in tail.split())
    if rest != flat:
        return "remaining text differs from the flat string"
    if any(x == "" for x in tail.split()):
        return "empty buffer left in queue"
    return None


def run(ck):
    if ck.replay:
        rp = json.load(open(ck.replay))
        cases = [rp["case"]] if "case" in rp else []
    else:
        n = 16000 if ck.quick else 200000
        cases = []
        corpus = os.path.join(os.path.dirname(os.path.dirname(os.path.dirname(__file__))), "corpus", "c13.txt")
        if os.path.exists(corpus):
            cases += [l.strip() for l in open(corpus) if l.strip()]
        cases += [gen_case(ck.rng, ck.rng.randint(1, 14)) for _ in range(n)]
        cases += [gen_eat_case(ck.rng) for _ in range(n // 2)]
        cases += [gen_set_case(ck.rng) for _ in range(n // 2)]
    proofs_ok = ck.coq_props(extra_targets=["Extract/ExtractBQ.vo"])
    bindir = ck.cargo_build(["bq"])
    model = ck.ocaml_build("bq_model", "bq_model.ml", "bq_driver.ml")
    impl_out = ck.run_lines(os.path.join(bindir, "bq"), [], cases)
    model_out = ck.run_lines(model, [], cases)
    disagreements = 0
    oracle_fail = 0
    nontrivial = set()
    opcount = {}
    for c, a, b in zip(cases, impl_out, model_out):
        for o in c.split(";"):
            k = o.split()[0]
            opcount[k] = opcount.get(k, 0) + 1
        if " r" in " " + a and ("t" in a.split("|")[0].split() or "s" in a):
            nontrivial.add(c)
        why = oracle(c, a)
        if why:
            oracle_fail += 1
            if oracle_fail <= 3:
                ck.violation("BufferQueue differs from the flat string: " + why,
                             {"kind": "failing-input", "case": c, "impl": a, "model": b, "oracle": why})
        if a != b:
            disagreements += 1
            if not why and disagreements <= 3:
                ck.broken.append("correspondence bq model vs buffer_queue.rs: case %r impl %r model %r" % (c, a, b))
    ck.cov.update({
        "evaluations": len(cases), "distinct_nontrivial": len(nontrivial),
        "rule": "random histories (1-14 ops) of push_back/push_front/next/peek/pop_except_from/eat over a 49-symbol "
                "pool incl. 2/3/4-byte chars, tokenizer sets + random 64-bit masks, tokenizer patterns + random; "
                "non-trivial = history in which pop_except_from returned a run AND (a set member was returned or an eat matched)",
        "samples": cases[:3], "op_histogram": opcount,
        "correspondence_disagreements": disagreements, "oracle_failures": oracle_fail,
        "explanation": "Theorems of Props/C13.v hold for all histories of the byte-level model; the model is tied to "
                       "buffer_queue.rs/smallcharset.rs by running both on the same histories; the flat-String oracle is "
                       "evaluated on the implementation's own outputs to produce concrete failing inputs.",
    })
    return ck.finish(
        trusted=["Coq 8.16.1 kernel (coqc, vm_compute in one Example)", "Extraction (ExtrOcamlBasic only) + ocamlopt 4.13.1",
                 "ocaml/bq_driver.ml, ocaml/conv.ml, harness/src/bin/bq.rs, lib/checks/c13.py generator+oracle",
                 "tendril::StrTendril::pop_front_char / unsafe_subtendril modelled as UTF-8 decode / list split"],
        assumptions=["buffers handed to BufferQueue are valid UTF-8 (StrTendril guarantees it)",
                     "eat is used with byte equality or u8::eq_ignore_ascii_case only (as the tokenizers do)"])
