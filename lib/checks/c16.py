"""C16 - XML namespaces resolve by lexical scope and lose no attribute.

proof      : coq/Props/C16.v (stack invariant, lexical scope, scope and attribute theorems at full
             strength for every token stream; the three findings of the first round are repaired in
             /repo by df982ff and 8f1ed74 and the model mirrors the repaired code)
tie        : correspondence - (1) raw tags -> tokens: model finish_attribute/process_qname vs the
             token stream recorded from XmlTokenizer; (2) recorded tokens -> tree (+ number of
             tree-builder parse errors): model tree builder vs XmlTreeBuilder+RcDom
oracle     : an independent resolver written here (split, declarations, nearest-scope lookup,
             first-wins attribute de-duplication by expanded name) evaluated over the SOURCE tags of
             the generated document against the QualNames in the implementation's tree.

This module also holds the generator / renderer / parsers shared with c17.py.
"""
import itertools
import json
import os

XML_URI = "http://www.w3.org/XML/1998/namespace"
XMLNS_URI = "http://www.w3.org/2000/xmlns/"
ROOT = os.path.dirname(os.path.dirname(os.path.dirname(os.path.abspath(__file__))))

# ----------------------------------------------------------------------------- encodings


def enc(s):
    if s is None:
        return "~"
    if s == "":
        return "_"
    return ".".join("%x" % ord(c) for c in s)


def dec(w):
    if w == "~":
        return None
    if w == "_":
        return ""
    return "".join(chr(int(x, 16)) for x in w.split("."))


def cps_line(text):
    return " ".join(str(ord(c)) for c in text)


def sections(line):
    """harness / driver output line -> {name: rest}"""
    d = {}
    for sec in line.split(" | "):
        k, _, v = sec.partition(" ")
        d[k] = v
    return d


def parse_tokens(s):
    """token section -> list of tuples
    ('tag', kind, prefix, local, [(prefix, local, value)]) | ('X', s) | ('C', s) | ('P', t, d) | ('D', n, p, s) | ('N',) | ('Z',)"""
    ws = s.split()
    i = 0
    out = []
    while i < len(ws):
        w = ws[i]
        if w in ("GS", "GE", "GM", "GH"):
            n = int(ws[i + 3])
            attrs = []
            j = i + 4
            for _ in range(n):
                attrs.append((dec(ws[j]), dec(ws[j + 1]), dec(ws[j + 2])))
                j += 3
            out.append(("tag", w, dec(ws[i + 1]), dec(ws[i + 2]), attrs))
            i = j
        elif w in ("X", "C"):
            out.append((w, dec(ws[i + 1])))
            i += 2
        elif w == "P":
            out.append((w, dec(ws[i + 1]), dec(ws[i + 2])))
            i += 3
        elif w == "D":
            out.append((w, dec(ws[i + 1]), dec(ws[i + 2]), dec(ws[i + 3])))
            i += 4
        elif w in ("N", "Z"):
            out.append((w,))
            i += 1
        else:
            raise ValueError("token " + w)
    return out


def merge_text(toks):
    out = []
    for t in toks:
        if t[0] == "X" and out and out[-1][0] == "X":
            out[-1] = ("X", out[-1][1] + t[1])
        else:
            out.append(t)
    return out


def show_tokens(toks):
    ws = []
    for t in toks:
        if t[0] == "tag":
            ws += [t[1], enc(t[2]), enc(t[3]), str(len(t[4]))]
            for a in t[4]:
                ws += [enc(a[0]), enc(a[1]), enc(a[2])]
        else:
            ws += [t[0]] + [enc(x) for x in t[1:]]
    return " ".join(ws)


def parse_tree(s):
    """tree section -> list of nodes; element = ['E', prefix, ns, local, [(prefix, ns, local, value)], kids]"""
    ws = s.split()
    pos = [0]

    def nodes():
        out = []
        while pos[0] < len(ws):
            w = ws[pos[0]]
            if w == ")":
                pos[0] += 1
                return out
            if w == "(":
                p, u, l, n = dec(ws[pos[0] + 1]), dec(ws[pos[0] + 2]), dec(ws[pos[0] + 3]), int(ws[pos[0] + 4])
                j = pos[0] + 5
                attrs = []
                for _ in range(n):
                    attrs.append((dec(ws[j]), dec(ws[j + 1]), dec(ws[j + 2]), dec(ws[j + 3])))
                    j += 4
                pos[0] = j
                kids = nodes()
                out.append(["E", p, u, l, attrs, kids])
            elif w in ("X", "C"):
                out.append([w, dec(ws[pos[0] + 1])])
                pos[0] += 2
            elif w == "P":
                out.append([w, dec(ws[pos[0] + 1]), dec(ws[pos[0] + 2])])
                pos[0] += 3
            elif w == "D":
                out.append([w, dec(ws[pos[0] + 1]), dec(ws[pos[0] + 2]), dec(ws[pos[0] + 3])])
                pos[0] += 4
            else:
                raise ValueError("tree " + w)
        return out
    return nodes()


def strip_doctype_ids(s):
    """tree section with the public/system ids of doctype nodes blanked (outside the serializer API)"""
    ws = s.split()
    i = 0
    out = []
    while i < len(ws):
        w = ws[i]
        if w == "(":
            n = int(ws[i + 4])
            out += ws[i:i + 5 + 4 * n]
            i += 5 + 4 * n
        elif w == ")":
            out.append(w)
            i += 1
        elif w in ("X", "C"):
            out += ws[i:i + 2]
            i += 2
        elif w == "P":
            out += ws[i:i + 3]
            i += 3
        elif w == "D":
            out += [w, ws[i + 1], "_", "_"]
            i += 4
        else:
            raise ValueError("tree " + w)
    return " ".join(out)


def elements_preorder(nodes, anc=()):
    """yield (element, ancestors tuple (outermost first)) in document order"""
    for n in nodes:
        if n[0] == "E":
            yield n, anc
            for x in elements_preorder(n[5], anc + (n,)):
                yield x


# ----------------------------------------------------------------------------- generator

PREFIXES = ["p", "q", "x", "xml", "xmlns"]
LOCALS = ["a", "b", "x", "p", "script", "xmlns", "xml"]
ODD_NAMES = ["a:b:c", "a:", "a::b", "p:", "é", "p:é", "a-b.c", "A"]
URIS = ["u", "v", "w", "u", "v", "", XML_URI, XMLNS_URI, "u:1/é"]
BAD_URIS = ["a\"b", "a&b", "a<b", "a&amp;b", "a'b", "a\rb"]
CR_POOL = ["\r", "\r\n", "a\rb"]
TEXT_POOL = ["a", "b", " ", "\n", "\t", "&", "<", ">", "\"", "'", "]]>", "&amp;", "&#13;", "é",
             " ", "\U0001f600", "﻿", "�", "x", "-", "--", "?", "?>", "=", "/", ";", "#"]
COMMENTS = ["c", " a comment ", "", "a-b", "a--b", "a>b", "<!--", "a<b&c", "é", "x-", "a--!b", "\r", "]]>", "a\nb"]
PIS = [("t", "d"), ("t", ""), ("xml-x", "a=\"1\""), ("t", "a>b"), ("é", "é d"), ("t", "<x>&y;"),
       # a '?' inside the data is data (only "?>" ends the instruction)
       ("t", "a?b"), ("t", "?"), ("t", "a?"), ("t", "? x"), ("t", "??"), ("php", "$a ? $b > 1 : 0"), ("t", "a? >")]


def rand_text(rng, maxlen=5):
    t = [rng.choice(TEXT_POOL) for _ in range(rng.randint(1, maxlen))]
    if rng.random() < 0.04:
        t.insert(rng.randint(0, len(t)), rng.choice(CR_POOL))
    return "".join(t)


def rand_name(rng, for_attr=False, own_prefix=None):
    r = rng.random()
    if for_attr:
        if r < 0.70:
            return rng.choice(LOCALS)
        if r < 0.80 and own_prefix:
            return own_prefix + ":" + rng.choice(LOCALS)
    if r < 0.45:
        return rng.choice(LOCALS[:4] if not for_attr else LOCALS)
    if r < 0.92:
        return rng.choice(PREFIXES[:3] if rng.random() < 0.85 else PREFIXES) + ":" + rng.choice(LOCALS)
    return rng.choice(ODD_NAMES)


def rand_uri(rng):
    return rng.choice(BAD_URIS) if rng.random() < 0.03 else rng.choice(URIS)


def rand_attrs(rng, tagname=""):
    own = tagname.split(":")[0] if tagname.count(":") == 1 else None
    attrs = []
    n = rng.choice([0, 0, 1, 1, 2, 2, 3, 4, 5])
    for _ in range(n):
        r = rng.random()
        if r < 0.28:
            attrs.append(("xmlns:" + rng.choice(PREFIXES[:3] if rng.random() < 0.9 else PREFIXES), rand_uri(rng)))
        elif r < 0.40:
            attrs.append(("xmlns", rand_uri(rng)))
        elif r < 0.41:
            attrs.append((rng.choice(["p", "q"]) + ":xmlns", rng.choice(URIS)))
        else:
            v = rand_text(rng, 3) if rng.random() < 0.4 else rng.choice(["1", "2", "", "v"])
            attrs.append((rand_name(rng, True, own), v))
    if rng.random() < 0.06:                # one expanded name through two prefixes bound to one URI (xml included)
        loc = rng.choice(LOCALS)
        if rng.random() < 0.5:
            a, b = "xml", rng.choice(PREFIXES[:3])
            attrs.append(("xmlns:" + b, XML_URI))
        else:
            a, b = rng.sample(PREFIXES[:3], 2)
            uri = rng.choice(["u", "v", "w"])
            attrs += [("xmlns:" + a, uri), ("xmlns:" + b, uri)]
        pair = [(a + ":" + loc, "1"), (b + ":" + loc, "2")]
        rng.shuffle(pair)
        attrs += pair
    if attrs and rng.random() < 0.10:      # duplicates and permutations
        attrs.append(rng.choice(attrs) if rng.random() < 0.5 else (rng.choice(attrs)[0], "dup"))
    if rng.random() < 0.3:
        rng.shuffle(attrs)
    return attrs


def gen_content(rng, depth, out, open_names):
    n = rng.choice([0, 1, 1, 2, 2, 3, 4])
    for _ in range(n):
        r = rng.random()
        if r < 0.55 and depth < 4:
            name = rand_name(rng)
            attrs = rand_attrs(rng, name)
            k = rng.random()
            if k < 0.25:
                out.append(("tag", "GM", name, attrs))
            else:
                out.append(("tag", "GS", name, attrs))
                gen_content(rng, depth + 1, out, open_names + [name])
                e = rng.random()
                if e < 0.78:
                    out.append(("tag", "GE", name, []))
                elif e < 0.86:
                    out.append(("tag", "GH", "", []))
                elif e < 0.92 and open_names:
                    out.append(("tag", "GE", rng.choice(open_names), []))      # closes an ancestor
                elif e < 0.96:
                    out.append(("tag", "GE", rand_name(rng), []))               # stray end tag
                # else: left open
        elif r < 0.80:
            out.append(("X", rand_text(rng)))
        elif r < 0.90:
            out.append(("C", rng.choice(COMMENTS)))
        else:
            out.append(("P",) + rng.choice(PIS))


def gen_doc(rng):
    out = []
    if rng.random() < 0.15:
        out.append(("D", rng.choice(["r", "html", "a:b"])))
    while rng.random() < 0.2:
        out.append(("C", rng.choice(COMMENTS)) if rng.random() < 0.6 else ("P",) + rng.choice(PIS))
    name = rand_name(rng)
    attrs = rand_attrs(rng, name)
    if rng.random() < 0.06:
        out.append(("tag", "GM", name, attrs))
    else:
        out.append(("tag", "GS", name, attrs))
        gen_content(rng, 1, out, [name])
        if rng.random() < 0.9:
            out.append(("tag", "GE", name, []))
    while rng.random() < 0.2:
        k = rng.random()
        if k < 0.4:
            out.append(("C", rng.choice(COMMENTS)))
        elif k < 0.6:
            out.append(("P",) + rng.choice(PIS))
        elif k < 0.8:
            out.append(("tag", "GM", rand_name(rng), rand_attrs(rng)))          # after the root: ignored
        else:
            out.append(("X", rng.choice([" ", "\n", "t"])))
    return out


def esc_attr(v, q):
    v = v.replace("&", "&amp;").replace("\r", "&#13;").replace(q, "&quot;" if q == '"' else "&apos;")
    return v


def esc_text(t, rng=None):
    t = t.replace("&", "&amp;").replace("<", "&lt;").replace("\r", "&#13;")
    return t


def render(doc, rng):
    """structured document -> XML text such that the tokenizer collects exactly the raw names/values"""
    out = []
    for it in doc:
        if it[0] == "tag":
            _, k, name, attrs = it
            if k == "GH":
                out.append("</>")
                continue
            s = "</" + name if k == "GE" else "<" + name
            for an, av in attrs:
                q = '"' if rng.random() < 0.8 else "'"
                s += rng.choice([" ", " ", "\n", "  "]) + an + "=" + q + esc_attr(av, q) + q
            s += "/>" if k == "GM" else ">"
            out.append(s)
        elif it[0] == "X":
            out.append(esc_text(it[1]))
        elif it[0] == "C":
            out.append("<!--" + it[1] + "-->")
        elif it[0] == "P":
            out.append("<?" + it[1] + " " + it[2] + "?>")
        elif it[0] == "D":
            out.append("<!DOCTYPE " + it[1] + ">")
    return "".join(out)


def raw_case_line(doc_tags):
    """the RAW model input for the tag items only (one RTag per generated tag)"""
    ws = ["RAW"]
    for _, k, name, attrs in doc_tags:
        ws += [k, enc(name), str(len(attrs))]
        for an, av in attrs:
            ws += [enc(an), enc(av)]
    return " ".join(ws)


FIXED_XML = [
    '<a p:x="1" x="2"/>', '<a x="2" p:x="1"/>', '<a p:xmlns="v" y="1"/>', '<a xmlns:p="u" p:x="1"/>',
    '<r><p:a xmlns:p="u"/><p:b xmlns:p="u"/></r>', '<a xmlns="u"><b xmlns=""/></a>', '<a>x&#13;y</a>',
    '<a xmlns:p="u" xmlns:p="v"><p:b/></a>', '<a xmlns:p="u" p="1"/>', '<a xmlns:xmlns="u" xmlns="v"/>',
    '<r><script xmlns:p="u"/><p:b/></r>', '<script xmlns:p="u"/><!--c-->', '<r><a><b></a>t</r>',
    '<r><a/></><b/>', '<!DOCTYPE x><?pi d?><!--c--><r>t</r><!--d--><?q?>x', '<r><!-a></r>', '<r><? x></r>',
    '<r xmlns:p="a&quot;b"><p:c/></r>', '<xml:a xml:b="1"><xmlns:c xmlns:d="2"/></xml:a>',
    '<a :b="1" c:="2" d::e="3" f:g:h="4"/>', '<p:a xmlns:p="u"><p:b xmlns:p=""><p:c/></p:b></p:a>',
    '<a xmlns="u" xmlns:p="u"><p:a></a></p:a>', '<r><a xmlns:p="u"><b></r><p:c/>', '',
]

# ----------------------------------------------------------------------------- independent resolver


def split_name(raw):
    """prefix:local when there is exactly one colon, neither first nor last; else no prefix"""
    if raw.count(":") == 1:
        p, l = raw.split(":")
        if p and l:
            return p, l
    return None, raw


def spec_tag(raw_attrs):
    """declarations {prefix: uri-or-None} and the non-declaration attributes [(prefix, local, value)] of one tag"""
    values = {}                         # declared key -> value of the FIRST attribute declaring it
    others = []
    for n, v in raw_attrs:
        p, l = split_name(n)
        if p is None and l == "xmlns":
            key = None
        elif p == "xmlns":
            key = l
        else:
            others.append((p, l, v))    # p:xmlns is an ordinary attribute
            continue
        values.setdefault(key, v)       # a later attribute with the same name is a duplicate attribute
    decls = {}
    for key, v in values.items():
        if key in ("xml", "xmlns"):
            continue                    # fixed
        if v != XMLNS_URI:              # the xmlns URI cannot be bound
            decls[key] = v if v != "" else None
    return decls, others


def lookup(prefix, scopes):
    for d in scopes:                    # innermost first
        if prefix in d:
            return d[prefix] or ""
    if prefix == "xml":
        return XML_URI
    if prefix == "xmlns":
        return XMLNS_URI
    return ""


def expected_tree_names(tags, tree):
    """walk the implementation's tree; the k-th element in document order was created by the k-th
    start/empty tag of the source.  Returns None if everything matches, else a description."""
    creators = [t for t in tags if t[1] in ("GS", "GM")]
    k = 0
    memo = {}
    for el, anc in elements_preorder(tree):
        if k >= len(creators):
            return "tree has more elements than the source has start/empty tags"
        _, _, rawname, raw_attrs = creators[k]
        memo[id(el)] = spec_tag(raw_attrs)
        k += 1
        decls, others = memo[id(el)]
        scopes = [decls] + [memo[id(a)][0] for a in reversed(anc)]
        p, l = split_name(rawname)
        want = (p, lookup(p, scopes) if p is not None else lookup(None, scopes), l)
        if (el[1], el[2], el[3]) != want:
            return "element #%d <%s>: expected (prefix, ns, local) %r, tree has %r" % (k, rawname, want, (el[1], el[2], el[3]))
        out = []
        seen = set()
        for ap, al, av in others:
            ns = lookup(ap, scopes) if ap is not None else ""
            key = (ap is not None, ns, al)      # an unprefixed name never equals a prefixed one
            if key in seen:
                continue
            seen.add(key)
            out.append((ap, ns, al, av))
        # attribute order is not part of the property (nor of the XML infoset): compare as multisets
        if sorted(out, key=repr) != sorted(el[4], key=repr):
            return "element #%d <%s>: expected attributes %r, tree has %r" % (k, rawname, out, el[4])
    return None


def c16_oracle(tags, tree):
    """None if the property holds on this tree, else a description of the first mismatch"""
    return expected_tree_names(tags, tree)


# ----------------------------------------------------------------------------- running


def build_cases(ck, n):
    """[(xml text, structured doc or None)]"""
    cases = []
    for x in FIXED_XML:
        cases.append((x, None))
    for name in ("c16.txt", "c17.txt"):
        p = os.path.join(ROOT, "corpus", name)
        if os.path.exists(p):
            for l in open(p, encoding="utf8"):
                l = l.rstrip("\n")
                if l and not l.startswith("#"):
                    cases.append((json.loads(l), None))
    for _ in range(n):
        doc = gen_doc(ck.rng)
        cases.append((render(doc, ck.rng), doc))
    return cases


def doc_from_json(d):
    if not d:
        return None
    return [(i[0], i[1], i[2], [tuple(a) for a in i[3]]) if i[0] == "tag" else tuple(i) for i in d]


def tags_from_tokens(toks):
    """fallback for free-text cases: the tags as the tree builder received them (after the tokenizer's own
    duplicate test), raw name rebuilt from prefix and local"""
    out = []
    for t in toks:
        if t[0] == "tag":
            nm = lambda p, l: l if p is None else p + ":" + l
            out.append(("tag", t[1], nm(t[2], t[3]), [(nm(a[0], a[1]), a[2]) for a in t[4]]))
    return out


def run_impl(ck, bindir, cases):
    outs = ck.run_lines(os.path.join(bindir, "xmlns"), [], [cps_line(x) for x, _ in cases])
    return outs


def build_all(ck):
    proofs_ok = ck.coq_props(extra_targets=["Extract/ExtractXmlNs.vo"])
    bindir = ck.cargo_build(["xmlns"])
    model = ck.ocaml_build("xmlns_model", "xmlns_model.ml", "xmlns_driver.ml")
    return proofs_ok, bindir, model


def tolerated_fix(ck, what):
    note = "implementation satisfies the property where the model (pinned commit) shows a known finding: " + what
    if note not in ck.notes:
        ck.notes.append(note)


def run(ck):
    if ck.replay:
        rp = json.load(open(ck.replay))
        cases = [(rp["xml"], doc_from_json(rp.get("doc")))] if "xml" in rp else []
    else:
        cases = build_cases(ck, 10000 if ck.quick else 250000)
    proofs_ok, bindir, model = build_all(ck)
    impl = run_impl(ck, bindir, cases)

    # model runs: RAW on the source tags, TOK on the recorded token stream
    raw_lines, tok_lines, idx_raw = [], [], []
    for i, ((x, doc), o) in enumerate(zip(cases, impl)):
        if o.startswith("TOKS"):
            tok_lines.append("TOK " + sections(o)["TOKS"])
        else:
            tok_lines.append("TOK Z")
        if doc is not None:
            raw_lines.append(raw_case_line([t for t in doc if t[0] == "tag"]))
            idx_raw.append(i)
    tok_out = ck.run_lines(model, [], tok_lines)
    raw_out = dict(zip(idx_raw, ck.run_lines(model, [], raw_lines)))

    stats = {"cases": len(cases), "structured": len(idx_raw), "elements": 0, "attrs_checked": 0, "namespaced_names": 0,
             "oracle_fail": 0, "corr_tokens": 0, "corr_tree": 0, "panics": 0}
    nontrivial = 0
    bad_corr = 0
    for i, ((x, doc), o) in enumerate(zip(cases, impl)):
        if not o.startswith("TOKS"):
            stats["panics"] += 1
            ck.violation("xml5ever panicked or produced no output", {"kind": "failing-input", "xml": x, "doc": doc, "impl": o},
                         case_class="C16:panic")
            continue
        sec = sections(o)
        toks = parse_tokens(sec["TOKS"])
        tree = parse_tree(sec["TREE"])
        nel = sum(1 for _ in elements_preorder(tree))
        stats["elements"] += nel
        # --- correspondence (2): tokens -> tree and tree-builder error count
        m = sections(tok_out[i])
        impl_tree, impl_errs = sec["TREE"], sec["ERRS"].split()[1]
        tree_agrees = (m.get("TREE") == impl_tree and m.get("ERRS") == impl_errs)
        stats["corr_tree"] += 1
        # --- oracle
        why = None
        if doc is not None:
            tags = [t for t in doc if t[0] == "tag"]
            why = c16_oracle(tags, tree)
            for el, _ in elements_preorder(tree):
                stats["attrs_checked"] += len(el[4])
                stats["namespaced_names"] += (1 if el[2] else 0) + sum(1 for a in el[4] if a[1])
            if nel >= 3 and any(el[2] for el, _ in elements_preorder(tree)):
                nontrivial += 1
            # --- correspondence (1): raw tags -> tokens
            rm = sections(raw_out[i])
            model_tags = [t for t in parse_tokens(rm.get("TOKS", "")) if t[0] == "tag"]
            impl_tags = [t for t in toks if t[0] == "tag"]
            stats["corr_tokens"] += 1
            tokens_agree = (model_tags == impl_tags)
        else:
            tokens_agree = True
            why = c16_oracle(tags_from_tokens(toks), tree)
        if why is not None:
            stats["oracle_fail"] += 1
            payload = {"kind": "failing-input", "xml": x, "doc": doc, "impl_tree": sec["TREE"], "oracle": why}
            ck.violation("namespace/attribute resolution differs from the lexical-scope resolver: " + why, payload,
                         case_class="C16:resolver-mismatch")
        if not (tree_agrees and tokens_agree):
            bad_corr += 1
            if bad_corr <= 3:
                ck.broken.append("correspondence xmlns model vs xml5ever (%s): xml %r impl tree %r errs %s model %r raw-model %r"
                                 % ("tree" if not tree_agrees else "tokens", x, impl_tree, impl_errs, tok_out[i],
                                    raw_out.get(i)))
    ck.cov.update({
        "evaluations": len(cases), "distinct_nontrivial": nontrivial,
        "rule": "random documents (nesting <= 4) over prefixes p q x xml xmlns, locals a b x p script xmlns xml and odd names "
                "(a:b:c, a:, a::b, non-ASCII), URIs u v w '' + the xml/xmlns URIs, with xmlns / xmlns:p declarations, "
                "un-declarations, shadowing, unbound prefixes, duplicate and permuted attributes, p:xmlns attributes, "
                "start/empty/end/short tags, stray and ancestor-closing end tags, unclosed elements, content after the root; "
                "non-trivial = structured case whose tree has >= 3 elements and at least one namespaced element",
        "samples": [c[0] for c in cases[len(FIXED_XML):len(FIXED_XML) + 3]],
        "stats": stats, "correspondence_disagreements": bad_corr,
        "explanation": "Theorems of Props/C16.v hold for all token streams of the model; the model is tied to tokenizer/mod.rs "
                       "(finish_attribute, process_qname), qname.rs and tree_builder/mod.rs by running both on the same tags / "
                       "recorded token streams; the independent resolver is evaluated on the implementation's own trees.",
    })
    return ck.finish(
        trusted=["Coq 8.16.1 kernel (coqc; vm_compute in the refutation witnesses and Examples)",
                 "Extraction (ExtrOcamlBasic only) + ocamlopt 4.13.1",
                 "ocaml/xmlns_driver.ml, ocaml/conv.ml, harness/src/bin/xmlns.rs, lib/checks/c16.py generator + resolver",
                 "the element <-> creating tag association of the oracle (k-th element in document order = k-th start/empty tag)"],
        assumptions=["attribute = non-declaration attribute (xmlns / xmlns:p are consumed into the scope)",
                     "an attribute with an unbound prefix has an expanded name different from every unprefixed attribute",
                     "of duplicate declarations of one prefix in one tag the first counts (as for any duplicate attribute)",
                     "attribute order is not part of the property (compared as multisets)"])
