"""C17 - XML serializer output re-parses to the same namespaced tree.

proof      : coq/Props/C17.v (declaration adequacy outside the finding classes, reversible escaping, the
             round trip at token level for parser-shaped documents outside the finding classes
             (C17_roundtrip_partial); refutation witnesses for the findings)
tie        : correspondence - (1) tree -> characters: model serializer vs xml5ever::serialize on the
             implementation's own trees; (2) the tokens the model's items denote vs the token stream
             recorded when the implementation re-parses its own output; (3) model tree builder on
             that second token stream vs the second tree
oracle     : tree(parse(serialize(t))) == t on the implementation, t = tree(parse(x)) (doctype
             public/system ids excluded: they are outside the serializer API)
"""
import itertools
import json
import os

from checks.c16 import (FIXED_XML, XML_URI, XMLNS_URI, build_all, build_cases, doc_from_json, elements_preorder,
                        merge_text, parse_tokens, parse_tree, run_impl, sections, show_tokens, strip_doctype_ids,
                        tolerated_fix)

# ----------------------------------------------------------------------------- reference serializer
# A serializer that declares what it uses, with one switch per known root cause.  With every switch
# on it is xml5ever's serializer; the set of switches needed to reproduce the implementation's
# output on a failing case is the signature of that failure.
TOGGLES = {
    "A": "attribute-prefix-registered-after-declarations-written",
    "B": "end-elem-reregisters-name-in-parent-scope",
    "C": "no-xmlns-empty-for-unnamespaced-child-of-default-namespace",
    "D": "carriage-return-written-raw",
    "E": "namespace-uri-written-unescaped",
}


def esc(s, attr_mode, q):
    out = []
    for c in s:
        if c == "&":
            out.append("&amp;")
        elif c == "'" and attr_mode:
            out.append("&apos;")
        elif c == '"' and attr_mode:
            out.append("&quot;")
        elif c == "<" and not attr_mode:
            out.append("&lt;")
        elif c == ">" and not attr_mode:
            out.append("&gt;")
        elif c == "\r" and "D" not in q:
            out.append("&#13;")
        else:
            out.append(c)
    return "".join(out)


def ref_serialize(nodes, q):
    stack = []
    out = []

    def find(prefix, ns):
        for m in reversed(stack):
            if prefix in m:
                return m[prefix] == ns
        return False

    def qual(p, l):
        return l if p is None else p + ":" + l

    def node(n):
        if n[0] == "E":
            _, p, ns, l, attrs, kids = n
            stack.append({})
            decls = []

            def reg(prefix, uri, declare):
                if (prefix is not None or uri != "") and not find(prefix, uri):
                    stack[-1][prefix] = uri
                    if declare:
                        decls.append((prefix, uri))
            reg(p, ns, True)
            if "C" not in q and p is None and ns == "":
                inherited = ""
                for m in reversed(stack):
                    if None in m:
                        inherited = m[None]
                        break
                if inherited != "":
                    stack[-1][None] = ""
                    decls.append((None, ""))
            if "A" not in q:
                for ap, ans, al, av in attrs:
                    if ap == "xml" and ans == XML_URI:
                        continue                    # fixed binding, needs no declaration
                    reg(ap, ans, True)
            s = "<" + qual(p, l)
            for dp, du in decls:
                s += " xmlns" + ("" if dp is None else ":" + dp) + '="' + (du if "E" in q else esc(du, True, q)) + '"'
            for ap, ans, al, av in attrs:
                if "A" in q:
                    reg(ap, ans, False)
                s += " " + qual(ap, al) + '="' + esc(av, True, q) + '"'
            out.append(s + ">")
            for k in kids:
                node(k)
            stack.pop()
            if "B" in q and stack:
                if (p is not None or ns != "") and not find(p, ns):
                    stack[-1][p] = ns
            out.append("</" + qual(p, l) + ">")
        elif n[0] == "X":
            out.append(esc(n[1], False, q))
        elif n[0] == "C":
            out.append("<!--" + n[1] + "-->")
        elif n[0] == "P":
            out.append("<?" + n[1] + " " + n[2] + "?>")
        elif n[0] == "D":
            out.append("<!DOCTYPE " + n[1] + ">")
    for n in nodes:
        node(n)
    return "".join(out)


def shallow(n):
    return None if n is None else (n[:5] if n[0] == "E" else n)


def first_diff(a, b, path="/"):
    """first differing node of two node lists (document order) -> (path, node a, node b, previous sibling of a)"""
    for i in range(max(len(a), len(b))):
        prev = shallow(a[i - 1]) if 0 < i <= len(a) else None
        if i >= len(a) or i >= len(b):
            return (path + str(i), shallow(a[i]) if i < len(a) else None, shallow(b[i]) if i < len(b) else None, prev)
        x, y = a[i], b[i]
        if x[0] != y[0]:
            return (path + str(i), shallow(x), shallow(y), prev)
        if x[0] == "E":
            if x[1:5] != y[1:5]:
                return (path + str(i), x[:5], y[:5], prev)
            d = first_diff(x[5], y[5], path + str(i) + "/")
            if d:
                return d
        elif x[0] == "D":
            if x[1] != y[1]:
                return (path + str(i), x, y, prev)
        elif x != y:
            return (path + str(i), x, y, prev)
    return None


def classify(tree1, ser, diff):
    """minimal set of known serializer root causes that reproduces the implementation's output; failures the
    serializer switches do not explain are classified by the kind of node that changed"""
    found = None
    for n in range(0, len(TOGGLES) + 1):
        for qs in itertools.combinations(sorted(TOGGLES), n):
            if ref_serialize(tree1, frozenset(qs)) == ser:
                found = qs
                break
        if found is not None:
            break
    if found is None:
        return ["C17:serialization-not-explained-by-known-root-causes"]
    if found:
        return ["C17:" + TOGGLES[t] for t in found]
    # the declaring serializer writes the same characters, yet the tree changed: a lexical problem
    _, a, b, prev = diff
    kind = (a or b)[0]
    return ["C17:unexplained-%s-node" % kind]


def has_cr_or_nul(tree):
    def f(nodes):
        for n in nodes:
            if n[0] == "E":
                if any(("\r" in a[3] or "\0" in a[3]) for a in n[4]) or f(n[5]):
                    return True
            elif n[0] == "X" and ("\r" in n[1] or "\0" in n[1]):
                return True
        return False
    return f(tree)


def plain_uris(tree):
    return all(not any(c in el[2] for c in "\"&<\r\0") and all(not any(c in a[1] for c in "\"&<\r\0") for a in el[4])
               for el, _ in elements_preorder(tree))


def run(ck):
    if ck.replay:
        rp = json.load(open(ck.replay))
        cases = [(rp["xml"], doc_from_json(rp.get("doc")))] if "xml" in rp else []
    else:
        cases = build_cases(ck, 10000 if ck.quick else 250000)
    proofs_ok, bindir, model = build_all(ck)
    impl = run_impl(ck, bindir, cases)

    ser_lines, tok2_lines = [], []
    for (x, doc), o in zip(cases, impl):
        if o.startswith("TOKS"):
            sec = sections(o)
            ser_lines.append("SER " + sec["TREE"])
            tok2_lines.append("TOK " + sec["TOKS2"])
        else:
            ser_lines.append("SER")
            tok2_lines.append("TOK Z")
    ser_out = ck.run_lines(model, [], ser_lines)
    tok2_out = ck.run_lines(model, [], tok2_lines)

    stats = {"cases": len(cases), "roundtrip_ok": 0, "roundtrip_fail": 0, "known": {}, "ser_chars": 0, "elements": 0,
             "prefixed_attrs": 0, "escaped_chars": 0, "denotation_compared": 0, "panics": 0}
    nontrivial = 0
    bad_corr = 0
    for i, ((x, doc), o) in enumerate(zip(cases, impl)):
        if not o.startswith("TOKS"):
            stats["panics"] += 1
            ck.violation("xml5ever panicked or produced no output", {"kind": "failing-input", "xml": x, "impl": o},
                         case_class="C17:panic")
            continue
        sec = sections(o)
        t1s, t2s = strip_doctype_ids(sec["TREE"]), strip_doctype_ids(sec["TREE2"])
        ser = "".join(chr(int(c)) for c in sec["SER"].split())
        tree1 = parse_tree(sec["TREE"])
        stats["ser_chars"] += len(ser)
        nel = 0
        for el, _ in elements_preorder(tree1):
            nel += 1
            stats["prefixed_attrs"] += sum(1 for a in el[4] if a[0] is not None)
        stats["elements"] += nel
        stats["escaped_chars"] += sum(ser.count(e) for e in ("&amp;", "&lt;", "&gt;", "&quot;", "&apos;"))
        # ---- oracle: the property on the implementation
        ok = (t1s == t2s)
        classes = None
        if ok:
            stats["roundtrip_ok"] += 1
            if nel >= 2 and any(el[2] or any(a[1] for a in el[4]) for el, _ in elements_preorder(tree1)):
                nontrivial += 1
        else:
            stats["roundtrip_fail"] += 1
            tree2 = parse_tree(sec["TREE2"])
            diff = first_diff(tree1, tree2)
            classes = classify(tree1, ser, diff)
            payload = {"kind": "failing-input", "xml": x, "doc": doc, "tree": sec["TREE"], "serialized": ser,
                       "reparsed": sec["TREE2"], "first_difference": repr(diff)}
            for cls in classes:
                stats["known"][cls] = stats["known"].get(cls, 0) + 1
                ck.violation("re-parsing the serializer's output gives a different tree; first difference %r" % (diff,),
                             payload, case_class=cls)
        # ---- correspondence
        m = sections(ser_out[i])
        problems = []
        if m.get("SER") != sec["SER"]:
            model_ser = "".join(chr(int(c)) for c in m.get("SER", "").split())
            if ser.replace("&#13;", "\r").replace("&#xD;", "\r") == model_ser:
                tolerated_fix(ck, TOGGLES["D"])             # CR is now written as a character reference
            elif not plain_uris(tree1):
                tolerated_fix(ck, TOGGLES["E"] + " (serialization not compared for such URIs)")
            else:
                problems.append("serialization")
        m2 = sections(tok2_out[i])
        if m2.get("TREE") != sec["TREE2"] or m2.get("ERRS") != sec["ERRS2"].split()[1]:
            problems.append("second tree")
        if not problems and not has_cr_or_nul(tree1) and plain_uris(tree1):
            # what the model says the items are lexed into == what the tokenizer really delivered
            stats["denotation_compared"] += 1
            want = merge_text([t for t in parse_tokens(sec["TOKS2"]) if t[0] != "Z"])
            got = [t for t in parse_tokens(m.get("TOKS", ""))]
            got = [t for t in got if not (t[0] == "X" and t[1] == "")]
            if show_tokens(want) != show_tokens(got):
                problems.append("item denotation")
        # ---- tested (not proved) model statements: clean => adequate (proved, sanity) and
        #      rt_hyps => the token-level round trip holds (proved) and the implementation keeps the tree
        fl = dict(kv.split("=") for kv in m.get("FLAGS", "").split())
        if fl:
            stats["model_clean"] = stats.get("model_clean", 0) + (fl["clean"] == "1")
            if fl["clean"] == "1" and fl["adequate"] != "1":
                problems.append("model: ser_clean but not adequate")
            if fl.get("hyps") == "1":
                # the hypotheses of C17_roundtrip_partial hold for this parsed tree: the theorem applies
                stats["theorem_applies"] = stats.get("theorem_applies", 0) + 1
                if fl["roundtrip"] != "1":
                    problems.append("model: rt_hyps holds but the token-level round trip fails (contradicts the theorem)")
                if not ok and not has_cr_or_nul(tree1) and plain_uris(tree1) and not problems:
                    problems.append("implementation loses a tree the model calls clean")
            elif fl["clean"] == "1" and nel > 0:
                # parsed and clean - and still outside the theorem's shape conditions?
                stats["clean_but_shape_fails"] = stats.get("clean_but_shape_fails", 0) + 1
            if fl["clean"] != "1" and ok and not problems:
                stats["flagged_but_roundtrips"] = stats.get("flagged_but_roundtrips", 0) + 1
        if problems:
            if "serialization" in problems and ok:
                # the pinned model loses the tree on this input (declarations at token level, CR / raw URI at
                # character level), the implementation does not: repaired in /repo, not a broken tie
                if (m.get("TREE") is not None and strip_doctype_ids(m["TREE"]) != t1s) or has_cr_or_nul(tree1) \
                        or not plain_uris(tree1):
                    tolerated_fix(ck, "serializer output differs from the pinned model and round-trips")
                    continue
            bad_corr += 1
            if bad_corr <= 3:
                ck.broken.append("correspondence xmlns serializer model vs xml5ever (%s): xml %r tree %r impl ser %r model %r"
                                 % (", ".join(problems), x, sec["TREE"], ser, ser_out[i][:600]))
    ck.cov.update({
        "evaluations": len(cases), "distinct_nontrivial": nontrivial,
        "rule": "trees = parse of the C16 generator's documents (all namespace shapes, adversarial text / attribute values "
                "with & < > \" ' CR LF TAB ]]> non-ASCII, comments, PIs, doctype); non-trivial = round trip succeeded on a "
                "tree with >= 2 elements and at least one namespaced element or attribute",
        "samples": [c[0] for c in cases[len(FIXED_XML):len(FIXED_XML) + 3]],
        "stats": stats, "correspondence_disagreements": bad_corr,
        "explanation": "Theorems of Props/C17.v hold for all trees of the model; the serializer model is tied to "
                       "serialize/mod.rs + rcdom's traversal by running both on the implementation's trees, the token-level "
                       "reading of its items by comparing with the token stream of the real re-parse; the round-trip oracle "
                       "is evaluated on the implementation alone.",
    })
    return ck.finish(
        trusted=["Coq 8.16.1 kernel (coqc; vm_compute in the refutation witnesses and Examples)",
                 "Extraction (ExtrOcamlBasic only) + ocamlopt 4.13.1",
                 "ocaml/xmlns_driver.ml, ocaml/conv.ml, harness/src/bin/xmlns.rs, lib/checks/c16.py + c17.py generator, "
                 "canonical tree printer and reference serializer (used only to name the root cause of a failure)",
                 "the lexing of tags/attributes/comments/PIs of the serializer's output by the XML tokenizer (tested by "
                 "the item denotation correspondence, not modelled in Coq; text and attribute values are modelled)",
                 "parsed trees satisfy the shape hypotheses of C17_roundtrip_partial (tested: stats.theorem_applies "
                 "vs stats.model_roundtrip_expected, not proved)"],
        assumptions=["doctype public/system ids are outside the serializer API and excluded from the comparison",
                     "trees are those produced by the XML parser (RcDom): no adjacent and no empty text nodes"])
