"""C17 - XML serializer output re-parses to the same namespaced tree.

proof      : coq/Props/C17.v (declaration adequacy for every document, reversible escaping incl. CR and
             namespace URIs, the round trip at token level for parser-shaped documents
             (C17_roundtrip_partial)).  The five serializer findings of the first round are repaired in
             /repo (1365bbe, 94524fa, 90b86cd, cc87c47, e751ebf); the model mirrors the repaired code and
             a recurrence of any of them is a VIOLATION.
tie        : correspondence - (1) tree -> characters: model serializer vs xml5ever::serialize on the
             implementation's own trees; (2) the tokens the model's items denote vs the token stream
             recorded when the implementation re-parses its own output; (3) model tree builder on
             that second token stream vs the second tree
oracle     : tree(parse(serialize(t))) == t on the implementation, t = tree(parse(x)) (doctype
             public/system ids excluded: they are outside the serializer API)
"""
import json
import os

from checks.c16 import (FIXED_XML, build_all, build_cases, doc_from_json, elements_preorder,
                        merge_text, parse_tokens, parse_tree, run_impl, sections, show_tokens, strip_doctype_ids)

def shallow(n):
    return None if n is None else (n[:5] if n[0] == "E" else n)


def first_diff(a, b, path="/"):
    """first differing node of two node lists (document order) -> (path, node a, node b, previous sibling of a)"""
    for i in range(max(len(a), len(b))):
        prev = shallow(a[i - 1]) if 0 < i <= len(a) else None
        if i >= len(a) or i >= len(b):
            return (path + str(i), shallow(a[i]) if i < len(a) else None, shallow(b[i]) if i < len(b) else None, prev)
        x, y = a[i], b[i]
        if x[0] != y[0]:
            return (path + str(i), shallow(x), shallow(y), prev)
        if x[0] == "E":
            if x[1:5] != y[1:5]:
                return (path + str(i), x[:5], y[:5], prev)
            d = first_diff(x[5], y[5], path + str(i) + "/")
            if d:
                return d
        elif x[0] == "D":
            if x[1] != y[1]:
                return (path + str(i), x, y, prev)
        elif x != y:
            return (path + str(i), x, y, prev)
    return None


def has_nul(tree):
    def f(nodes):
        for n in nodes:
            if n[0] == "E":
                if any("\0" in a[3] for a in n[4]) or f(n[5]):
                    return True
            elif n[0] == "X" and "\0" in n[1]:
                return True
        return False
    return f(tree)


def run(ck):
    if ck.replay:
        rp = json.load(open(ck.replay))
        cases = [(rp["xml"], doc_from_json(rp.get("doc")))] if "xml" in rp else []
    else:
        cases = build_cases(ck, 10000 if ck.quick else 250000)
    proofs_ok, bindir, model = build_all(ck)
    impl = run_impl(ck, bindir, cases)

    ser_lines, tok2_lines = [], []
    for (x, doc), o in zip(cases, impl):
        if o.startswith("TOKS"):
            sec = sections(o)
            ser_lines.append("SER " + sec["TREE"])
            tok2_lines.append("TOK " + sec["TOKS2"])
        else:
            ser_lines.append("SER")
            tok2_lines.append("TOK Z")
    ser_out = ck.run_lines(model, [], ser_lines)
    tok2_out = ck.run_lines(model, [], tok2_lines)

    stats = {"cases": len(cases), "roundtrip_ok": 0, "roundtrip_fail": 0, "ser_chars": 0, "elements": 0,
             "prefixed_attrs": 0, "escaped_chars": 0, "denotation_compared": 0, "panics": 0, "consistent": 0,
             "theorem_applies": 0, "shape_fails": 0, "lex_applies": 0}
    nontrivial = 0
    bad_corr = 0
    for i, ((x, doc), o) in enumerate(zip(cases, impl)):
        if not o.startswith("TOKS"):
            stats["panics"] += 1
            ck.violation("xml5ever panicked or produced no output", {"kind": "failing-input", "xml": x, "impl": o},
                         case_class="C17:panic")
            continue
        sec = sections(o)
        t1s, t2s = strip_doctype_ids(sec["TREE"]), strip_doctype_ids(sec["TREE2"])
        ser = "".join(chr(int(c)) for c in sec["SER"].split())
        tree1 = parse_tree(sec["TREE"])
        stats["ser_chars"] += len(ser)
        nel = 0
        for el, _ in elements_preorder(tree1):
            nel += 1
            stats["prefixed_attrs"] += sum(1 for a in el[4] if a[0] is not None)
        stats["elements"] += nel
        stats["escaped_chars"] += sum(ser.count(e) for e in ("&amp;", "&lt;", "&gt;", "&quot;", "&apos;", "&#13;"))
        # ---- oracle: the property on the implementation
        ok = (t1s == t2s)
        if ok:
            stats["roundtrip_ok"] += 1
            if nel >= 2 and any(el[2] or any(a[1] for a in el[4]) for el, _ in elements_preorder(tree1)):
                nontrivial += 1
        else:
            stats["roundtrip_fail"] += 1
            diff = first_diff(tree1, parse_tree(sec["TREE2"]))
            payload = {"kind": "failing-input", "xml": x, "doc": doc, "tree": sec["TREE"], "serialized": ser,
                       "reparsed": sec["TREE2"], "first_difference": repr(diff)}
            cls = "C17:roundtrip-mismatch"
            ck.violation("re-parsing the serializer's output gives a different tree; first difference %r" % (diff,),
                         payload, case_class=cls)
        # ---- correspondence
        m = sections(ser_out[i])
        problems = []
        if m.get("SER") != sec["SER"]:
            problems.append("serialization")
        m2 = sections(tok2_out[i])
        if m2.get("TREE") != sec["TREE2"] or m2.get("ERRS") != sec["ERRS2"].split()[1]:
            problems.append("second tree")
        if not problems and not has_nul(tree1) and ok:      # (a failed round trip is reported by the oracle above)
            # what the model says the items are lexed into == what the tokenizer really delivered
            stats["denotation_compared"] += 1
            want = merge_text([t for t in parse_tokens(sec["TOKS2"]) if t[0] != "Z"])
            got = [t for t in parse_tokens(m.get("TOKS", ""))]
            got = [t for t in got if not (t[0] == "X" and t[1] == "")]
            # <!DOCTYPE > is read back with the name absent, the item denotes the empty name: the same node
            undoc = lambda ts: [((t[0], t[1] or "") + tuple(t[2:]) if t[0] == "D" else t) for t in ts]
            want, got = undoc(want), undoc(got)
            if show_tokens(want) != show_tokens(got):
                problems.append("item denotation")
        # ---- model statements, re-tested on every parsed tree: forest_cons => adequate (proved),
        #      rt_hyps => token-level round trip (proved); and tested only: parsed trees are consistent and
        #      (if they have a root) satisfy rt_hyps
        fl = dict(kv.split("=") for kv in m.get("FLAGS", "").split())
        if fl:
            stats["consistent"] += (fl["cons"] == "1")
            if fl["cons"] != "1":
                problems.append("model: a parsed tree is not forest_cons")
            elif fl["adequate"] != "1":
                problems.append("model: forest_cons but not adequate (contradicts C17_decl_adequate)")
            if fl.get("hyps") == "1":
                stats["theorem_applies"] += 1
                if fl["roundtrip"] != "1":
                    problems.append("model: rt_hyps holds but the token-level round trip fails (contradicts the theorem)")
            elif nel > 0:
                stats["shape_fails"] += 1
                problems.append("model: a parsed tree with a root element does not satisfy rt_hyps")
            # tested only: a parsed tree of the round-trip shape satisfies the character conditions of
            # C17_roundtrip_through_tokenizer_partial (no exception)
            if fl.get("hyps") == "1":
                if fl.get("lex") == "1":
                    stats["lex_applies"] += 1
                else:
                    problems.append("model: a parsed tree satisfies rt_hyps but not lex_hyps")
        if problems:
            bad_corr += 1
            if bad_corr <= 3:
                ck.broken.append("correspondence xmlns serializer model vs xml5ever (%s): xml %r tree %r impl ser %r model %r"
                                 % (", ".join(problems), x, sec["TREE"], ser, ser_out[i][:600]))
    ck.cov.update({
        "evaluations": len(cases), "distinct_nontrivial": nontrivial,
        "rule": "trees = parse of the C16 generator's documents (all namespace shapes, adversarial text / attribute values "
                "with & < > \" ' CR LF TAB ]]> non-ASCII, comments, PIs, doctype); non-trivial = round trip succeeded on a "
                "tree with >= 2 elements and at least one namespaced element or attribute",
        "samples": [c[0] for c in cases[len(FIXED_XML):len(FIXED_XML) + 3]],
        "stats": stats, "correspondence_disagreements": bad_corr,
        "explanation": "Theorems of Props/C17.v hold for all trees of the model; the serializer model is tied to "
                       "serialize/mod.rs + rcdom's traversal by running both on the implementation's trees, the token-level "
                       "reading of its items by comparing with the token stream of the real re-parse; the round-trip oracle "
                       "is evaluated on the implementation alone.",
    })
    return ck.finish(
        trusted=["Coq 8.16.1 kernel (coqc; vm_compute in the witnesses and Examples)",
                 "Extraction (ExtrOcamlBasic only) + ocamlopt 4.13.1",
                 "ocaml/xmlns_driver.ml, ocaml/conv.ml, harness/src/bin/xmlns.rs, lib/checks/c16.py + c17.py generator, "
                 "canonical tree printer",
                 "the TokIR model of the XML tokenizer (TokIR/Interp.v on the regenerated table, reference semantics) that "
                 "C17_roundtrip_through_tokenizer_partial runs is tied to the Rust tokenizer by the tokenizer checks and, "
                 "here, by the item denotation correspondence",
                 "parsed trees satisfy the shape hypotheses of C17_roundtrip_partial, forest_cons and the character "
                 "conditions lex_hyps (tested on every generated tree: stats.theorem_applies, stats.shape_fails, "
                 "stats.consistent, stats.lex_applies; not proved)"],
        assumptions=["doctype public/system ids are outside the serializer API and excluded from the comparison",
                     "trees are those produced by the XML parser (RcDom): no adjacent and no empty text nodes"])
