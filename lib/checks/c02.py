"""C02 - HTML tree construction equals the WHATWG tree-construction algorithm.

model      : coq/Tree/TreeModel*.v - token-level Gallina transcription of html5ever/src/tree_builder (state machine over
             insertion mode, open elements, active formatting list, ... emitting TreeSink operations), with a switch
             (TreeTypes.dev_on) at every place where html5ever departs from the WHATWG text
proof      : coq/Props/C02.v (invariants / refinements over the model, see the file)
tie        : correspondence - harness bin `treetrace` logs every token handed to the real TreeBuilder, every TreeSink call,
             every TokenSinkResult and every foreign-content query; ocaml/tree_driver.ml re-runs the token/query part
             through the extracted model (all switches = html5ever) and must reproduce the log event for event
oracle     : the implementation's log replayed into the abstract DOM (DomSpec.apply) versus the log of the WHATWG
             variant of the model (all switches off): tree + quirks mode must agree; a difference is classified by
             the switches that explain it (`dev:<i>`)
"""
import hashlib
import json
import os
import subprocess
import sys

import treelib as TL
from vcommon import ROOT

NDEV = 13
ALL_FIXED = sum(1 << i for i in range(1, NDEV + 1))
DEV_WHAT = {
    1: "ignore_lf is cleared by an intervening ParseError token",
    2: "scope lists lack MathML annotation-xml",
    3: "special category lacks `search`",
    4: "special category contains `isindex`",
    5: "special category lacks the MathML text integration points / annotation-xml / SVG foreignObject desc title",
    6: "foreign break-out pop loop does not stop at an annotation-xml HTML integration point",
    7: "EncodingIndicator also for base/basefont/bgsound/link",
    8: "DOCTYPE quirks: force-quirks / name tests before the iframe-srcdoc test",
    9: "characters in table: `template` missing from the current-node test",
    10: "foreign attribute xmlns gets the empty prefix instead of none",
    11: "in table body: scope test over table/tbody/tfoot instead of tbody/thead/tfoot",
    12: "declarative shadow root: topmost test in the fragment case",
    13: "DOCTYPE: quirks public-id prefix +//Silmaril//dtd html Pro v0r11 19970101// missing",
}
# witnesses per deviation switch: (input, fragment context or None, extra mk_case options)
DEV_WITNESS = {
    1: [("<pre>&#10x", None, {})],
    2: [("<div><math><annotation-xml></div>x", None, {})],
    3: [("<b><search>x</b>y", None, {})],
    4: [("<b><isindex>x</b>y", None, {})],
    5: [("<span><math><mi></span>x", None, {}), ("<li><svg><desc><li>x", None, {}), ("<span><math><annotation-xml></span>x", None, {})],
    6: [('<math><annotation-xml encoding="text/html"><svg><b>x', None, {})],
    7: [("<link charset=x>", None, {}), ("<base charset=y><bgsound charset=z><basefont charset=w>", None, {})],
    8: [("<!DOCTYPE foo><p><table>", None, {"srcdoc": 1})],
    9: [("<template><tbody></tbody><p><b></p> </template>", None, {})],
    10: [('<svg xmlns="http://www.w3.org/2000/svg">', None, {})],
    11: [("<template><thead><caption>x", None, {}), ("<thead><tbody>", "html:table", {})],
    12: [("<template shadowrootmode=open>x", "html:div", {})],
    13: [('<!DOCTYPE html PUBLIC "+//Silmaril//dtd html Pro v0r11 19970101//EN"><p><table>', None, {})],
}

TRUSTED = [
    "Coq 8.16.1 kernel",
    "coq/Tree/TreeModel*.v as a transcription of tree_builder/{mod,rules,data,tag_sets}.rs AND (switches off) of the WHATWG "
    "tree-construction text: tied to the code by the correspondence run (testing), to the standard by reading",
    "coq/Dom/DomSpec.v apply as the meaning of TreeSink operations (C20 relates it to RcDom)",
    "Extraction (ExtrOcamlBasic only) + ocamlopt; ocaml/tree_driver.ml; harness/src/bin/treetrace.rs + tracesink.rs",
    "lib/treelib.py generators",
]


def with_mask(line, mask):
    h, sep, b = line.partition(" ;; ")
    f = h.split("|")
    f[1] = " ".join(f[1].split()[:8] + [str(mask)])
    return "|".join(f) + sep + b


def probe_switches(ck, exe, model):
    """which deviations does the implementation still have?  Each witness is run through the implementation and through
    the model with the switch on / off (other switches on = html5ever).  A switch counts as repaired when on every one of
    its witnesses the implementation's log equals the model's log with the switch OFF and differs from the log with the
    switch ON.  Returns (mask of repaired switches, {i: 'present' | 'repaired' | 'inconclusive'})."""
    status = {}
    mask = 0
    for i, ws in sorted(DEV_WITNESS.items()):
        verdicts = []
        for text, frag, o in ws:
            a = one(exe, TL.mk_case([text], frag=frag, **o))
            body = lambda x: x.partition(" ;; ")[2]
            on = body(TL.split_cov(one(model, with_mask(a, 0)))[0])
            off = body(TL.split_cov(one(model, with_mask(a, 1 << i)))[0])
            if on == off:
                # the regenerated tables already carry the WHATWG value: the switch no longer changes the model
                verdicts.append("moot" if body(a) == on else "inconclusive")
            else:
                verdicts.append("present" if body(a) == on else ("repaired" if body(a) == off else "inconclusive"))
        if all(v == "moot" for v in verdicts):
            status[i] = "repaired (regenerated table carries the WHATWG value; switch has no effect)"
        elif all(v == "repaired" for v in verdicts):
            status[i] = "repaired"
            mask |= 1 << i
        elif all(v == "present" for v in verdicts):
            status[i] = "present"
        else:
            status[i] = "inconclusive:" + ",".join(verdicts)
    return mask, status


def trees(ck, model, lines):
    return ck.run_lines(model, [], ["TREE " + l for l in lines])


def one(model, line):
    return subprocess.run([model], input=line + "\n", capture_output=True, text=True).stdout.rstrip("\n")


def shrink(ck, exe, model, case, still_bad, budget=300):
    """greedy deletion of characters of a single-chunk case while [still_bad] holds"""
    f = case.split("|")
    text = "".join(TL.case_text(case))
    n = 0
    step = max(1, len(text) // 2)
    while step >= 1 and n < budget:
        i = 0
        changed = False
        while i < len(text) and n < budget:
            cand = text[:i] + text[i + step:]
            c2 = "|".join(f[:3] + [TL.T.enc(cand)])
            n += 1
            if still_bad(c2):
                text = cand
                changed = True
            else:
                i += step
        if not changed:
            step //= 2
    return "|".join(f[:3] + [TL.T.enc(text)])


GOLDEN = os.path.join(ROOT, "corpus", "c02_golden.txt")


def h12(s):
    return hashlib.sha256(s.encode("utf8", "surrogatepass")).hexdigest()[:12]


def tree_only(t):
    return t.rpartition(" | R ")[0]


def make_golden(ck):
    """(re)write corpus/c02_golden.txt from the CURRENT /repo: dispatch probes (every tag name of the tables as start and
    end tag in every insertion mode) with the hash of the implementation's tree and of the WHATWG-variant model's tree.
    Run by hand at a known-good state:  python3 lib/checks/c02.py make-golden"""
    import treetables
    treetables.regen(ck)
    exe, model = TL.build(ck)
    cases = TL.probe_cases()
    impl = TL.run_impl(ck, exe, cases)
    it = trees(ck, model, impl)
    sp = [TL.split_cov(x)[0] for x in TL.run_model(ck, model, [with_mask(x, ALL_FIXED) for x in impl])]
    st = trees(ck, model, sp)
    with open(GOLDEN, "w") as f:
        f.write("# golden dispatch probes: case <TAB> sha256[:12] of the implementation's DomSpec tree + quirks at the pinned "
                "commit <TAB> same for the WHATWG variant of the model (all deviation switches off)\n")
        for c, a, b in zip(cases, it, st):
            f.write("%s\t%s\t%s\n" % (c, h12(tree_only(a)), h12(tree_only(b))))
    return len(cases)


def golden_oracle(ck, exe, model):
    """behaviour on the golden probes must be the pinned behaviour or the WHATWG behaviour"""
    if not os.path.exists(GOLDEN):
        ck.notes.append("corpus/c02_golden.txt missing: golden dispatch probes skipped")
        return 0, 0, 0
    rows = [l.rstrip("\n").split("\t") for l in open(GOLDEN) if l.strip() and not l.startswith("#")]
    cases = [r[0] for r in rows]
    impl = TL.run_impl(ck, exe, cases)
    it = trees(ck, model, impl)
    changed = repaired = 0
    for r, a, t in zip(rows, impl, it):
        hh = h12(tree_only(t))
        if hh == r[1]:
            continue
        if hh == r[2]:
            repaired += 1
            continue
        changed += 1
        if changed <= 3:
            ck.violation("tree differs from the pinned behaviour and from the WHATWG variant on a dispatch probe "
                         "(a tag moved between arms / tag sets?)",
                         {"kind": "failing-input", "case": r[0], "described": TL.describe(r[0]), "impl_tree": tree_only(t)[:1500]},
                         case_class="golden-probe")
    return len(rows), changed, repaired


def run(ck):
    corpus = os.path.join(ROOT, "corpus", "c02.txt")
    if ck.replay:
        rp = json.load(open(ck.replay))
        cases = [rp["case"]] if "case" in rp else []
    else:
        n = 6000 if ck.quick else 400000
        cases = []
        if os.path.exists(corpus):
            cases += [l.rstrip("\n") for l in open(corpus) if l.strip() and not l.startswith("#")]
        cases += TL.systematic_cases()
        if os.path.exists(GOLDEN):
            cases += [l.split("\t")[0] for l in open(GOLDEN) if l.strip() and not l.startswith("#")]
        cases += [TL.gen_case(ck.rng) for _ in range(n)]
    import treetables
    # the model's tables are definitionally the regenerated coq/Gen/Gen*.v; Inst/InstTreeTables.v compares them with
    # the lists of the standard (a moved tag breaks a lemma there and is reported with the differing cells)
    treetables.setup(ck)
    ck.coq_props()
    exe, model = TL.build(ck)
    impl = TL.run_impl(ck, exe, cases)
    if model is None:
        ck.cov.update({"evaluations": len(cases), "distinct_nontrivial": 0, "rule": "model did not build"})
        return ck.finish(trusted=TRUSTED)

    # ------------------------------------------------------------------ which deviations are still in /repo
    repaired, dev_status = probe_switches(ck, exe, model)
    ck.cov["deviation_switches"] = {str(i): "%s - %s" % (dev_status[i], DEV_WHAT[i]) for i in sorted(dev_status)}
    if repaired:
        ck.notes.append("deviation switches found repaired in /repo (model run with them off): %s" %
                        [i for i in range(1, NDEV + 1) if repaired >> i & 1])
    present = [i for i in range(1, NDEV + 1) if not repaired >> i & 1]

    # ------------------------------------------------------------------ correspondence (switches = what /repo does)
    mod = TL.run_model(ck, model, [with_mask(x, repaired) for x in impl])
    covered = set()
    bad = 0
    panics = 0
    nontrivial = set()
    for c, a, b in zip(cases, impl, mod):
        body, cv = TL.split_cov(b)
        covered.update(cv)
        if " ; PANIC" in a or a in ("HARNESS-PANIC", "BADCASE") or a.startswith("<no-output"):
            panics += 1
            if panics <= 3:
                ck.violation("the HTML parser panicked (tree builder or tokenizer)",
                             {"kind": "failing-input", "case": c, "described": TL.describe(c), "impl": a[-400:]},
                             case_class="panic")
            continue
        if a.count("create_element") >= 4:
            nontrivial.add(c.split("|", 3)[3] + "|" + c.split("|")[2])
        if with_mask(a, repaired) != body:
            bad += 1
            if bad <= 3:
                def still_bad(c2):
                    x = one(exe, c2)
                    y = TL.split_cov(one(model, with_mask(x, repaired)))[0]
                    return with_mask(x, repaired) != y and "PANIC" not in x
                small = shrink(ck, exe, model, c, still_bad) if len("".join(TL.case_text(c))) > 8 else c
                x = with_mask(one(exe, small), repaired)
                y = TL.split_cov(one(model, x))[0]
                what = "correspondence tree-builder model vs html5ever"
                if "PANIC 99" in y:
                    what = ("the SHAPE ASSUMPTION of Props/C02.v C02_tree_no_panic_partial failed (ghost assertion 99, "
                            "TreeModelRules.hshape_b): the model stopped where html5ever did not")
                elif "FUEL" in y:
                    what = "the fuel bound of the model's Reprocess loop (TreeModel.ptc_fuel) was too small"
                ck.broken.append("%s: %s\n first difference (event #, impl, model): %s"
                                 % (what, json.dumps(TL.describe(small), ensure_ascii=True), TL.first_diff(x, y)))
    arms = one(model, "#arms").split()[1:]
    allp = set()
    for a in arms:
        m, k = map(int, a.split(":"))
        allp.update((m, i) for i in range(k))
    uncovered = sorted(allp - covered)
    # arms that are `unreachable!` / `panic!` in the Rust source or provably dead (Props/C02.v)
    dead = {(7, 3), (21, 7), (30, 11)}
    ck.cov["arms_total"] = len(allp)
    ck.cov["arms_covered"] = len(allp & covered)
    ck.cov["arms_uncovered"] = ["%d.%d" % p for p in uncovered]
    ck.cov["arms_uncovered_excluding_dead"] = ["%d.%d" % p for p in uncovered if p not in dead]
    ck.cov["correspondence_cases"] = len(cases)
    ck.cov["correspondence_disagreements"] = bad

    # ------------------------------------------------------------------ oracle: implementation vs WHATWG variant
    ok_idx = [i for i, a in enumerate(impl) if " ; PANIC" not in a and " ;; " in a]
    impl_trees = trees(ck, model, [impl[i] for i in ok_idx])
    spec_logs = [TL.split_cov(x)[0] for x in TL.run_model(ck, model, [with_mask(impl[i], ALL_FIXED) for i in ok_idx])]
    spec_trees = trees(ck, model, spec_logs)
    n_golden, golden_changed, golden_repaired = golden_oracle(ck, exe, model) if not ck.replay else (0, 0, 0)
    ck.cov["golden_probes"] = {"cases": n_golden, "changed": golden_changed, "now_whatwg": golden_repaired}
    dev_hist = {}
    oracle_fail = 0
    for i, ti, ts in zip(ok_idx, impl_trees, spec_trees):
        # the C02 statement is about the DOM and the quirks mode; TokenSinkResults (` | R ...`) belong to C19
        if ti.rpartition(" | R ")[0] == ts.rpartition(" | R ")[0]:
            continue
        expl = classify_trees(model, impl[i], tree_only(ti), present)
        cls = "dev:" + "+".join(map(str, expl)) if expl else "unexplained"
        dev_hist[cls] = dev_hist.get(cls, 0) + 1
        payload = {"kind": "failing-input", "case": cases[i], "described": TL.describe(cases[i]),
                   "impl_tree": tree_only(ti)[:1500], "whatwg_tree": tree_only(ts)[:1500],
                   "explained_by": [DEV_WHAT[e] for e in (expl or [])]}
        if expl and len(expl) > 1 and all(ck.match_known("dev:%d" % e) for e in expl):
            ck.violation("tree differs from WHATWG", payload, case_class="dev:%d" % expl[0])
            continue
        if ck.violation("DOM / quirks mode differs from the WHATWG tree-construction algorithm (%s)" % cls, payload,
                        case_class=cls):
            oracle_fail += 1
    ck.cov.update({
        "evaluations": len(cases), "distinct_nontrivial": len(nontrivial),
        "rule": "grammar-generated token soups per family (tables / adoption agency / select / template / frameset / head / "
                "forms / foreign content / lists+ruby / raw text), hand-made skeletons randomly extended, every fragment "
                "context x 12 bodies, every doctype x srcdoc, tokenizer-level grammar of toklib; documents and fragments, "
                "scripting / iframe_srcdoc / initial quirks / drop_doctype / exact_errors varied; non-trivial = distinct "
                "(input, context) whose parse created at least 4 elements",
        "samples": [TL.describe(c) for c in cases[-2:]],
        "whatwg_differences_by_class": dev_hist, "oracle_failures": oracle_fail, "impl_panics": panics,
        "shape_assumption": "ghost assertion 99 (the 4 mode-vs-stack facts assumed by C02_tree_no_panic_partial) evaluated on "
                            "every loop iteration of every case above: %s" % ("never failed" if not bad else "see broken"),
        "explanation": "Props/C02.v: theorems over the Gallina model (invariant TInv preserved by every arm of every "
                       "insertion mode; no Panic site of the census reachable except the ghost assertion; handles); "
                       "tie: event-for-event correspondence of the model "
                       "(switches = html5ever) with the real TreeBuilder; oracle: DomSpec tree of the implementation's "
                       "operations vs the WHATWG variant of the model; every difference must be explained by known "
                       "deviation switches.",
    })
    return ck.finish(trusted=TRUSTED,
                     assumptions=["token streams come from html5ever's tokenizer (C01/C03 cover it)",
                                  "sink answers: allow_declarative_shadow_roots = true, attach_declarative_shadow = false (RcDom defaults)",
                                  "no script modifies the tree (statement of C02)"])


def classify_trees(model, impl_line, impl_tree_wo_results, present):
    """smallest set S of still-present deviation switches such that the model with exactly S at 'html5ever' (the rest at
    'WHATWG') yields the implementation's tree; None when no such set is found"""
    def tree_with(rust_set):
        mask = ALL_FIXED
        for i in rust_set:
            mask &= ~(1 << i)
        m = TL.split_cov(one(model, with_mask(impl_line, mask)))[0]
        return one(model, "TREE " + m).rpartition(" | R ")[0]
    for i in present:
        if tree_with([i]) == impl_tree_wo_results:
            return [i]
    everything = list(present)
    relevant = [i for i in everything if tree_with([j for j in everything if j != i]) != impl_tree_wo_results]
    if relevant and tree_with(relevant) == impl_tree_wo_results:
        return relevant
    if tree_with(everything) == impl_tree_wo_results:
        return everything
    return None


if __name__ == "__main__":
    sys.path.insert(0, os.path.join(ROOT, "lib"))
    import vcommon
    if len(sys.argv) > 1 and sys.argv[1] == "make-golden":
        print("golden probes written:", make_golden(vcommon.Check("C02", [])))
