"""C10 - Byte-stream front ends decode exactly like a whole-input lossy decode.

proof      : coq/Props/C10.v  (UTF-8 half: full streaming theorem for all chunk lists over the
             model of utf8_decode.rs + stream.rs; encoding_rs half: loop theorem over an abstract
             decoder contract, _partial, with the `last`-pending defect refuted on a witness)
tie        : correspondence - harness bin `decode` (real Utf8LossyDecoder / decode_utf8_lossy +
             try_complete / std::str::from_utf8) vs the extracted model (ocaml/decode_driver.ml),
             line by line; Coq spec `lossy` vs String::from_utf8_lossy; EncLoop.v (transliterated
             in the harness) vs the real decode_to_sink on real encoding_rs decoders
oracle     : text delivered to the recording sink == String::from_utf8_lossy(concat) and one
             error() per replacement; LossyDecoder text == Encoding::decode(concat) for every
             exported encoding; parse_document(..).from_utf8() tree == tree of the lossy string
"""
import codecs
import json
import os

ROOT = os.path.dirname(os.path.dirname(os.path.dirname(os.path.abspath(__file__))))

# ---------------------------------------------------------------------------- pools
WELL = ["00", "0a", "41", "7f", "c280", "c2a9", "dfbf", "e0a080", "e0bfbf", "e18080", "e282ac", "ecbfbf",
        "ed8080", "ed9fbf", "ee8080", "efbfbd", "efbfbf", "f0908080", "f09f9880", "f1808080",
        "f3bfbfbf", "f4808080", "f48fbfbf"]
OVERLONG = ["c080", "c1bf", "e08080", "e09fbf", "f0808080", "f08fbfbf"]
SURR = ["eda080", "edbfbf", "edafbf", "edb080", "eda080edb080"]
BEYOND = ["f4908080", "f4bfbfbf", "f5808080", "f7bfbfbf", "f888808080", "fc8480808080", "fe", "ff"]
CONT = ["80", "bf", "8080", "a0bf80"]
BADCONT = ["c241", "c2c2", "e18041", "e141", "e180c2", "e1e1", "f1808041", "f18041", "f141", "f18080f1",
           "f180e180", "e0a041", "ed9f41", "f09041", "f48f41", "f0908041", "e0a0c280", "f09080e0a080"]


def truncations(pool):
    out = []
    for w in pool:
        b = bytes.fromhex(w)
        for i in range(1, len(b)):
            out.append(b[:i].hex())
    return sorted(set(out))


TRUNC = truncations(WELL)


def rand_scalar_bytes(rng):
    k = rng.random()
    if k < 0.25:
        c = rng.randrange(0, 0x80)
    elif k < 0.5:
        c = rng.randrange(0x80, 0x800)
    elif k < 0.8:
        c = rng.choice([rng.randrange(0x800, 0xD800), rng.randrange(0xE000, 0x10000)])
    else:
        c = rng.randrange(0x10000, 0x110000)
    return chr(c).encode("utf8")


def gen_bytes(rng, natoms=None):
    n = natoms if natoms is not None else rng.randint(1, 5)
    out = b""
    for _ in range(n):
        k = rng.random()
        if k < 0.30:
            out += bytes.fromhex(rng.choice(WELL))
        elif k < 0.40:
            out += rand_scalar_bytes(rng)
        elif k < 0.58:
            out += bytes.fromhex(rng.choice(TRUNC))
        elif k < 0.66:
            out += bytes.fromhex(rng.choice(OVERLONG))
        elif k < 0.72:
            out += bytes.fromhex(rng.choice(SURR))
        elif k < 0.79:
            out += bytes.fromhex(rng.choice(BEYOND))
        elif k < 0.84:
            out += bytes.fromhex(rng.choice(CONT))
        elif k < 0.93:
            out += bytes.fromhex(rng.choice(BADCONT))
        else:
            out += bytes(rng.randrange(256) for _ in range(rng.randint(1, 4)))
    return out


def two_way_splits(b):
    return [[b[:i], b[i:]] for i in range(len(b) + 1)]


def random_split(rng, b, empty_p=0.2):
    chunks = []
    i = 0
    while i < len(b):
        if rng.random() < empty_p:
            chunks.append(b"")
        n = rng.randint(1, max(1, min(4, len(b) - i)))
        chunks.append(b[i:i + n])
        i += n
    if rng.random() < empty_p:
        chunks.append(b"")
    return chunks


def line(kind, chunks, label=None):
    """chunks in hex separated by '|'; an empty chunk is '_', no chunks at all is '-'"""
    body = "|".join((c.hex() or "_") for c in chunks) if chunks else "-"
    return "%s %s%s" % (kind, (label + " ") if label else "", body)


def unline_chunks(body):
    if body == "-":
        return []
    return [b"" if h == "_" else bytes.fromhex(h) for h in body.split("|")]


# ---------------------------------------------------------------------------- oracles
def parse_events(evs):
    return evs.split() if evs.strip() else []


def carried(chunks):
    """did the decoder have to carry an incomplete sequence across a chunk boundary?"""
    d = codecs.getincrementaldecoder("utf-8")("replace")
    for c in chunks[:-1]:
        d.decode(c)
        if d.getstate()[0]:
            return True
    return False


def oracle_utf8(kind, chunks, impl_line):
    """the property on the implementation's own output; returns None or (what, class)"""
    parts = impl_line.split(" ; ")
    if len(parts) != 2:
        return "malformed harness output", "harness-output"
    evs = parse_events(parts[0])
    ref = parts[1].split()
    ref_text = bytes.fromhex(ref[0]) if len(ref) == 2 else b""
    ref_n = int(ref[-1])
    allb = b"".join(chunks)
    if "!" in evs:
        return "the decoder panicked", "utf8-panic"
    # independent third opinion on the reference itself
    if allb.decode("utf8", "replace").encode("utf8") != ref_text:
        return "String::from_utf8_lossy differs from Python's maximal-subpart decoding", "std-lossy-vs-python"
    text = b""
    nerr = 0
    nrep_pieces = 0
    prev = None
    for e in evs:
        if e[0] == "s":
            piece = bytes.fromhex(e[1:])
            if not piece:
                return "an empty piece was delivered", "utf8-empty-piece"
            try:
                piece.decode("utf8")
            except UnicodeDecodeError:
                return "a delivered piece is not valid UTF-8", "utf8-invalid-piece"
            text += piece
            if prev in ("e", "E"):
                if piece != b"\xef\xbf\xbd":
                    return "error() not followed by U+FFFD", "utf8-error-order"
                nrep_pieces += 1
        elif e in ("e", "E"):
            if prev in ("e", "E"):
                return "two error() calls in a row", "utf8-error-order"
            nerr += 1
        else:
            return "unexpected event " + e, "utf8-event"
        prev = e
    if prev in ("e", "E"):
        return "error() not followed by U+FFFD", "utf8-error-order"
    if text != ref_text:
        return ("delivered text differs from String::from_utf8_lossy of the concatenation",
                "utf8-text-mismatch")
    if kind == "U" and nerr != ref_n:
        return ("%d error() calls for %d replacements" % (nerr, ref_n)), "utf8-error-count"
    if kind == "A" and nerr != 0:
        return "decode_utf8_lossy path reported errors", "utf8-error-count"
    return None


HALFWIDTH = {0x28: "\uff68", 0x24: "\uff64"}


def enc_classify(label, evs, allb, ref_text, nmal):
    """None if the events are the one-shot decode, else (description, class signature)"""
    if "!" in evs or "!fuel" in evs:
        return ("LossyDecoder panicked / did not terminate", "enc-panic:" + label)
    text = b"".join(bytes.fromhex(e[1:]) for e in evs if e[0] == "s")
    nerr = sum(1 for e in evs if e in ("e", "E"))
    if text == ref_text and nerr == nmal:
        return None
    cls = "enc-mismatch:" + label
    if (len(allb) >= 2 and allb[-2] == 0x1B and allb[-1] in (0x28, 0x24) and ref_text.startswith(text)
            and evs[-2:] == ["e", "sefbfbd"]):
        tail = ref_text[len(text):].decode("utf8", "replace")
        pend = allb[-1]
        if tail in (chr(pend), HALFWIDTH[pend]) and nmal == nerr:
            cls = "enc-loop-last-pending-after-malformed:" + label
        elif tail == "\ufffd" and nmal == nerr + 1:
            cls = "enc-loop-last-pending-after-malformed:" + label
    return (("LossyDecoder(%s) delivers %r, one-shot decode gives %r (%d errors vs %d malformed)"
             % (label, text[-24:], ref_text[-24:], nerr, nmal)), cls)


def sig(evs):
    return (b"".join(bytes.fromhex(e[1:]) for e in evs if e[0] == "s"), sum(1 for e in evs if e in ("e", "E")))


def oracle_enc(label, chunks, impl_line):
    """returns (violation or None, loop-model disagreement or None, contract flags, loop variant)"""
    parts = impl_line.split(" ; ")
    if len(parts) != 4:
        return ("malformed harness output", "harness-output"), None, [], "?"
    evs = parse_events(parts[0])
    ref = parts[1].split()
    flags = [f for f in ref if f[-1] in "=!"]
    hexes = [f for f in ref if f[-1] not in "=!"]
    if len(hexes) == 2:
        ref_text, nmal = bytes.fromhex(hexes[0]), int(hexes[1])
    else:
        ref_text, nmal = b"", int(hexes[0])
    allb = b"".join(chunks)
    v = enc_classify(label, evs, allb, ref_text, nmal)
    # tie of EncLoop.v to the real loop: the loop as pinned (decode_to_sink) or, once /repo is
    # repaired, decode_to_sink_repaired; a repair may cut the pieces differently
    mdis, variant = None, "-"
    if parts[2].strip() != "-":
        m_pinned, m_rep = parse_events(parts[2]), parse_events(parts[3])
        if evs == m_pinned:
            variant = "both" if evs == m_rep else "pinned"
        elif evs == m_rep:
            variant = "repaired"
        elif v is None and sig(evs) == sig(m_rep):
            variant = "repaired-other-cut"
        else:
            variant = "none"
            mdis = "EncLoop model (transliterated) vs decode_to_sink: %s" % label
    return v, mdis, flags, variant


def oracle_parse(impl_line):
    f = impl_line.split()
    if not f or f[0] == "!":
        return "parser panicked behind from_utf8()", "parse-panic", False
    whole, pieces, errs = f[0], f[1], f[2]
    if errs != "errs=":
        return "decode errors reported to the tree sink != replacements", "parse-error-count", False
    if pieces != "pieces=":
        return "from_utf8() parser differs from a parser fed the same pieces", "parse-pieces", False
    if whole != "whole=":
        # the decoder delivered the right pieces (pieces=) yet the tree differs from the tree of
        # the whole string: the parser itself depends on the cut (property C03), not the decoder
        return None, None, True
    return None, None, False


# ---------------------------------------------------------------------------- case generation
ENC_ALPHABET = ([0x1B] * 6 + [0x24, 0x28, 0x29, 0x42, 0x4A, 0x49, 0x40, 0x44, 0x0E, 0x0F] * 2 +
                [0x41, 0x61, 0x20, 0x5C, 0x7E, 0x00, 0x7F, 0x21, 0x30] +
                [0x80, 0x81, 0x8E, 0x8F, 0x90, 0xA0, 0xA1, 0xA4, 0xB0, 0xC8, 0xDF, 0xE0, 0xFD, 0xFE, 0xFF] * 2 +
                [0xD8, 0xDB, 0xDC, 0xDF, 0x3D, 0x35, 0x39, 0x84, 0x31, 0xEF, 0xBB, 0xBF])


def gen_enc_bytes(rng, maxlen=10):
    n = rng.randint(0, maxlen)
    return bytes(rng.choice(ENC_ALPHABET) if rng.random() < 0.85 else rng.randrange(256) for _ in range(n))


def gen_big(rng, label, n):
    """> 8 KiB: forces OutputFull; mostly plausible text for the encoding plus some noise"""
    out = bytearray()
    while len(out) < n:
        k = rng.random()
        if k < 0.7:
            out += b"abc xyz 0123 "
        elif k < 0.9:
            out += bytes(rng.choice(ENC_ALPHABET) for _ in range(rng.randint(1, 6)))
        else:
            out += bytes(rng.randrange(256) for _ in range(rng.randint(1, 3)))
    return bytes(out[:n])


HTML_FRAGS = ["<p>", "</p>", "<a href=\"", "\">", "<!-- ", " -->", "<title>", "</title>", "<script>", "</script>",
              "&amp;", "&eacute", "<b>", "x", " ", "\n", "<table><td>", "<svg><text>", "</svg>", "<!DOCTYPE html>",
              "<textarea>", "</textarea>", "=", "'", "<", ">", "&#x41;", "\r\n"]
XML_FRAGS = ["<a>", "</a>", "<b x='", "'>", "</b>", "<!-- ", " -->", "<?pi ", "?>", "&amp;", "x", " ", "\n", "<c/>",
             "<![CDATA[", "]]>", "=", "\"", "<", ">"]
NONASCII = ["\u00e9", "\u20ac", "\U0001f600", "\u00a0", "\ufffd", "\u07ff", "\u0800", "\ud7ff", "\ue000",
            "\U0010ffff"]
INVALID = ["ff", "c2", "e282", "f09f98", "80", "eda080", "c080", "f4908080", "e1", "f0"]


def gen_markup(rng, frags):
    out = b""
    for _ in range(rng.randint(2, 9)):
        k = rng.random()
        if k < 0.55:
            out += rng.choice(frags).encode()
        elif k < 0.8:
            out += rng.choice(NONASCII).encode("utf8")
        else:
            out += bytes.fromhex(rng.choice(INVALID))
    return out


def build_cases(ck, enc_names):
    rng = ck.rng
    quick = ck.quick
    cases = []   # (line, kind, chunks, label)

    def add(kind, chunks, label=None):
        cases.append((line(kind, chunks, label), kind, chunks, label))

    # ---- UTF-8 decoder: pool atoms and pairs, every 2-way split; random multi-way splits
    atoms = [bytes.fromhex(x) for x in WELL + TRUNC + OVERLONG + SURR + BEYOND + CONT + BADCONT]
    for a in atoms:
        for ch in two_way_splits(a):
            add("U", ch)
        add("U", [bytes([x]) for x in a])
        add("A", [bytes([x]) for x in a])
    nseq = 4000 if quick else 120000
    for i in range(nseq):
        b = gen_bytes(rng)
        for ch in two_way_splits(b):
            add("U", ch)
        for _ in range(2):
            add("U", random_split(rng, b))
        add("U", [bytes([x]) for x in b])
        if i % 3 == 0:
            add("A", random_split(rng, b))
            for ch in two_way_splits(b)[1:-1][:6]:
                add("A", ch)
    for _ in range(600 if quick else 3000):   # longer streams
        b = gen_bytes(rng, rng.randint(6, 30))
        add("U", random_split(rng, b))
        add("U", random_split(rng, b, 0.5))
        add("A", random_split(rng, b))
    add("U", [])
    add("U", [b""])
    add("U", [b"", b""])
    add("A", [])
    # ---- from_utf8: exhaustive short strings (hashed ranges) + structured longer ones
    for n in (0, 1, 2):
        cases.append(("X %d" % n, "X", [], None))
    if not quick:
        for b0 in range(256):
            cases.append(("X %02x 2" % b0, "X", [], None))
        # four bytes: representative lead bytes x boundary second bytes x all third/fourth bytes
        for b0 in (0xC0, 0xC1, 0xC2, 0xDF, 0xE0, 0xE1, 0xEC, 0xED, 0xEE, 0xEF, 0xF0, 0xF1, 0xF3, 0xF4, 0xF5, 0xFF):
            for b1 in (0x00, 0x7F, 0x80, 0x8F, 0x90, 0x9F, 0xA0, 0xBF, 0xC0, 0xC2, 0xE0, 0xFF):
                cases.append(("X %02x%02x 2" % (b0, b1), "X", [], None))
    for a in atoms:
        cases.append(("K " + a.hex(), "K", [a], None))
    B1 = [0x00, 0x7F, 0x80, 0x8F, 0x90, 0x9F, 0xA0, 0xBF, 0xC0, 0xFF]
    B2 = [0x7F, 0x80, 0xBF, 0xC0]
    for b0 in range(0xC0, 0x100):
        for b1 in B1:
            for b2 in B2:
                cases.append(("K %02x%02x%02x" % (b0, b1, b2), "K", [], None))
                for b3 in B2:
                    cases.append(("K %02x%02x%02x%02x" % (b0, b1, b2, b3), "K", [], None))
    for _ in range(2000 if quick else 400000):
        cases.append(("K " + gen_bytes(rng, rng.randint(1, 4)).hex(), "K", [], None))
    # ---- encoding_rs: every exported encoding
    for name in enc_names:
        fixed = [b"\x1b\x28", b"\x1b\x24", b"A\x1b\x28", b"\x1b\x28\x49\x1b\x28", b"\x1b\x24\x42\x1b\x28",
                 b"\x1b", b"\x1b\x28\x42", b"\x81", b"\x00\xd8", b"\xd8\x00", b"\xef\xbb\xbf\x41", b"\xff\xfe\x41\x00",
                 b"\xfe\xff\x00\x41", b"\x8e", b"\x8f\xa1", b"\x81\x30\x81", b"\x41"]
        for b in fixed:
            add("L", [b], name)
            for ch in two_way_splits(b)[1:-1]:
                add("L", ch, name)
        for _ in range(150 if quick else 3000):
            b = gen_enc_bytes(rng)
            add("L", [b], name)
            if len(b) <= 6:
                for ch in two_way_splits(b)[1:-1]:
                    add("L", ch, name)
            add("L", random_split(rng, b), name)
            add("L", [bytes([x]) for x in b], name)
        for n in ([9000] if quick else [8193, 9000, 20000, 70000]):
            b = gen_big(rng, name, n)
            add("L", [b], name)
            k = rng.randrange(1, n)
            add("L", [b[:k], b[k:]], name)
    # ---- parsers behind from_utf8()
    for _ in range(300 if quick else 2500):
        b = gen_markup(rng, HTML_FRAGS)
        add("P", random_split(rng, b, 0.1))
        add("P", two_way_splits(b)[rng.randrange(len(b) + 1)])
    for _ in range(150 if quick else 1200):
        b = gen_markup(rng, XML_FRAGS)
        add("Q", random_split(rng, b, 0.1))
        add("Q", two_way_splits(b)[rng.randrange(len(b) + 1)])
    return cases


def parse_case_line(l):
    ws = l.split()
    kind = ws[0]
    label = ws[1] if kind == "L" else None
    if kind in ("U", "A", "P", "Q"):
        chunks = unline_chunks(ws[1])
    elif kind == "L":
        chunks = unline_chunks(ws[2])
    elif kind == "K":
        chunks = [bytes.fromhex(ws[1])] if len(ws) > 1 else [b""]
    else:
        chunks = []
    return (l, kind, chunks, label)


def drill_down(ck, impl, model, prefix_hex, n):
    """find one concrete byte string on which the from_utf8 model and std disagree"""
    if n == 0:
        a = ck.run_lines(impl, [], ["K " + prefix_hex], shards=1)[0]
        b = ck.run_lines(model, [], ["K " + prefix_hex], shards=1)[0]
        return (prefix_hex, a, b) if a != b else None
    lines = ["X %s%02x %d" % (prefix_hex, b, n - 1) for b in range(256)]
    ia = ck.run_lines(impl, [], lines, shards=4)
    ib = ck.run_lines(model, [], lines, shards=4)
    for b in range(256):
        if ia[b] != ib[b]:
            return drill_down(ck, impl, model, "%s%02x" % (prefix_hex, b), n - 1)
    return None


def run(ck):
    proofs_ok = ck.coq_props(extra_targets=["Extract/ExtractDecode.vo"])
    if proofs_ok and not ck.quick and not ck.replay:
        # independent re-check of the compiled proofs with the standalone checker
        from vcommon import sh, COQ
        rc, out = sh("coqchk -silent -o -Q . HV HV.Props.C10", cwd=COQ, timeout=900)
        ok = rc == 0 and "* Axioms: <none>" in out
        ck.cov["coqchk"] = "ok, axioms: <none>" if ok else "FAILED"
        if not ok:
            ck.broken.append("coqchk HV.Props.C10: " + "\n".join(out.strip().splitlines()[-8:]))
    bindir = ck.cargo_build(["decode"])
    impl = os.path.join(bindir, "decode")
    if os.environ.get("C10_DECODE_BIN"):
        # development aid: a `decode` binary built against a private copy of /repo (mutation
        # experiments without touching the shared working tree)
        impl = os.environ["C10_DECODE_BIN"]
        ck.notes.append("implementation binary overridden by C10_DECODE_BIN=" + impl)
    model = ck.ocaml_build("decode_model", "decode_model.ml", "decode_driver.ml")
    enc_names = ck.run_lines(impl, [], ["N"], shards=1)[0].split()
    if len(enc_names) < 39:
        ck.broken.append("harness lists only %d encodings" % len(enc_names))

    if ck.replay:
        rp = json.load(open(ck.replay))
        cases = [parse_case_line(rp["case"])] if "case" in rp else []
    else:
        cases = []
        corpus = os.path.join(ROOT, "corpus", "c10.txt")
        if os.path.exists(corpus):
            cases += [parse_case_line(l.strip()) for l in open(corpus) if l.strip() and not l.startswith("#")]
        cases += build_cases(ck, enc_names)
    ck.log("%d cases" % len(cases))

    lines = [c[0] for c in cases]
    impl_out = ck.run_lines(impl, [], lines)
    model_idx = [i for i, c in enumerate(cases) if c[1] in ("U", "A", "K", "X")]
    model_res = ck.run_lines(model, [], [lines[i] for i in model_idx])
    model_out = dict(zip(model_idx, model_res))

    kinds = {}
    enc_hist = {}
    len_hist = {}
    nontrivial = set()
    disagreements = 0
    spec_disagreements = 0
    oracle_fail = 0
    loop_model_dis = 0
    contract_flags_bad = {}
    c03_attributed = 0
    known_seen = 0
    viol_budget = 5
    fail_classes = {}
    loop_variants = {}
    for i, (l, kind, chunks, label) in enumerate(cases):
        kinds[kind] = kinds.get(kind, 0) + 1
        a = impl_out[i]
        if kind in ("U", "A"):
            b = model_out[i]
            n = sum(len(c) for c in chunks)
            len_hist[min(n, 40) // 5 * 5] = len_hist.get(min(n, 40) // 5 * 5, 0) + 1
            why = oracle_utf8(kind, chunks, a)
            if why:
                oracle_fail += 1
                fail_classes[why[1]] = fail_classes.get(why[1], 0) + 1
                if viol_budget > 0:
                    viol_budget -= 1
                    ck.violation("UTF-8 stream decoder: " + why[0],
                                 {"kind": "failing-input", "case": l, "impl": a, "model": b}, case_class=why[1])
            pa, pb = a.split(" ; "), b.split(" ; ")
            if len(pa) == 2 and len(pb) == 2:
                if pa[0] != pb[0]:
                    disagreements += 1
                    if not why and disagreements <= 3:
                        ck.broken.append("correspondence Utf8DecModel vs stream.rs/utf8_decode.rs: case %r impl %r model %r"
                                         % (l, pa[0], pb[0]))
                if pa[1] != pb[1]:
                    spec_disagreements += 1
                    if spec_disagreements <= 3:
                        ck.broken.append("correspondence Coq spec `lossy` vs String::from_utf8_lossy: case %r std %r spec %r"
                                         % (l, pa[1], pb[1]))
            elif a != b:
                disagreements += 1
                if disagreements <= 3:
                    ck.broken.append("correspondence (utf-8): case %r impl %r model %r" % (l, a, b))
            if len([c for c in chunks if c]) >= 2 and carried(chunks) and "efbfbd" in a.split(" ; ")[-1]:
                nontrivial.add(l)
        elif kind == "K":
            b = model_out[i]
            if a != b:
                disagreements += 1
                if disagreements <= 3:
                    ck.broken.append("correspondence Utf8Check.check vs std::str::from_utf8: %r std %r model %r" % (l, a, b))
        elif kind == "X":
            b = model_out[i]
            if a != b:
                disagreements += 1
                ws = l.split()
                pre, n = (ws[1], int(ws[2])) if len(ws) == 3 else ("", int(ws[1]))
                w = drill_down(ck, impl, model, pre, n)
                ck.broken.append("correspondence Utf8Check.check vs std::str::from_utf8 on range %r: %s"
                                 % (l, ("bytes %s std %r model %r" % w) if w else "hash differs"))
        elif kind == "L":
            enc_hist[label] = enc_hist.get(label, 0) + 1
            v, mdis, flags, variant = oracle_enc(label, chunks, a)
            loop_variants[variant] = loop_variants.get(variant, 0) + 1
            for f in flags:
                if f.endswith("!"):
                    contract_flags_bad[f + label] = contract_flags_bad.get(f + label, 0) + 1
            if mdis:
                loop_model_dis += 1
                if loop_model_dis <= 3:
                    ck.broken.append(mdis + " case %r: %r" % (l[:200], a[:300]))
            if v:
                oracle_fail += 1
                fail_classes[v[1]] = fail_classes.get(v[1], 0) + 1
                payload = {"kind": "failing-input", "case": l if len(l) < 4000 else l[:4000] + "...", "impl": a[:4000]}
                if ck.match_known(v[1]) is not None:
                    known_seen += 1
                    ck.violation(v[0], payload, case_class=v[1])
                elif viol_budget > 0:
                    viol_budget -= 1
                    ck.violation(v[0], payload, case_class=v[1])
            if len([c for c in chunks if c]) >= 2:
                nontrivial.add(l if len(l) < 200 else l[:200])
        elif kind in ("P", "Q"):
            what, cls, c03 = oracle_parse(a)
            if c03:
                c03_attributed += 1
                if c03_attributed <= 3:
                    ck.notes.append("tree differs from the whole-string parse although the decoder delivered the "
                                    "right pieces (parser depends on the cut: C03's domain): %s" % l[:200])
            if what:
                oracle_fail += 1
                fail_classes[cls] = fail_classes.get(cls, 0) + 1
                if viol_budget > 0:
                    viol_budget -= 1
                    ck.violation(("html5ever" if kind == "P" else "xml5ever") + " from_utf8(): " + what,
                                 {"kind": "failing-input", "case": l, "impl": a[:2000]}, case_class=cls)
            if len([c for c in chunks if c]) >= 2 and carried(chunks):
                nontrivial.add(l)
    # contract clauses observed on the real decoders (bom: decode == decode_without_bom_handling is
    # only expected without a leading BOM, so it is informational)
    hard = {k: v for k, v in contract_flags_bad.items() if not k.startswith("bom!")}
    if hard:
        ck.broken.append("decoder contract not observed on real encoding_rs: %s" % sorted(hard.items())[:6])
    ck.cov.update({
        "evaluations": len(cases) + 65793 + (0 if ck.quick or ck.replay else (256 + 192) * 65536),
        "distinct_nontrivial": len(nontrivial),
        "rule": "cases through real code (+ model for U/A/K/X). non-trivial = UTF-8/parse case with >= 2 non-empty "
                "chunks in which an incomplete sequence is carried over a chunk boundary and the result contains "
                "U+FFFD, or an encoding_rs case with >= 2 non-empty chunks; X lines are exhaustive from_utf8 sweeps "
                "(all strings of length <= 2 quick, <= 3 thorough) counted by their size",
        "samples": [c[0][:120] for c in cases[:2]] + [c[0][:120] for c in cases if c[1] == "L"][:1],
        "kind_histogram": kinds, "encodings": len(enc_hist), "encoding_histogram": enc_hist,
        "length_histogram": {str(k): v for k, v in sorted(len_hist.items())},
        "correspondence_disagreements": disagreements, "spec_vs_std_disagreements": spec_disagreements,
        "loop_model_disagreements": loop_model_dis, "loop_model_variant_matched": loop_variants, "oracle_failures": oracle_fail,
        "known_finding_cases": known_seen, "oracle_failure_classes": fail_classes, "attributed_to_C03": c03_attributed,
        "bom_sniffing_cases": sum(v for k, v in contract_flags_bad.items() if k.startswith("bom!")),
        "explanation": "C10_utf8_stream holds for all chunk lists of the model; the model and the Coq spec are tied to "
                       "stream.rs/utf8_decode.rs and to std by running both on the same cases; the property is "
                       "re-evaluated on the implementation's own outputs (oracle) to give concrete failing inputs. "
                       "encoding_rs half: loop theorem over an abstract decoder contract, contract + loop model "
                       "observed on every exported encoding.",
    })
    return ck.finish(
        trusted=["Coq 8.16.1 kernel (coqc; vm_compute in the refutation witness and the Example)",
                 "Extraction (ExtrOcamlBasic only) + ocamlopt 4.13.1",
                 "ocaml/decode_driver.ml, ocaml/conv.ml, harness/src/bin/decode.rs (incl. its transliteration of "
                 "EncLoop.v and its reference one-shot loop), lib/checks/c10.py generators+oracles",
                 "Rust std from_utf8 / from_utf8_lossy / utf8_chunks as the reference (cross-checked against the Coq "
                 "spec and Python's decoder)", "encoding_rs 0.8.x behind the contract of EncLoopProofs.v"],
        assumptions=["the one-shot reference for LossyDecoder is Encoding::decode (BOM sniffing on, as new_decoder() "
                     "has it); without a leading BOM it coincides with decode_without_bom_handling",
                     "tree equality behind from_utf8() additionally needs the parser to be independent of how its "
                     "text input is cut (C03); U+FEFF is not generated in P/Q cases"])
