"""C20 - RcDom materialises sink operations faithfully.

proof      : coq/Props/C20.v - the executable mirror of rcdom/lib.rs (coq/RcDom/RcModel.v) refines the
             abstract DOM (coq/Dom/DomSpec.v) for every contract-respecting operation sequence; parent links,
             serialization order; the option->selectedcontent mirroring is refuted with a witness.
tie        : correspondence - op traces (recorded from html5ever/xml5ever parses by harness/src/tracesink.rs, and
             random op sequences) are replayed into the real RcDom (harness bin `rcdom`) and into the extracted
             model (ocaml/rcdom_driver.ml); trees, parent-link findings, Serialize visitor calls and panic sites
             must agree, at the end and at intermediate `#dump` points.
oracle     : RcDom's tree vs the tree DomSpec.apply computes from the same operations, parent-link consistency,
             serialization = pre-order of the tree; evaluated on the implementation's own output.
"""
import json
import os
import re

HTML = "http://www.w3.org/1999/xhtml"
SVG = "http://www.w3.org/2000/svg"
MATHML = "http://www.w3.org/1998/Math/MathML"
ROOT = os.path.dirname(os.path.dirname(os.path.dirname(os.path.abspath(__file__))))

KF_SELF_DATA = "selectedcontent-left-unfilled: clone op is a no-op in RcDom although the select has a selectedcontent descendant"
KF_BFS = "selectedcontent-breadth-first: clones land in the breadth-first-first selectedcontent, not the first in tree order"
KF_CLONE_PARENT = "clone-parent-link: only nodes under a selectedcontent filled by the clone op carry a stale parent link"


# ---------------------------------------------------------------------- trace text format (tracesink.rs)
def esc(s):
    o = ['"']
    for c in s:
        u = ord(c)
        if 0x21 <= u <= 0x7e and c not in '"\\':
            o.append(c)
        else:
            o.append("\\u{%x}" % u)
    o.append('"')
    return "".join(o)


def unesc(tok):
    assert tok[0] == '"' and tok[-1] == '"', tok
    return re.sub(r"\\u\{([0-9a-f]+)\}", lambda m: chr(int(m.group(1), 16)), tok[1:-1])


def qn(prefix, ns, local):
    return "%s %s %s" % ("-" if prefix is None else esc(prefix), esc(ns), esc(local))


def fmt_attrs(attrs):
    if not attrs:
        return "0"
    return "%d %s" % (len(attrs), " ".join("%s %s" % (qn(*a[0]), esc(a[1])) for a in attrs))


# ---------------------------------------------------------------------- random operation sequences
ELEM_NAMES = ["div", "p", "b", "select", "option", "optgroup", "selectedcontent", "button", "table", "tr", "td",
              "hr", "datalist", "span", "template", "a", "html", "body"]
ATTR_POOL = [(None, "", "id"), (None, "", "class"), (None, "", "selected"), (None, "", "multiple"),
             ("xlink", "http://www.w3.org/1999/xlink", "href"), (None, "", "href"), ("x", "", "id"), (None, "u", "id")]
TEXTS = ["a", "b", " ", "\n", "x y", "\u00e9", "\U0001f600", "<&>", "\"q\"", "", "\\", ";"]


class Sim:
    """what the generator needs to know to stay inside (or deliberately step outside) the calling contract:
    kinds and parent links of the numbered nodes"""

    def __init__(self):
        self.kind = ["doc"]          # doc | elem | comment | pi | tdoc
        self.parent = [None]
        self.local = [None]
        self.tmpl = {}               # template element -> contents handle (once named)
        self.is_tmpl = set()
        self.ns = [None]
        self.has_doctype = False

    def new(self, kind, local=None, ns=None):
        self.kind.append(kind)
        self.parent.append(None)
        self.local.append(local)
        self.ns.append(ns)
        return len(self.kind) - 1

    def doc_has_doctype_or_elem(self):
        return self.has_doctype or any(self.parent[c] == 0 and self.kind[c] == "elem" for c in range(len(self.kind)))

    def anc_or_self(self, c, p):
        while p is not None:
            if p == c:
                return True
            p = self.parent[p]
        return False

    def containers(self):
        return [h for h, k in enumerate(self.kind) if k in ("doc", "elem", "tdoc")]

    def created(self):
        return [h for h, k in enumerate(self.kind) if k in ("elem", "comment", "pi")]

    def elems(self):
        return [h for h, k in enumerate(self.kind) if k == "elem"]


def rand_attrs(rng, maxn=3, distinct=True):
    n = rng.randint(0, maxn)
    names = rng.sample(ATTR_POOL, min(n, len(ATTR_POOL))) if distinct else [rng.choice(ATTR_POOL) for _ in range(n)]
    return [(nm, rng.choice(TEXTS)) for nm in names]


def gen_ops(rng, nops, permissive=False, with_clone=True):
    """a random operation sequence.  permissive=False: every operation respects DomSpec.contract_ok (judged again by
    the Coq function when the trace is run); permissive=True: also children that still have a parent, wrong node
    kinds, self-reparenting ... (exercises RcDom's panics and the index-before-removal order) but never a cycle."""
    s = Sim()
    ops = []

    def child(target_parent, parented=0.0):
        """a node that may go under target_parent, or text"""
        if rng.random() < 0.35:
            return "t " + esc(rng.choice(TEXTS))
        cands = [c for c in s.created()
                 if (permissive and rng.random() < parented or s.parent[c] is None)
                 and not s.anc_or_self(c, target_parent)]
        if not cands:
            return "t " + esc(rng.choice(TEXTS))
        return "n %d" % rng.choice(cands)

    def moved(c, newp):
        if c.startswith("n "):
            h = int(c[2:])
            s.parent[h] = newp

    for _ in range(nops):
        r = rng.random()
        if r < 0.22 or len(s.kind) < 3:
            local = rng.choice(ELEM_NAMES)
            ns = HTML if rng.random() < 0.85 else rng.choice([SVG, MATHML, ""])
            tm = local == "template" and ns == HTML
            h = s.new("elem", local, ns)
            if tm:
                s.is_tmpl.add(h)
            flags = ("t" if tm else "") + ("m" if rng.random() < 0.05 else "") + ("d" if rng.random() < 0.05 else "")
            ops.append("create_element %d %s %s %s" % (h, qn(None if rng.random() < 0.9 else "p", ns, local), flags or "-",
                                                       fmt_attrs(rand_attrs(rng, distinct=not (permissive and rng.random() < 0.2)))))
        elif r < 0.27:
            h = s.new("comment")
            ops.append("create_comment %d %s" % (h, esc(rng.choice(TEXTS))))
        elif r < 0.30:
            h = s.new("pi")
            ops.append("create_pi %d %s %s" % (h, esc("t"), esc(rng.choice(TEXTS))))
        elif r < 0.55:
            ps = s.containers() if not (permissive and rng.random() < 0.03) else list(range(len(s.kind)))
            p = rng.choice(ps)
            c = child(p, 0.02)
            ops.append("append %d %s" % (p, c))
            moved(c, p)
        elif r < 0.67:
            sibs = [h for h in s.created() if s.parent[h] is not None]
            if permissive and rng.random() < 0.03:
                sibs = s.created()
            if not sibs:
                continue
            sib = rng.choice(sibs)
            par = s.parent[sib]
            c = child(par if par is not None else sib, 0.5)
            if c == "n %d" % sib:
                continue
            ops.append("append_before_sibling %d %s" % (sib, c))
            moved(c, par)
        elif r < 0.74:
            es = s.elems()
            if len(es) < 2:
                continue
            e, pe = rng.choice(es), rng.choice(es)
            tgt = s.parent[e] if s.parent[e] is not None else pe
            c = child(tgt, 0.3 if s.parent[e] is not None else 0.02)
            if c.startswith("n ") and int(c[2:]) in (e,):
                continue
            ops.append("append_based_on_parent_node %d %d %s" % (e, pe, c))
            moved(c, tgt)
        elif r < 0.80:
            cands = list(range(1, len(s.kind)))
            if not cands:
                continue
            t = rng.choice(cands)
            ops.append("remove_from_parent %d" % t)
            s.parent[t] = None
        elif r < 0.85:
            cs = s.containers()
            a, b = rng.choice(cs), rng.choice(cs)
            if s.anc_or_self(a, b) and not (permissive and a == b and rng.random() < 0.1):
                continue
            if a == b:
                ops.append("reparent_children %d %d" % (a, b))
                continue
            ops.append("reparent_children %d %d" % (a, b))
            for c in range(len(s.kind)):
                if s.parent[c] == a:
                    s.parent[c] = b
        elif r < 0.90:
            es = s.elems() if not (permissive and rng.random() < 0.03) else list(range(len(s.kind)))
            if not es:
                continue
            ops.append("add_attrs_if_missing %d %s" % (rng.choice(es), fmt_attrs(rand_attrs(rng, 4, distinct=not (permissive and rng.random() < 0.2)))))
        elif r < 0.94:
            ts = sorted(s.is_tmpl) if not (permissive and rng.random() < 0.03) else s.elems()
            if not ts:
                continue
            t = rng.choice(ts)
            if t in s.tmpl:
                ops.append("get_template_contents %d %d" % (t, s.tmpl[t]))
            elif t in s.is_tmpl:
                h = s.new("tdoc")
                s.tmpl[t] = h
                ops.append("get_template_contents %d %d" % (t, h))
            else:
                ops.append("get_template_contents %d %d" % (t, len(s.kind)))
        elif r < 0.96:
            if not s.doc_has_doctype_or_elem() or (permissive and rng.random() < 0.3):
                ops.append("append_doctype_to_document %s %s %s" % (esc("html"), esc(rng.choice(TEXTS)), esc("")))
                s.has_doctype = True
        elif r < 0.98:
            ops.append("set_quirks_mode " + rng.choice(["Quirks", "LimitedQuirks", "NoQuirks"]))
        else:
            es = s.elems()
            if es:
                ops.append(rng.choice(["pop %d", "mark_script_already_started %d", "elem_name %d",
                                       "is_mathml_annotation_xml_integration_point %d"]) % rng.choice(es))
    if with_clone:
        opts = [h for h in s.elems() if s.local[h] == "option" and s.ns[h] == HTML] if not (permissive and rng.random() < 0.1) else s.created()
        rng.shuffle(opts)
        for o in opts[:2]:
            ops.append("maybe_clone_an_option_into_selectedcontent %d" % o)
    return ops
