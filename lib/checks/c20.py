"""C20 - RcDom materialises sink operations faithfully.

proof      : coq/Props/C20.v - the executable mirror of rcdom/lib.rs (coq/RcDom/RcModel.v) refines the
             abstract DOM (coq/Dom/DomSpec.v) for every contract-respecting operation sequence, the repaired
             option->selectedcontent cloning included (C20_refines); parent links, serialization order; for the
             code of the pinned commit the mirroring stays refuted with a witness.
tie        : correspondence - op traces (recorded from html5ever/xml5ever parses by harness/src/tracesink.rs, and
             random op sequences) are replayed into the real RcDom (harness bin `rcdom`) and into the extracted
             model (ocaml/rcdom_driver.ml); trees, parent-link findings, Serialize visitor calls and panic sites
             must agree, at the end and at intermediate `#dump` points.
oracle     : RcDom's tree vs the tree DomSpec.apply computes from the same operations, parent-link consistency,
             serialization = pre-order of the tree; evaluated on the implementation's own output.
"""
import json
import os
import re

HTML = "http://www.w3.org/1999/xhtml"
SVG = "http://www.w3.org/2000/svg"
MATHML = "http://www.w3.org/1998/Math/MathML"
ROOT = os.path.dirname(os.path.dirname(os.path.dirname(os.path.abspath(__file__))))

KF_SELF_DATA = "selectedcontent-left-unfilled: clone op is a no-op in RcDom although the select has a selectedcontent descendant"
# (the classes selectedcontent-breadth-first / clone-parent-link of the two findings that were latent behind the one
# above are gone: the repaired model is proved to refine the specification, cloning included (C20_refines), so with the
# repaired code any difference is a plain violation)


# ---------------------------------------------------------------------- trace text format (tracesink.rs)
def esc(s):
    o = ['"']
    for c in s:
        u = ord(c)
        if 0x21 <= u <= 0x7e and c not in '"\\':
            o.append(c)
        else:
            o.append("\\u{%x}" % u)
    o.append('"')
    return "".join(o)


def unesc(tok):
    assert tok[0] == '"' and tok[-1] == '"', tok
    return re.sub(r"\\u\{([0-9a-f]+)\}", lambda m: chr(int(m.group(1), 16)), tok[1:-1])


def qn(prefix, ns, local):
    return "%s %s %s" % ("-" if prefix is None else esc(prefix), esc(ns), esc(local))


def fmt_attrs(attrs):
    if not attrs:
        return "0"
    return "%d %s" % (len(attrs), " ".join("%s %s" % (qn(*a[0]), esc(a[1])) for a in attrs))


# ---------------------------------------------------------------------- random operation sequences
ELEM_NAMES = ["div", "p", "b", "select", "option", "optgroup", "selectedcontent", "button", "table", "tr", "td",
              "hr", "datalist", "span", "template", "a", "html", "body"]
ATTR_POOL = [(None, "", "id"), (None, "", "class"), (None, "", "selected"), (None, "", "multiple"),
             ("xlink", "http://www.w3.org/1999/xlink", "href"), (None, "", "href"), ("x", "", "id"), (None, "u", "id")]
TEXTS = ["a", "b", " ", "\n", "x y", "\u00e9", "\U0001f600", "<&>", "\"q\"", "", "\\", ";"]


class Sim:
    """what the generator needs to know to stay inside (or deliberately step outside) the calling contract:
    kinds and parent links of the numbered nodes"""

    def __init__(self):
        self.kind = ["doc"]          # doc | elem | comment | pi | tdoc
        self.parent = [None]
        self.local = [None]
        self.tmpl = {}               # template element -> contents handle (once named)
        self.is_tmpl = set()
        self.ns = [None]
        self.has_doctype = False

    def new(self, kind, local=None, ns=None):
        self.kind.append(kind)
        self.parent.append(None)
        self.local.append(local)
        self.ns.append(ns)
        return len(self.kind) - 1

    def doc_has_doctype_or_elem(self):
        return self.has_doctype or any(self.parent[c] == 0 and self.kind[c] == "elem" for c in range(len(self.kind)))

    def anc_or_self(self, c, p):
        """is c the node p or a host-including ancestor of it (from a template's contents the walk continues at the
        template: a template inside its own contents would make clone_with_subtree recurse for ever)"""
        host = {v: k for k, v in self.tmpl.items()}
        seen = 0
        while p is not None and seen <= len(self.kind):
            if p == c:
                return True
            p = self.parent[p] if self.parent[p] is not None else host.get(p)
            seen += 1
        return p is not None

    def containers(self):
        return [h for h, k in enumerate(self.kind) if k in ("doc", "elem", "tdoc")]

    def created(self):
        return [h for h, k in enumerate(self.kind) if k in ("elem", "comment", "pi")]

    def elems(self):
        return [h for h, k in enumerate(self.kind) if k == "elem"]


def rand_attrs(rng, maxn=3, distinct=True):
    n = rng.randint(0, maxn)
    names = rng.sample(ATTR_POOL, min(n, len(ATTR_POOL))) if distinct else [rng.choice(ATTR_POOL) for _ in range(n)]
    return [(nm, rng.choice(TEXTS)) for nm in names]


def gen_ops(rng, nops, permissive=False, with_clone=True):
    """a random operation sequence.  permissive=False: every operation respects DomSpec.contract_ok (judged again by
    the Coq function when the trace is run); permissive=True: also children that still have a parent, wrong node
    kinds, self-reparenting ... (exercises RcDom's panics and the index-before-removal order) but never a cycle."""
    s = Sim()
    ops = []

    def child(target_parent, parented=0.0):
        """a node that may go under target_parent, or text"""
        if rng.random() < 0.35:
            return "t " + esc(rng.choice(TEXTS))
        cands = [c for c in s.created()
                 if (permissive and rng.random() < parented or s.parent[c] is None)
                 and not s.anc_or_self(c, target_parent)]
        if not cands:
            return "t " + esc(rng.choice(TEXTS))
        return "n %d" % rng.choice(cands)

    def moved(c, newp):
        if c.startswith("n "):
            h = int(c[2:])
            s.parent[h] = newp

    for _ in range(nops):
        r = rng.random()
        if r < 0.22 or len(s.kind) < 3:
            local = rng.choice(ELEM_NAMES)
            ns = HTML if rng.random() < 0.85 else rng.choice([SVG, MATHML, ""])
            tm = local == "template" and ns == HTML
            h = s.new("elem", local, ns)
            if tm:
                s.is_tmpl.add(h)
            flags = ("t" if tm else "") + ("m" if rng.random() < 0.05 else "") + ("d" if rng.random() < 0.05 else "")
            ops.append("create_element %d %s %s %s" % (h, qn(None if rng.random() < 0.9 else "p", ns, local), flags or "-",
                                                       fmt_attrs(rand_attrs(rng, distinct=not (permissive and rng.random() < 0.2)))))
        elif r < 0.27:
            h = s.new("comment")
            ops.append("create_comment %d %s" % (h, esc(rng.choice(TEXTS))))
        elif r < 0.30:
            h = s.new("pi")
            ops.append("create_pi %d %s %s" % (h, esc("t"), esc(rng.choice(TEXTS))))
        elif r < 0.55:
            ps = s.containers() if not (permissive and rng.random() < 0.03) else list(range(len(s.kind)))
            p = rng.choice(ps)
            c = child(p, 0.02)
            ops.append("append %d %s" % (p, c))
            moved(c, p)
        elif r < 0.67:
            sibs = [h for h in s.created() if s.parent[h] is not None]
            if permissive and rng.random() < 0.03:
                sibs = s.created()
            if not sibs:
                continue
            sib = rng.choice(sibs)
            par = s.parent[sib]
            c = child(par if par is not None else sib, 0.5)
            if c == "n %d" % sib:
                continue
            ops.append("append_before_sibling %d %s" % (sib, c))
            moved(c, par)
        elif r < 0.74:
            es = s.elems()
            if len(es) < 2:
                continue
            e, pe = rng.choice(es), rng.choice(es)
            tgt = s.parent[e] if s.parent[e] is not None else pe
            c = child(tgt, 0.3 if s.parent[e] is not None else 0.02)
            if c.startswith("n ") and int(c[2:]) in (e,):
                continue
            ops.append("append_based_on_parent_node %d %d %s" % (e, pe, c))
            moved(c, tgt)
        elif r < 0.80:
            cands = list(range(1, len(s.kind)))
            if not cands:
                continue
            t = rng.choice(cands)
            ops.append("remove_from_parent %d" % t)
            s.parent[t] = None
        elif r < 0.85:
            cs = s.containers()
            a, b = rng.choice(cs), rng.choice(cs)
            if s.anc_or_self(a, b) and not (permissive and a == b and rng.random() < 0.1):
                continue
            if a == b:
                ops.append("reparent_children %d %d" % (a, b))
                continue
            ops.append("reparent_children %d %d" % (a, b))
            for c in range(len(s.kind)):
                if s.parent[c] == a:
                    s.parent[c] = b
        elif r < 0.90:
            es = s.elems() if not (permissive and rng.random() < 0.03) else list(range(len(s.kind)))
            if not es:
                continue
            ops.append("add_attrs_if_missing %d %s" % (rng.choice(es), fmt_attrs(rand_attrs(rng, 4, distinct=not (permissive and rng.random() < 0.2)))))
        elif r < 0.94:
            ts = sorted(s.is_tmpl) if not (permissive and rng.random() < 0.03) else s.elems()
            if not ts:
                continue
            t = rng.choice(ts)
            if t in s.tmpl:
                ops.append("get_template_contents %d %d" % (t, s.tmpl[t]))
            elif t in s.is_tmpl:
                h = s.new("tdoc")
                s.tmpl[t] = h
                ops.append("get_template_contents %d %d" % (t, h))
            else:
                ops.append("get_template_contents %d %d" % (t, len(s.kind)))
        elif r < 0.96:
            if not s.doc_has_doctype_or_elem() or (permissive and rng.random() < 0.3):
                ops.append("append_doctype_to_document %s %s %s" % (esc("html"), esc(rng.choice(TEXTS)), esc("")))
                s.has_doctype = True
        elif r < 0.98:
            ops.append("set_quirks_mode " + rng.choice(["Quirks", "LimitedQuirks", "NoQuirks"]))
        else:
            es = s.elems()
            if es:
                ops.append(rng.choice(["pop %d", "mark_script_already_started %d", "elem_name %d",
                                       "is_mathml_annotation_xml_integration_point %d"]) % rng.choice(es))
    if with_clone:
        opts = [h for h in s.elems() if s.local[h] == "option" and s.ns[h] == HTML] if not (permissive and rng.random() < 0.1) else s.created()
        rng.shuffle(opts)
        for o in opts[:2]:
            ops.append("maybe_clone_an_option_into_selectedcontent %d" % o)
    return ops


# ---------------------------------------------------------------------- document generators
GENERAL = ["<p>", "</p>", "<div>", "</div>", "<b>", "</b>", "<i>", "</i>", "<a href=x>", "</a>", "<span id=s>", "</span>",
           "text", "x y", " ", "\n", "<!--c-->", "&amp;", "<br>", "<ul><li>", "</li>", "</ul>", "<h1>", "</h1>", "<nobr>",
           "</nobr>", "<em>", "</em>", "<svg><g>", "</g></svg>", "<math><mi>", "</mi></math>", "<pre>\n", "</pre>", "<form>",
           "</form>", "<input>", "<button>", "</button>", "<script>a<b</script>", "<style>p{}</style>",
           "<textarea>t</textarea>", "<title>T</title>", "<!DOCTYPE html>", "<html lang=en>", "<body class=c>", "<head>",
           "</head>", "</body>", "</html>", "<noscript>", "</noscript>", "<font color=r>", "</font>", "<u>", "</u>",
           "<math><annotation-xml encoding=text/html><p>", "</annotation-xml></math>", "<svg><foreignObject><div>",
           "</foreignObject></svg>", "\u00e9", "<img src=i a=1 a=2>", "<marquee>", "<object>", "</object>", "<dd>", "<dt>"]
TABLE = ["<table>", "</table>", "<tr>", "</tr>", "<td>", "</td>", "<th>", "<tbody>", "</tbody>", "<thead>", "<tfoot>",
         "<caption>", "</caption>", "<colgroup>", "<col>", "foster", " ", "<b>", "</b>", "<input type=hidden>", "<input>",
         "<form>", "<select>", "<template>", "</template>", "<style>x</style>", "<script></script>", "<a>", "<p>", "x",
         "<table>", "<div>", "<!--t-->", "<i>"]
ADOPT = ["<b>", "<i>", "<a href=1>", "<a>", "<em>", "<u>", "<font size=1>", "<nobr>", "<s>", "<strong>", "<code>", "<tt>",
         "</b>", "</i>", "</a>", "</em>", "</u>", "</font>", "</nobr>", "</s>", "</strong>", "<p>", "</p>", "<div>", "</div>",
         "x", "y", " ", "<table>", "<td>", "</table>", "<li>", "<button>", "<address>", "<blockquote>", "<h2>", "</h2>",
         "<applet>", "</applet>"]
SELECT = ["<select>", "<select multiple>", "</select>", "<option>", "<option selected>", "<option selected id=o>", "</option>",
          "<optgroup>", "</optgroup>", "<button>", "</button>", "<selectedcontent>", "</selectedcontent>", "<div>", "</div>",
          "<span>", "</span>", "A", "<b>c</b>", "<hr>", "<datalist>", "</datalist>", "<img src=i>", "<i>", "</i>", "<template>",
          "</template>", "<svg><g></g></svg>", "<input>", "<p>", "text", "<selectedcontent>old</selectedcontent>",
          "<selectedcontent><b>old</b></selectedcontent>", "<option selected>S<i>t</i>u</option>"]
TEMPLATE = ["<template>", "</template>", "<template>", "</template>", "<tr>", "<td>", "x", "<div>", "</div>", "<table>",
            "</table>", "<p>", "<b>", "</b>", " ", "<!--c-->", "<select>", "<option>", "<col>", "<body>", "<html a=1>",
            "<frameset>", "<script></script>", "<caption>", "<tbody>", "<head>"]
DUP = ["<html a=1 b=2>", "<html b=9 c=3>", "<head>", "</head>", "<body x=1>", "<body x=2 y=3>", "<body z>", "x", "<p>", "</body>",
       "</html>", "<frameset>", "</frameset>", "<html>", " ", "<!--c-->", "<div>", "<body y=4 onload=f>", "<noframes>",
       "<template>", "</template>"]
XML = ["<a>", "</a>", "<b x=\"1\">", "</b>", "<c y='2' z='3'/>", "<?pi d?>", "<!--c-->", "text", " ", "<![CDATA[x<y]]>",
       "<!DOCTYPE a>", "<p:q xmlns:p=\"u\">", "</p:q>", "&amp;", "&#x41;", "<d xmlns=\"n\">", "</d>", "<e/>", "\n", "</>", "<a",
       "<?xml version=\"1.0\"?>", "t&lt;u"]
POOLS = {"general": GENERAL, "table": TABLE, "adoption": ADOPT, "select": SELECT, "template": TEMPLATE, "dup": DUP}
FRAG_CTX = ["div", "table", "tr", "tbody", "td", "select", "template", "body", "html", "title", "textarea", "colgroup", "caption"]


def gen_soup(rng, theme, n):
    pool = POOLS[theme]
    return "".join(rng.choice(pool) if rng.random() < 0.8 else rng.choice(GENERAL) for _ in range(n))


def gen_select_structured(rng):
    """customizable-select shapes: a selectedcontent somewhere below the select, options with rich content"""
    def wrap(inner, depth):
        for _ in range(depth):
            t = rng.choice(["div", "span", "button"])
            inner = "<%s>%s</%s>" % (t, inner, t)
        return inner
    parts = []
    nsc = rng.choice([0, 1, 1, 1, 2, 3])
    for _ in range(nsc):
        parts.append(wrap("<selectedcontent>%s</selectedcontent>" % rng.choice(["", "", "old", "<b>o</b>"]), rng.randint(0, 3)))
    nopt = rng.randint(1, 4)
    for _ in range(nopt):
        content = "".join(rng.choice(["A", "<b>c</b>", "<i>d<u>e</u></i>", " ", "<img src=i>", "x", "<span id=s>t</span>"])
                          for _ in range(rng.randint(0, 4)))
        o = "<option%s>%s%s" % (rng.choice(["", " selected", " selected", " selected=selected value=v"]), content,
                                rng.choice(["</option>", "</option>", ""]))
        if rng.random() < 0.25:
            o = "<optgroup>%s</optgroup>" % o
        parts.append(o)
    rng.shuffle(parts)
    if rng.random() < 0.5 and nsc:
        # the common authoring order: button/selectedcontent first
        parts.sort(key=lambda p: 0 if "selectedcontent" in p else 1)
    return "%s<select%s>%s</select>%s" % (rng.choice(["", "<p>", "<!DOCTYPE html>"]), rng.choice(["", "", "", " multiple"]),
                                          "".join(parts), rng.choice(["", "x", "</p>"]))


def gen_parse_cases(rng, n):
    cases = []
    for i in range(n):
        r = rng.random()
        if r < 0.12:
            cases.append("P xml - " + esc("".join(rng.choice(XML) for _ in range(rng.randint(1, 14)))))
            continue
        if r < 0.27:
            doc = gen_select_structured(rng)
        else:
            theme = rng.choice(["general", "table", "table", "adoption", "adoption", "select", "select", "template", "dup"])
            doc = gen_soup(rng, theme, rng.randint(2, 22))
        flags = "s" if rng.random() < 0.3 else "-"
        if rng.random() < 0.1:
            cases.append("P frag %s %s %s" % (esc(rng.choice(FRAG_CTX)), flags, esc(doc)))
        else:
            cases.append("P html %s %s" % (flags, esc(doc)))
    return cases


# ---------------------------------------------------------------------- canonical trees (TREE ... text of the drivers)
TOK = re.compile(r'"[^"]*"|\(|\)|[^\s()"]+')


def parse_forest(text):
    toks = TOK.findall(text)
    pos = [0]

    def nxt():
        t = toks[pos[0]]
        pos[0] += 1
        return t

    def node():
        assert nxt() == "("
        kind = nxt()
        nd = {"kind": kind, "id": None, "f": [], "tmpl": None, "kids": []}
        if kind == "doc":
            nd["id"] = nxt()
        elif kind == "doctype":
            nd["f"] = [nxt(), nxt(), nxt()]
        elif kind == "text":
            nd["f"] = [nxt()]
        elif kind == "comment":
            nd["id"] = nxt()
            nd["f"] = [nxt()]
        elif kind == "pi":
            nd["id"] = nxt()
            nd["f"] = [nxt(), nxt()]
        elif kind == "elem":
            nd["id"] = nxt()
            nd["name"] = [nxt(), nxt(), nxt()]
            nd["mip"] = nxt()
            k = int(nxt())
            nd["attrs"] = [[nxt(), nxt(), nxt(), nxt()] for _ in range(k)]
            if toks[pos[0]] == "tmpl":
                nxt()
                nd["tmpl"] = node()
        else:
            raise ValueError("bad node kind " + kind)
        while toks[pos[0]] == "(":
            nd["kids"].append(node())
        assert nxt() == ")"
        return nd

    roots = []
    while pos[0] < len(toks):
        roots.append(node())
    return roots


def ser_expected(nd, include):
    """the Serializer calls `Serialize for SerializableHandle` must make: pre-order, each node once"""
    out = []

    def go(n):
        k = n["kind"]
        if k == "elem":
            q = " ".join(n["name"])
            at = "0" if not n["attrs"] else "%d %s" % (len(n["attrs"]), " ".join(" ".join(a) for a in n["attrs"]))
            out.append("S %s %s" % (q, at))
            for c in n["kids"]:
                go(c)
            out.append("E " + q)
        elif k == "text":
            out.append("T " + n["f"][0])
        elif k == "comment":
            out.append("C " + n["f"][0])
        elif k == "doctype":
            out.append("D " + n["f"][0])
        elif k == "pi":
            out.append("P %s %s" % (n["f"][0], n["f"][1]))
        else:
            raise ValueError("document node below the root")
    if include:
        go(nd)
    else:
        for c in nd["kids"]:
            go(c)
    return " ".join(out)


def is_sc(nd):
    return nd["kind"] == "elem" and nd["name"][1] == esc(HTML) and nd["name"][2] == esc("selectedcontent")


def strip_sc(nd):
    """the tree with the children of every HTML selectedcontent element forgotten"""
    c = dict(nd)
    c["kids"] = [] if is_sc(nd) else [strip_sc(k) for k in nd["kids"]]
    if nd["tmpl"] is not None:
        c["tmpl"] = strip_sc(nd["tmpl"])
    return c


def node_at(roots, path):
    """path of a LINKS finding: root index, then child indexes / t for template contents; returns the chain of nodes"""
    parts = path.split(".")
    nd = roots[int(parts[0])]
    chain = [nd]
    for p in parts[1:]:
        nd = nd["tmpl"] if p == "t" else nd["kids"][int(p)]
        chain.append(nd)
    return chain


def find_by_id(roots, hid):
    st = list(roots)
    while st:
        n = st.pop()
        if n["id"] == hid:
            return n
        st.extend(n["kids"])
        if n["tmpl"] is not None:
            st.append(n["tmpl"])
    return None


def split_snapshot(snap):
    """'TREE .. | LINKS .. | SER .. | Q ..' -> dict"""
    d = {}
    for part in snap.split(" | "):
        k, _, v = part.partition(" ")
        d[k] = v
    return d


def with_dumps(rng, ops, k=3):
    ops = list(ops)
    if len(ops) > 2:
        for _ in range(k):
            ops.insert(rng.randrange(1, len(ops)), "#dump")
    return ops


OPNAMES_RARE = ("append_before_sibling", "append_based_on_parent_node", "reparent_children", "add_attrs_if_missing",
                "get_template_contents", "remove_from_parent", "maybe_clone_an_option_into_selectedcontent")

WITNESS = ('create_element 1 - {h} "select" - 0 ; append 0 n 1 ; create_element 2 - {h} "button" - 0 ; append 1 n 2 ; '
           'create_element 3 - {h} "selectedcontent" - 0 ; append 2 n 3 ; '
           'create_element 4 - {h} "option" - 1 - "" "selected" "" ; append 1 n 4 ; append 4 t "A" ; '
           'create_element 5 - {h} "b" - 0 ; append 4 n 5 ; append 5 t "c" ; '
           'maybe_clone_an_option_into_selectedcontent 4').format(h=esc(HTML))


def run(ck):
    corpus = os.path.join(ROOT, "corpus", "c20.txt")
    replay_one = None
    if ck.replay:
        rp = json.load(open(ck.replay))
        replay_one = rp.get("case")
    proofs_ok = ck.coq_props(extra_targets=["Extract/ExtractRcDom.vo"])
    bindir = ck.cargo_build(["rcdom"])
    impl = os.path.join(bindir, "rcdom")
    model = ck.ocaml_build("rcdom_model", "rcdom_model.ml", "rcdom_driver.ml")

    # which variant of the selectedcontent search does the code under test have?  (behavioural probe)
    probe = ck.run_lines(impl, [], ["R " + WITNESS], shards=1)[0]
    sc_filled = '"selectedcontent" - 0 (' in probe
    margs = ["--fixed"] if sc_filled else []
    ck.notes.append("selectedcontent search variant under test: %s" % ("node.data (repaired)" if sc_filled else "self.data (pinned commit)"))

    rng = ck.rng
    parse_cases, rand_strict, rand_perm = [], [], []
    if replay_one is not None:
        if replay_one.startswith("P "):
            parse_cases = [replay_one]
        else:
            rand_strict = [replay_one[2:].split(" ; ") if replay_one.startswith("R ") else replay_one.split(" ; ")]
    else:
        if os.path.exists(corpus):
            for l in open(corpus):
                l = l.strip()
                if l.startswith("P "):
                    parse_cases.append(l)
                elif l.startswith("R "):
                    rand_strict.append(l[2:].split(" ; "))
        n_parse, n_strict, n_perm = (10000, 8000, 4000) if ck.quick else (150000, 120000, 60000)
        parse_cases += gen_parse_cases(rng, n_parse)
        rand_strict += [gen_ops(rng, rng.randint(3, 45), permissive=False) for _ in range(n_strict)]
        rand_perm = [gen_ops(rng, rng.randint(3, 45), permissive=True) for _ in range(n_perm)]

    # 1. parse with html5ever / xml5ever into TraceSink<RcDom>
    parse_out = ck.run_lines(impl, [], parse_cases)
    replay_cases = []      # (kind, origin case, ops with dumps)
    parse_info = []
    for c, o in zip(parse_cases, parse_out):
        if not o.startswith("TRACE "):
            ck.violation("parsing into TraceSink<RcDom> did not complete: " + o[:200],
                         {"kind": "failing-input", "case": c, "impl": o[:2000]}, case_class="parse-panic")
            continue
        tr, _, rest = o[len("TRACE "):].partition(" |T| ")
        snap, _, plain = rest.partition(" |X| ")
        ops = [x for x in tr.split(" ; ") if x]
        if plain != "plain=same":
            ck.broken.append("TraceSink perturbs the parse: RcDom alone gives a different tree for %r" % c)
        replay_cases.append(("parse", c, with_dumps(rng, ops), snap))
    for ops in rand_strict:
        replay_cases.append(("strict", None, with_dumps(rng, ops, 2) if replay_one is None else ops, None))
    for ops in rand_perm:
        replay_cases.append(("permissive", None, with_dumps(rng, ops, 1), None))

    lines = ["R " + " ; ".join(rc[2]) for rc in replay_cases]
    impl_out = ck.run_lines(impl, [], lines)
    model_out = ck.run_lines(model, margs, lines)

    stats = {"parse": 0, "strict": 0, "permissive": 0, "contract_ok": 0, "contract_bad_parse": 0, "panics": 0,
             "snapshots_compared": 0, "clone_ops": 0}
    ophist = {}
    disagreements = oracle_fail = 0
    nontrivial = set()
    samples = []
    shown = {}
    kf_samples = {}
    need_noclone = []       # indexes whose Spec tree differs: decide the class with a second model run

    def record_violation(what, idx, extra, case_class=None):
        nonlocal oracle_fail
        kind, origin, ops, _ = replay_cases[idx]
        oracle_fail += 1
        key = what.split(":")[0][:60]
        if case_class is not None and ck.match_known(case_class):
            kf_samples.setdefault(case_class, origin if origin else "R " + " ; ".join(o for o in ops if o != "#dump"))
        if not (case_class is not None and ck.match_known(case_class)):
            shown[key] = shown.get(key, 0) + 1
            if shown[key] > 3:      # at most three replay files per kind of failure
                return
        payload = {"kind": "failing-input", "case": origin if origin else "R " + " ; ".join(o for o in ops if o != "#dump"),
                   "ops": [o for o in ops if o != "#dump"]}
        payload.update(extra)
        ck.violation(what, payload, case_class=case_class)

    results = []
    for idx, (rcase, a, b) in enumerate(zip(replay_cases, impl_out, model_out)):
        kind, origin, ops, parse_snap = rcase
        stats[kind] += 1
        for o in ops:
            k = o.split(" ", 1)[0]
            ophist[k] = ophist.get(k, 0) + 1
        if any(o.split(" ", 1)[0] in OPNAMES_RARE for o in ops):
            nontrivial.add(lines[idx])
        if b.startswith("MODELERROR") or " ## " not in b:
            ck.broken.append("model driver failed on %r: %s" % (lines[idx][:300], b[:200]))
            continue
        m_snaps, spec, contract = b.split(" ## ")
        a_norm = re.sub(r"PANIC (\d+) .*", r"PANIC \1", a)
        stats["snapshots_compared"] += a_norm.count(" || ") + 1
        if "PANIC" in a_norm:
            stats["panics"] += 1
        # correspondence model <-> implementation (every snapshot: tree, links, serialization, quirks, panic site)
        if a_norm != m_snaps:
            disagreements += 1
            if disagreements <= 3:
                ck.broken.append("correspondence RcModel vs rcdom/lib.rs on %s case %r:\n impl  %s\n model %s" % (
                    kind, (origin or lines[idx])[:1500], a_norm[:1500], m_snaps[:1500]))
        final = a_norm.split(" || ")[-1]
        if kind == "parse" and final != parse_snap:
            ck.broken.append("replaying the recorded trace does not reproduce the parse: %r" % origin[:500])
        if kind == "permissive":
            continue
        cok = contract == "CONTRACT ok"
        if not cok:
            if kind == "parse":
                stats["contract_bad_parse"] += 1
                if stats["contract_bad_parse"] <= 3:
                    ck.notes.append("tree builder stepped outside DomSpec.contract_ok (C05's subject, not judged here): %s on %s" % (contract, origin[:200]))
            else:
                ck.notes.append("generator produced a non-contract sequence (%s); skipped" % contract)
            continue
        stats["contract_ok"] += 1
        if final.startswith("PANIC"):
            record_violation("RcDom panics on a contract-respecting operation sequence: " + a[-200:], idx, {"impl": a[-2000:]})
            continue
        sn = split_snapshot(final)
        spec_tree = split_snapshot(spec[len("SPEC "):])["TREE"]
        spec_q = split_snapshot(spec[len("SPEC "):])["Q"]
        try:
            roots = parse_forest(sn["TREE"])
        except Exception as e:      # noqa
            ck.broken.append("cannot parse the canonical tree of %r: %s" % (lines[idx][:200], e))
            continue
        # oracle 1: serialization = pre-order of the tree, each node once
        try:
            exp = " / ".join(ser_expected(r, i > 0) for i, r in enumerate(roots))
        except ValueError:
            exp = None
        if exp is not None and exp != sn["SER"]:
            record_violation("Serialize does not visit the tree in document order, each node once", idx,
                             {"expected_ser": exp[:3000], "observed_ser": sn["SER"][:3000]})
        # oracle 2: parent links
        links_bad = sn["LINKS"] != "ok"
        # oracle 3: tree = abstract DOM
        tree_bad = sn["TREE"] != spec_tree
        if sn["Q"] != spec_q:
            record_violation("quirks mode differs from the specification", idx, {"impl": sn["Q"], "spec": spec_q})
        if links_bad or tree_bad:
            need_noclone.append((idx, sn, spec_tree, roots, links_bad, tree_bad))
        if len(samples) < 3 and kind == "parse":
            samples.append(origin)

    # classify the failures: second model run without the clone operations
    if need_noclone:
        nl = ["R " + " ; ".join(o for o in replay_cases[i][2] if o != "#dump" and not o.startswith("maybe_clone")) for i, *_ in need_noclone]
        nout = ck.run_lines(model, margs, nl)
        for (idx, sn, spec_tree, roots, links_bad, tree_bad), nb in zip(need_noclone, nout):
            ops = replay_cases[idx][2]
            has_clone = any(o.startswith("maybe_clone") for o in ops)
            noclone_tree = None
            if " ## " in nb:
                noclone_tree = split_snapshot(nb.split(" ## ")[1][len("SPEC "):]).get("TREE")
            if tree_bad:
                cls = None
                still_bad = True
                if not sc_filled:
                    # code with `self.data` (pinned commit): the only admissible signature is "the clone requests did
                    # nothing"; the nodes the specification removes from a selectedcontent are parentless roots in
                    # the abstract DOM and still children of the selectedcontent in RcDom
                    try:
                        sroots = parse_forest(spec_tree)
                        under_sc = set()

                        def collect(n, inside):
                            if inside and n["id"] not in (None, "-"):
                                under_sc.add(n["id"])
                            for k in n["kids"]:
                                collect(k, inside or is_sc(n))
                            if n["tmpl"] is not None:
                                collect(n["tmpl"], inside)
                        for r in roots:
                            collect(r, False)
                        sroots = [r for i, r in enumerate(sroots) if i == 0 or r["id"] not in under_sc]
                        still_bad = roots != sroots
                        confined = [strip_sc(r) for r in roots] == [strip_sc(r) for r in sroots]
                    except Exception:       # noqa
                        confined = False
                    if has_clone and confined and sn["TREE"] == noclone_tree:
                        cls = KF_SELF_DATA
                # repaired code: the forests (document + every parentless numbered node) must be equal as they are
                if still_bad:
                    record_violation("RcDom's tree differs from the abstract DOM computed from the same operations", idx,
                                     {"impl_tree": sn["TREE"][:4000], "spec_tree": spec_tree[:4000]}, case_class=cls)
            if links_bad:
                record_violation("a parent link does not name the node whose child list contains the node: " + sn["LINKS"][:300],
                                 idx, {"links": sn["LINKS"][:3000], "impl_tree": sn["TREE"][:4000]})

    stats["clone_ops"] = ophist.get("maybe_clone_an_option_into_selectedcontent", 0)
    ck.cov.update({
        "evaluations": len(replay_cases), "distinct_nontrivial": len(nontrivial),
        "rule": "op traces replayed into RcDom and into the extracted RcModel/DomSpec: traces recorded from html5ever/xml5ever "
                "parses of structured tag soup (tables/foster parenting, adoption agency, select/option/selectedcontent, "
                "templates, duplicate html/body, fragments, XML) + random contract-respecting op sequences + random "
                "permissive sequences (correspondence only); non-trivial = trace containing at least one of "
                + ", ".join(OPNAMES_RARE),
        "samples": samples, "op_histogram": ophist, "case_counts": stats,
        "correspondence_disagreements": disagreements, "oracle_failures": oracle_fail,
        "known_finding_samples": kf_samples,
        "explanation": "Props/C20.v: the model of the repaired rcdom/lib.rs refines DomSpec for ALL contract-respecting op "
                       "sequences, option->selectedcontent cloning included (premise: the option's subtree with its template "
                       "contents is finite - reported by the model driver as part of CONTRACT), parent-link/NoDup/acyclicity "
                       "invariant, Serialize = pre-order; the model of the pinned commit is kept with its refutations; the "
                       "model is tied to rcdom/lib.rs by replaying the same traces (every intermediate #dump snapshot and the "
                       "final one: tree, parent-link findings, Serializer calls, quirks mode, panic site); the oracle compares "
                       "RcDom's own tree with the DomSpec tree, checks parent links and the Serializer call order.",
    })
    return ck.finish(
        trusted=["Coq 8.16.1 kernel (coqc; vm_compute for the concrete witnesses)",
                 "Extraction (ExtrOcamlBasic only) + ocamlopt 4.13.1",
                 "ocaml/rcdom_driver.ml, ocaml/conv.ml, harness/src/tracesink.rs, harness/src/bin/rcdom.rs, lib/checks/c20.py",
                 "DomSpec.apply as the reading of the TreeSink documentation (incl. WHATWG 'maybe clone an option into selectedcontent')",
                 "Rc/Weak reference counting and Drop are not modelled (a weak parent link is assumed to upgrade)"],
        assumptions=["operation sequences respect DomSpec.contract_ok (what the tree builders do; C05 checks that side)",
                     "template contents are a separate fragment which Serialize does not enter (reading decision)",
                     "attribute-name equality is QualName equality (prefix, namespace, local), as RcDom's HashSet uses"])
