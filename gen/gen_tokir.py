#!/usr/bin/env python3
"""regenerate coq/Gen/GenHtmlTok.v and coq/Gen/GenXmlTok.v from /repo's tokenizers (see rs2ir.py)"""
import os, sys
sys.path.insert(0, os.path.dirname(os.path.abspath(__file__)))
import rs2ir
try:
    rs2ir.main()
except rs2ir.TranslateError as e:
    print("TRANSLATE-ERROR: %s" % e)
    sys.exit(3)
