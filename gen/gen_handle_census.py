#!/usr/bin/env python3
"""gen/gen_handle_census.py - regenerate coq/Gen/GenHandleCensus.v from /repo.

For both tree builders (html5ever/src/tree_builder/mod.rs `struct TreeBuilder`,
xml5ever/src/tree_builder/mod.rs `struct XmlTreeBuilder`) the census lists

  *_fields          every field of the struct with its type text,
  *_handle_fields   the fields whose type mentions `Handle` (directly or inside
                    Vec / Option / RefCell / FormatEntry / ...),
  *_traced_fields   the fields that a statement of `fn trace_handles` reads
                    (`self.<field>`) and for which that statement calls
                    `tracer.trace_handle(..)`,
  *_handle_variants the variants of the auxiliary enums used in Handle-bearing
                    field types (tree_builder/types.rs) that carry a Handle,
  *_traced_variants the enum variants `trace_handles` takes apart.

coq/Inst/InstHandleCensus.v proves (vm_compute) that the handle fields are a
subset of the traced fields and likewise for the variants: adding a Handle
field (or a Handle-carrying variant) without tracing it breaks the lemma.

Fail closed: a struct / function that cannot be found or parsed aborts with
exit status 2.  The file is rewritten only when its content changes.
"""
import os
import re
import sys

ROOT = os.path.dirname(os.path.dirname(os.path.abspath(__file__)))
REPO = os.environ.get("VERIF_REPO", "/repo")
GEN = os.path.join(ROOT, "coq", "Gen")

STD_WRAPPERS = {"Vec", "Option", "RefCell", "Cell", "VecDeque", "Box", "Rc", "Handle", "Sink", "bool", "u64", "u32",
                "usize", "String", "StrTendril"}


class TranslateError(Exception):
    pass


def write_if_changed(path, text):
    try:
        if open(path).read() == text:
            return False
    except OSError:
        pass
    os.makedirs(os.path.dirname(path), exist_ok=True)
    tmp = path + ".tmp%d" % os.getpid()
    with open(tmp, "w") as f:
        f.write(text)
    os.replace(tmp, path)
    return True


def strip_comments(src):
    src = re.sub(r"/\*.*?\*/", " ", src, flags=re.S)
    return re.sub(r"//[^\n]*", "", src)


def balanced(src, start, open_ch="{", close_ch="}"):
    """src[start] == open_ch; returns the index just after the matching close_ch"""
    assert src[start] == open_ch
    depth = 0
    i = start
    while i < len(src):
        c = src[i]
        if c == open_ch:
            depth += 1
        elif c == close_ch:
            depth -= 1
            if depth == 0:
                return i + 1
        i += 1
    raise TranslateError("unbalanced %s at offset %d" % (open_ch, start))


def split_top(body, sep=","):
    """split at top-level separators (outside <>, (), {}, [])"""
    out, cur, depth = [], [], 0
    for c in body:
        if c in "<({[":
            depth += 1
        elif c in ">)}]":
            depth -= 1
        if c == sep and depth == 0:
            out.append("".join(cur))
            cur = []
        else:
            cur.append(c)
    if "".join(cur).strip():
        out.append("".join(cur))
    return out


def struct_fields(src, name):
    m = re.search(r"\bstruct\s+%s\s*<[^>{]*>\s*(where[^{]*)?\{" % re.escape(name), src)
    if not m:
        raise TranslateError("struct %s not found" % name)
    end = balanced(src, m.end() - 1)
    body = src[m.end():end - 1]
    fields = []
    for part in split_top(body):
        part = part.strip()
        if not part:
            continue
        part = re.sub(r"#\[[^\]]*\]", "", part).strip()
        fm = re.match(r"(?:pub(?:\([^)]*\))?\s+)?([A-Za-z_][A-Za-z0-9_]*)\s*:\s*(.+)$", part, flags=re.S)
        if not fm:
            raise TranslateError("cannot parse field declaration %r of %s" % (part[:80], name))
        fields.append((fm.group(1), re.sub(r"\s+", " ", fm.group(2).strip())))
    if not fields:
        raise TranslateError("struct %s has no fields?" % name)
    return fields


def enum_variants(src, name):
    m = re.search(r"\benum\s+%s\s*(<[^>{]*>)?\s*\{" % re.escape(name), src)
    if not m:
        return None
    end = balanced(src, m.end() - 1)
    body = src[m.end():end - 1]
    out = []
    for part in split_top(body):
        part = re.sub(r"#\[[^\]]*\]", "", part).strip()
        if not part:
            continue
        vm = re.match(r"([A-Za-z_][A-Za-z0-9_]*)\s*(.*)$", part, flags=re.S)
        if not vm:
            raise TranslateError("cannot parse variant %r of enum %s" % (part[:80], name))
        out.append((vm.group(1), vm.group(2)))
    return out


def fn_body(src, name):
    m = re.search(r"\bfn\s+%s\s*(<[^>(]*>)?\s*\(" % re.escape(name), src)
    if not m:
        raise TranslateError("fn %s not found" % name)
    pe = balanced(src, m.end() - 1, "(", ")")
    b = src.index("{", pe)
    end = balanced(src, b)
    return src[b + 1:end - 1]


def top_statements(body):
    """top-level statements of a block: split at `;` and after `}` at depth 0"""
    out, cur, depth = [], [], 0
    for c in body:
        cur.append(c)
        if c in "({[":
            depth += 1
        elif c in ")}]":
            depth -= 1
            if depth == 0 and c == "}":
                out.append("".join(cur))
                cur = []
        elif c == ";" and depth == 0:
            out.append("".join(cur))
            cur = []
    if "".join(cur).strip():
        out.append("".join(cur))
    return [s.strip() for s in out if s.strip()]


def census(mod_rs, types_rs, struct):
    src = strip_comments(open(mod_rs).read())
    tsrc = strip_comments(open(types_rs).read()) if types_rs and os.path.exists(types_rs) else ""
    fields = struct_fields(src, struct)
    mentions = lambda ty: re.search(r"\bHandle\b", ty) is not None
    handle_fields = [f for f, ty in fields if mentions(ty)]
    # auxiliary type constructors inside the Handle-bearing field types
    variants = []
    for f, ty in fields:
        if not mentions(ty):
            continue
        for ident in re.findall(r"\b([A-Z][A-Za-z0-9_]*)\b", ty):
            if ident in STD_WRAPPERS:
                continue
            vs = enum_variants(tsrc, ident) or enum_variants(src, ident)
            if vs is None:
                raise TranslateError("type %s (field %s of %s) is neither a known wrapper nor an enum I can find" % (ident, f, struct))
            for v, payload in vs:
                if mentions(payload) and (ident, v) not in variants:
                    variants.append((ident, v))
    body = fn_body(src, "trace_handles")
    traced, traced_variants = [], []
    names = set(f for f, _ in fields)
    for st in top_statements(body):
        if "trace_handle" not in st:
            continue
        for f in re.findall(r"\bself\s*\.\s*([A-Za-z_][A-Za-z0-9_]*)", st):
            if f in names and f not in traced:
                traced.append(f)
        for e, v in re.findall(r"\b([A-Z][A-Za-z0-9_]*)\s*::\s*([A-Z][A-Za-z0-9_]*)\s*\(", st):
            if (e, v) not in traced_variants:
                traced_variants.append((e, v))
    if not traced:
        raise TranslateError("trace_handles of %s visits no field?" % struct)
    return fields, handle_fields, traced, variants, traced_variants


def coq_str(s):
    return '"' + s.replace('"', '""') + '"'


def coq_list(items):
    return "[" + "; ".join(items) + "]"


def emit(prefix, c):
    fields, hf, tr, vs, tvs = c
    out = []
    out.append("Definition %s_fields : list (string * string) :=\n  %s." % (
        prefix, coq_list(["(%s, %s)" % (coq_str(f), coq_str(t)) for f, t in fields]).replace("; (", ";\n   (")))
    out.append("Definition %s_handle_fields : list string := %s." % (prefix, coq_list([coq_str(f) for f in hf])))
    out.append("Definition %s_traced_fields : list string := %s." % (prefix, coq_list([coq_str(f) for f in tr])))
    out.append("Definition %s_handle_variants : list (string * string) := %s." % (
        prefix, coq_list(["(%s, %s)" % (coq_str(e), coq_str(v)) for e, v in vs])))
    out.append("Definition %s_traced_variants : list (string * string) := %s." % (
        prefix, coq_list(["(%s, %s)" % (coq_str(e), coq_str(v)) for e, v in tvs])))
    return "\n".join(out)


def main():
    try:
        h = census(os.path.join(REPO, "html5ever", "src", "tree_builder", "mod.rs"),
                   os.path.join(REPO, "html5ever", "src", "tree_builder", "types.rs"), "TreeBuilder")
        x = census(os.path.join(REPO, "xml5ever", "src", "tree_builder", "mod.rs"),
                   os.path.join(REPO, "xml5ever", "src", "tree_builder", "types.rs"), "XmlTreeBuilder")
    except (TranslateError, OSError) as e:
        sys.stderr.write("gen_handle_census: %s\n" % e)
        return 2
    text = ("(* GENERATED by gen/gen_handle_census.py from html5ever/src/tree_builder/mod.rs and\n"
            "   xml5ever/src/tree_builder/mod.rs - do not edit.  Field census of the tree builders:\n"
            "   which fields hold Handles, which fields trace_handles visits. *)\n"
            "From Coq Require Import List String.\nImport ListNotations.\nOpen Scope string_scope.\n\n"
            + emit("html", h) + "\n\n" + emit("xml", x) + "\n")
    changed = write_if_changed(os.path.join(GEN, "GenHandleCensus.v"), text)
    print("gen_handle_census: GenHandleCensus.v %s (html: %d handle fields / %d traced; xml: %d / %d)" % (
        "rewritten" if changed else "unchanged", len(h[1]), len(h[2]), len(x[1]), len(x[2])))
    return 0


if __name__ == "__main__":
    sys.exit(main())
