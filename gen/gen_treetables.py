#!/usr/bin/env python3
"""Translate the data tables of html5ever's tree builder into Coq (C02, table part).

Reads (from $VERIF_REPO, default /repo):
  html5ever/src/tree_builder/tag_sets.rs, data.rs, types.rs, mod.rs, rules.rs,
  html5ever/src/serialize/mod.rs, markup5ever/interface/tree_builder.rs
Writes (only when the content changes):
  coq/Gen/GenTagSets.v   every declare_tag_set! (global + local) with the [super] +/- algebra expanded,
                         the integration-point predicates, default_scope, census of tag-set uses per fn
  coq/Gen/GenQuirks.v    the five string tables of data.rs, the decision arms of the doctype -> quirks
                         match, the list of error-free doctypes, fingerprint of the rest of the function
  coq/Gen/GenAdjust.v    SVG tag/attribute fix-ups, MathML + foreign attribute fix-ups, tokenizer state per
                         fragment context element, foreign break-out lists, is_foreign name lists,
                         annotation-xml encodings, reset-insertion-mode arms, serializer void / raw-text lists
  coq/Gen/GenDispatch.v  per insertion mode (+ "Foreign") the ordered arm heads of rules.rs, the arms that only
                         split white space, a name/tag-set/mode skeleton of every arm body
  build/treetables.json  the same data + source lines (for diagnostics)

Fail-closed: every source form outside the recognised subset raises TranslateError(file:line: ...);
the script then prints `TRANSLATE-ERROR: ...` and exits with status 3.
"""
import hashlib
import json
import os
import re
import sys

ROOT = os.path.dirname(os.path.dirname(os.path.abspath(__file__)))
REPO = os.environ.get("VERIF_REPO", "/repo")

F_TAGSETS = "html5ever/src/tree_builder/tag_sets.rs"
F_DATA = "html5ever/src/tree_builder/data.rs"
F_TYPES = "html5ever/src/tree_builder/types.rs"
F_MOD = "html5ever/src/tree_builder/mod.rs"
F_RULES = "html5ever/src/tree_builder/rules.rs"
F_SER = "html5ever/src/serialize/mod.rs"
F_IFACE = "markup5ever/interface/tree_builder.rs"


class TranslateError(Exception):
    pass


def fail(path, line, msg):
    raise TranslateError("%s:%s: %s" % (path, line, msg))


def read(rel):
    p = os.path.join(REPO, rel)
    try:
        return open(p, encoding="utf8").read()
    except OSError as e:
        raise TranslateError("%s:0: cannot read source file (%s)" % (rel, e))


# ------------------------------------------------------------------------------------------------ lexer
TOK_RE = re.compile(r"""
    (?P<ws>\s+)
  | (?P<comment>//[^\n]*|/\*.*?\*/)
  | (?P<str>b?"(?:\\.|[^"\\])*")
  | (?P<char>b?'(?:\\u\{[0-9a-fA-F]+\}|\\x[0-9a-fA-F]{2}|\\.|[^'\\])')
  | (?P<life>'[A-Za-z_][A-Za-z0-9_]*)
  | (?P<num>\d[\d_]*(?:\.\d+)?(?:[iu](?:8|16|32|64|128|size))?)
  | (?P<id>[A-Za-z_][A-Za-z0-9_]*)
  | (?P<op>=>|::|==|!=|&&|\|\||\.\.=|\.\.|->|<=|>=|\+=|-=|[{}()\[\];,.:=|&!<>*+\-/@?%^\#$~])
""", re.X | re.S)


class Tok:
    __slots__ = ("k", "v", "line")

    def __init__(self, k, v, line):
        self.k, self.v, self.line = k, v, line

    def __repr__(self):
        return "%s:%r@%d" % (self.k, self.v, self.line)


def lex(path, src):
    toks, pos, line = [], 0, 1
    n = len(src)
    while pos < n:
        m = TOK_RE.match(src, pos)
        if not m:
            fail(path, line, "cannot lex %r" % src[pos:pos + 30])
        k = m.lastgroup
        t = m.group(0)
        if k not in ("ws", "comment"):
            toks.append(Tok(k, t, line))
        line += t.count("\n")
        pos = m.end()
    return toks


OPEN = {"(": ")", "[": "]", "{": "}"}
CLOSE = {")", "]", "}"}


def match_close(path, toks, i):
    """toks[i] is an opening bracket; return the index of its partner"""
    depth = 0
    j = i
    while j < len(toks):
        v = toks[j].v
        if toks[j].k == "op":
            if v in OPEN:
                depth += 1
            elif v in CLOSE:
                depth -= 1
                if depth == 0:
                    return j
        j += 1
    fail(path, toks[i].line, "unbalanced bracket")


def norm(toks):
    """normalised text of a token slice (single spaces)"""
    return " ".join(t.v for t in toks)


def find_fn(path, toks, name, nth=0):
    """return (i_open, i_close) of the body braces of `fn name`"""
    seen = 0
    for i in range(len(toks) - 1):
        if toks[i].k == "id" and toks[i].v == "fn" and toks[i + 1].v == name:
            if seen == nth:
                j = i + 2
                # skip generics / params / where clause up to the body brace at depth 0
                depth = 0
                while j < len(toks):
                    v = toks[j].v
                    if toks[j].k == "op":
                        if v in ("(", "["):
                            depth += 1
                        elif v in (")", "]"):
                            depth -= 1
                        elif v == "{" and depth == 0:
                            return j, match_close(path, toks, j)
                        elif v == ";" and depth == 0:
                            break
                    j += 1
                fail(path, toks[i].line, "fn %s has no body" % name)
            seen += 1
    fail(path, 0, "fn %s not found" % name)


def all_fns(path, toks):
    """[(name, i_open, i_close, line)] of every fn with a body (nested fns are reported too)"""
    res = []
    for i in range(len(toks) - 1):
        if toks[i].k == "id" and toks[i].v == "fn" and toks[i + 1].k == "id":
            j = i + 2
            depth = 0
            while j < len(toks):
                v = toks[j].v
                if toks[j].k == "op":
                    if v in ("(", "["):
                        depth += 1
                    elif v in (")", "]"):
                        depth -= 1
                    elif v == "{" and depth == 0:
                        res.append((toks[i + 1].v, j, match_close(path, toks, j), toks[i].line))
                        break
                    elif v == ";" and depth == 0:
                        break
                j += 1
    return res


def split_arms(path, toks, i_open, i_close):
    """split the arms of a `match ... { }` whose braces are toks[i_open], toks[i_close].
    returns [(pattern tokens, body tokens)]"""
    arms = []
    i = i_open + 1
    while i < i_close:
        # pattern up to `=>` at depth 0
        depth = 0
        j = i
        while j < i_close:
            t = toks[j]
            if t.k == "op":
                if t.v in OPEN:
                    depth += 1
                elif t.v in CLOSE:
                    depth -= 1
                elif t.v == "=>" and depth == 0:
                    break
            j += 1
        if j >= i_close:
            fail(path, toks[i].line, "match arm without `=>`")
        pat = toks[i:j]
        k = j + 1
        if toks[k].k == "op" and toks[k].v == "{":
            e = match_close(path, toks, k)
            body = toks[k:e + 1]
            k = e + 1
            if k < i_close and toks[k].v == ",":
                k += 1
        else:
            depth = 0
            e = k
            while e < i_close:
                t = toks[e]
                if t.k == "op":
                    if t.v in OPEN:
                        depth += 1
                    elif t.v in CLOSE:
                        depth -= 1
                    elif t.v == "," and depth == 0:
                        break
                e += 1
            body = toks[k:e]
            k = e + 1
        if not pat:
            fail(path, toks[i].line, "empty match pattern")
        arms.append((pat, body))
        i = k
    return arms


def find_seq(toks, seq, start=0, end=None):
    """index of the first occurrence of the token-value sequence, or -1"""
    end = len(toks) if end is None else end
    n = len(seq)
    for i in range(start, end - n + 1):
        if all(toks[i + d].v == seq[d] for d in range(n)):
            return i
    return -1


def unstr(path, t):
    """content of a plain string literal token"""
    if t.k != "str" or t.v.startswith("b"):
        fail(path, t.line, "expected a string literal, got %r" % t.v)
    body = t.v[1:-1]
    if "\\" in body:
        out, i = [], 0
        while i < len(body):
            if body[i] == "\\":
                c = body[i + 1]
                if c in "\\\"'":
                    out.append(c)
                    i += 2
                    continue
                fail(path, t.line, "unsupported escape in string literal %r" % t.v)
            out.append(body[i])
            i += 1
        body = "".join(out)
    return body


def sha(text):
    return hashlib.sha256(text.encode("utf8")).hexdigest()[:20]


# ------------------------------------------------------------------------------------------------ Coq emission
def cstr(s):
    for ch in s:
        if not (32 <= ord(ch) < 127):
            raise TranslateError("name %r contains a character outside printable ASCII" % s)
    return '"' + s.replace('"', '""') + '"'


def clist(items, indent="  ", width=100):
    """pretty list of already-rendered items"""
    if not items:
        return "[]"
    lines, cur = [], indent + " "
    for k, it in enumerate(items):
        piece = it + ("; " if k + 1 < len(items) else "")
        if len(cur) + len(piece) > width and cur.strip():
            lines.append(cur.rstrip())
            cur = indent + " "
        cur += piece
    lines.append(cur.rstrip())
    return "[\n" + "\n".join(lines) + "]"


NS_COQ = {"": "NsNone", "html": "NsHtml", "mathml": "NsMathml", "svg": "NsSvg", "xlink": "NsXlink", "xml": "NsXml",
          "xmlns": "NsXmlns"}


def cns(path, line, ns):
    if ns not in NS_COQ:
        fail(path, line, "unknown namespace %r" % ns)
    return NS_COQ[ns]


def cename(e):
    return "(%s, %s)" % (NS_COQ[e[0]], cstr(e[1]))


def copt(s):
    return "None" if s is None else "(Some %s)" % cstr(s)


HEADER = ("(* GENERATED by gen/gen_treetables.py from %s -- do not edit.\n"
          "   Regenerated on every run; see coq/Inst/InstTreeTables.v for the theorems over these tables. *)\n"
          "From Coq Require Import String List.\nFrom HV Require Import TreeTables.Types.\n"
          "Import ListNotations.\nLocal Open Scope string_scope.\n\n")


def write_if_changed(path, text):
    try:
        if open(path).read() == text:
            return False
    except OSError:
        pass
    os.makedirs(os.path.dirname(path), exist_ok=True)
    tmp = path + ".tmp%d" % os.getpid()
    open(tmp, "w").write(text)
    os.replace(tmp, path)
    return True


# ------------------------------------------------------------------------------------------------ (a) tag sets
# the three macros that give `declare_tag_set!` its meaning; a change of their text is an unknown form
MACRO_FP_EXPECT = {
    "declare_tag_set_impl": "macro_rules ! declare_tag_set_impl ( ( $ param : ident , $ b : ident , $ supr : ident , $ ( $ tag : tt ) + ) "
                            "=> ( match $ param { $ ( expanded_name ! ( html $ tag ) => $ b , ) + p => $ supr ( p ) , } ) ) ;",
    "declare_tag_set_body": "macro_rules ! declare_tag_set_body ( ( $ param : ident = [ $ supr : ident ] - $ ( $ tag : tt ) + ) => "
                            "( declare_tag_set_impl ! ( $ param , false , $ supr , $ ( $ tag ) + ) ) ; "
                            "( $ param : ident = [ $ supr : ident ] + $ ( $ tag : tt ) + ) => "
                            "( declare_tag_set_impl ! ( $ param , true , $ supr , $ ( $ tag ) + ) ) ; "
                            "( $ param : ident = $ ( $ tag : tt ) + ) => "
                            "( declare_tag_set_impl ! ( $ param , true , empty_set , $ ( $ tag ) + ) ) ; ) ;",
    "declare_tag_set": "macro_rules ! declare_tag_set ( ( pub $ name : ident = $ ( $ toks : tt ) + ) => "
                       "( pub ( crate ) fn $ name ( p : crate :: ExpandedName ) -> bool { declare_tag_set_body ! ( p = $ ( $ toks ) + ) } ) ; "
                       "( $ name : ident = $ ( $ toks : tt ) + ) => "
                       "( fn $ name ( p : crate :: ExpandedName ) -> bool { declare_tag_set_body ! ( p = $ ( $ toks ) + ) } ) ; ) ;",
}


def check_macros(toks):
    for name, expect in MACRO_FP_EXPECT.items():
        i = find_seq(toks, ["macro_rules", "!", name])
        if i < 0:
            fail(F_TAGSETS, 0, "macro %s not found" % name)
        j = match_close(F_TAGSETS, toks, i + 3)
        got = norm(toks[i:j + 2])
        if got != expect:
            fail(F_TAGSETS, toks[i].line, "definition of macro %s changed (the meaning of declare_tag_set! is no "
                 "longer the one the translator implements): %s" % (name, got[:200]))


def parse_matches_pred(path, toks, fname):
    """fn f(p: ExpandedName) -> bool { matches!(p, expanded_name!(ns "x") | ...) }  ->  [(ns, local)]"""
    o, c = find_fn(path, toks, fname)
    body = toks[o + 1:c]
    if not (len(body) > 6 and [t.v for t in body[:5]] == ["matches", "!", "(", "p", ","] and body[-1].v == ")"):
        fail(path, toks[o].line, "fn %s: body is not `matches!(p, ...)`: %s" % (fname, norm(body)[:120]))
    inner = body[5:-1]
    res = []
    i = 0
    while i < len(inner):
        if [t.v for t in inner[i:i + 3]] != ["expanded_name", "!", "("] or i + 5 >= len(inner) + 1:
            fail(path, inner[i].line, "fn %s: expected expanded_name!(ns \"local\"), got %s" % (fname, norm(inner[i:i + 6])))
        ns, loc, cl = inner[i + 3], inner[i + 4], inner[i + 5]
        if ns.k != "id" or cl.v != ")":
            fail(path, ns.line, "fn %s: unknown expanded_name! form %s" % (fname, norm(inner[i:i + 6])))
        cns(path, ns.line, ns.v)
        res.append((ns.v, unstr(path, loc)))
        i += 6
        if i < len(inner):
            if inner[i].v != "|":
                fail(path, inner[i].line, "fn %s: expected `|` between alternatives" % fname)
            i += 1
    return res


UNION_FNS = ["default_scope", "special_tag"]


def has_fn(toks, name):
    return find_seq(toks, ["fn", name, "("]) >= 0


def parse_tag_sets():
    """returns (sets: [(coq name, display, [ename], line, file)], preds: {name: [ename]})"""
    src_ts = read(F_TAGSETS)
    toks_ts = lex(F_TAGSETS, src_ts)
    check_macros(toks_ts)
    known = {"empty_set": []}
    known["mathml_text_integration_point"] = parse_matches_pred(F_TAGSETS, toks_ts, "mathml_text_integration_point")
    known["svg_html_integration_point"] = parse_matches_pred(F_TAGSETS, toks_ts, "svg_html_integration_point")
    # fn empty_set
    o, c = find_fn(F_TAGSETS, toks_ts, "empty_set")
    if norm(toks_ts[o:c + 1]) != "{ false }":
        fail(F_TAGSETS, toks_ts[o].line, "fn empty_set is not `{ false }`")
    out = []
    declared_total = 0

    def handle_file(path, toks, scope_of):
        nonlocal declared_total
        i = 0
        found = []
        while i < len(toks) - 2:
            if toks[i].v == "declare_tag_set" and toks[i + 1].v == "!" and toks[i + 2].v == "(":
                if i >= 1 and toks[i - 1].v == "!" and toks[i - 2].v == "macro_rules":
                    i += 1
                    continue
                e = match_close(path, toks, i + 2)
                inner = toks[i + 3:e]
                line = toks[i].line
                if e + 1 >= len(toks) or toks[e + 1].v != ";":
                    fail(path, line, "declare_tag_set!(..) not followed by `;`")
                k = 0
                if inner and inner[0].v == "pub":
                    k = 1
                if len(inner) < k + 3 or inner[k].k != "id" or inner[k + 1].v != "=":
                    fail(path, line, "declare_tag_set!: expected `[pub] name = ...`: %s" % norm(inner)[:100])
                name = inner[k].v
                rest = inner[k + 2:]
                supr, op = None, None
                if rest and rest[0].v == "[":
                    if len(rest) < 5 or rest[1].k != "id" or rest[2].v != "]" or rest[3].v not in ("+", "-"):
                        fail(path, line, "declare_tag_set! %s: unknown super form: %s" % (name, norm(rest)[:100]))
                    supr, op = rest[1].v, rest[3].v
                    rest = rest[4:]
                if not rest:
                    fail(path, line, "declare_tag_set! %s: no tags" % name)
                tags = [unstr(path, t) for t in rest]
                found.append((i, name, supr, op, tags, line))
                declared_total += 1
                i = e
            i += 1
        return found

    # global sets (tag_sets.rs), in source order; default_scope is defined between them
    glob = handle_file(F_TAGSETS, toks_ts, None)

    def resolve(path, line, name, supr, op, tags, local_env):
        if supr is None:
            return [("html", t) for t in tags]
        base = local_env.get(supr)
        if base is None:
            base = known.get(supr)
        if base is None:
            fail(path, line, "declare_tag_set! %s: unknown super set [%s]" % (name, supr))
        if op == "+":
            return list(base) + [("html", t) for t in tags if ("html", t) not in base]
        rm = set(("html", t) for t in tags)
        return [e for e in base if e not in rm]

    # predicates written as fns: a `||` of SET(name) and `name == expanded_name!(NS "local")` terms.
    # default_scope must exist; special_tag is a fn only once the foreign special elements are part of it
    # (before that it is a declare_tag_set!).
    union_fns = {}
    for fname in UNION_FNS:
        if fname != "default_scope" and not has_fn(toks_ts, fname):
            continue
        o, c = find_fn(F_TAGSETS, toks_ts, fname)
        body = norm(toks_ts[o + 1:c])
        parts = []
        for part in body.split(" || "):
            m1 = re.fullmatch(r"(\w+) \( name \)", part.strip())
            m2 = re.fullmatch(r'name == expanded_name ! \( (\w+) "([^"]+)" \)', part.strip())
            if m1:
                parts.append(("set", m1.group(1)))
            elif m2:
                cns(F_TAGSETS, toks_ts[o].line, m2.group(1))
                parts.append(("one", (m2.group(1), m2.group(2))))
            else:
                fail(F_TAGSETS, toks_ts[o].line, "fn %s: body is not a `||` of set predicates: %s" % (fname, body[:160]))
        union_fns[fname] = (parts, toks_ts[o].line)

    def u_ready(fname):
        return all(k != "set" or v in known for k, v in union_fns[fname][0])

    def u_build(fname):
        out_ = []
        for k, v in union_fns[fname][0]:
            for e in (known[v] if k == "set" else [v]):
                if e not in out_:
                    out_.append(e)
        return out_

    def u_settle():
        progress = True
        while progress:
            progress = False
            for fname in union_fns:
                if fname not in known and u_ready(fname):
                    known[fname] = u_build(fname)
                    progress = True

    for (idx, name, supr, op, tags, line) in glob:
        # a fn predicate becomes known as soon as all its parts are
        u_settle()
        if name in known:
            fail(F_TAGSETS, line, "tag set %s declared twice" % name)
        known[name] = resolve(F_TAGSETS, line, name, supr, op, tags, {})
        out.append(("ts_" + name, name, known[name], line, F_TAGSETS))
    u_settle()
    for fname in union_fns:
        if fname not in known:
            fail(F_TAGSETS, union_fns[fname][1], "fn %s refers to an unknown set: %s" % (fname, union_fns[fname][0]))
    known["__union_fns__"] = [f for f in UNION_FNS if f in union_fns]

    # local sets
    for path in (F_MOD, F_RULES):
        src = read(path)
        toks = lex(path, src)
        fns = all_fns(path, toks)
        loc = handle_file(path, toks, None)
        envs = {}
        mode_spans = rules_mode_spans(toks) if path == F_RULES else []
        for (idx, name, supr, op, tags, line) in loc:
            # innermost enclosing fn
            encl = [f for f in fns if f[1] < idx < f[2]]
            if not encl:
                fail(path, line, "declare_tag_set! %s outside of any fn" % name)
            fn = max(encl, key=lambda f: f[1])[0]
            scope = fn
            for (mname, a, b) in mode_spans:
                if a < idx < b and fn == "step":
                    scope = "step_" + mname
            env = envs.setdefault(scope, {})
            if name in env:
                fail(path, line, "local tag set %s declared twice in %s" % (name, scope))
            env[name] = resolve(path, line, name, supr, op, tags, env)
            out.append(("ts_%s__%s" % (scope, name), "%s::%s" % (scope, name), env[name], line, path))
    return out, known, declared_total


def rules_mode_spans(toks):
    """[(mode, i_open, i_close)] token spans of the arms `InsertionMode::X => ...` of `match mode` in fn step"""
    o, c = find_fn(F_RULES, toks, "step")
    i = find_seq(toks, ["match", "mode", "{"], o, c)
    if i < 0:
        fail(F_RULES, toks[o].line, "fn step: `match mode {` not found")
    mo = i + 2
    mc = match_close(F_RULES, toks, mo)
    res = []
    pos = mo + 1
    for pat, body in split_arms(F_RULES, toks, mo, mc):
        pv = [t.v for t in pat]
        if len(pv) != 3 or pv[0] != "InsertionMode" or pv[1] != "::":
            fail(F_RULES, pat[0].line, "fn step: arm of `match mode` is not `InsertionMode::X`: %s" % norm(pat))
        a = toks.index(body[0], pos)
        b = a + len(body) - 1
        res.append((pv[2], a, b))
        pos = b
    return res


def tagset_uses(known_names):
    """per fn of mod.rs (and the helper fns of rules.rs outside step/step_foreign): the ordered list of tag-set
    identifiers and local_name!/expanded_name! literals mentioned (census of uses; no theorem depends on it)"""
    res = []
    for path in (F_MOD,):
        toks = lex(path, read(path))
        fns = all_fns(path, toks)
        for (name, o, c, line) in fns:
            # skip fns nested inside another fn (they are part of the outer skeleton)
            if any(f[1] < o and c < f[2] for f in fns):
                continue
            sk = skeleton(path, toks[o + 1:c], known_names)
            if sk:
                res.append((name, sk))
    return res


def skeleton(path, toks, known_names):
    """ordered list of "s:<tag set>", "n:<local name>", "e:<ns>:<local>", "m:<InsertionMode>" mentions"""
    out = []
    i = 0
    n = len(toks)
    while i < n:
        t = toks[i]
        if t.k == "id":
            if t.v == "local_name" and i + 4 < n and toks[i + 1].v == "!" and toks[i + 2].v == "(" and toks[i + 3].k == "str":
                out.append("n:" + unstr(path, toks[i + 3]))
                i += 4
                continue
            if t.v == "expanded_name" and i + 5 < n and toks[i + 1].v == "!" and toks[i + 2].v == "(":
                a, b = toks[i + 3], toks[i + 4]
                if a.k == "id" and b.k == "str":
                    out.append("e:%s:%s" % (a.v, unstr(path, b)))
                    i += 5
                    continue
                if a.k == "str" and toks[i + 4].v == "," and toks[i + 5].k == "str":
                    out.append("e:%s:%s" % (unstr(path, a), unstr(path, toks[i + 5])))
                    i += 6
                    continue
            if t.v == "ns" and i + 3 < n and toks[i + 1].v == "!" and toks[i + 2].v == "(":
                if toks[i + 3].k == "id":
                    out.append("ns:" + toks[i + 3].v)
                elif toks[i + 3].v == ")":
                    out.append("ns:")
            if t.v == "InsertionMode" and i + 2 < n and toks[i + 1].v == "::":
                out.append("m:" + toks[i + 2].v)
                i += 3
                continue
            if t.v in known_names and not (i > 0 and toks[i - 1].v in ("fn", ".")):
                out.append("s:" + t.v)
        i += 1
    return out


# ------------------------------------------------------------------------------------------------ (b) quirks
QUIRKS_TABLES = ["QUIRKY_PUBLIC_PREFIXES", "QUIRKY_PUBLIC_MATCHES", "QUIRKY_SYSTEM_MATCHES",
                 "LIMITED_QUIRKY_PUBLIC_PREFIXES", "HTML4_PUBLIC_PREFIXES"]
QMODE = {"Quirks": "QQuirks", "LimitedQuirks": "QLimitedQuirks", "NoQuirks": "QNoQuirks"}


def parse_quirks():
    toks = lex(F_DATA, read(F_DATA))
    tables = {}
    i = 0
    while i < len(toks):
        if toks[i].v == "static":
            hdr = [t.v for t in toks[i:i + 12]]
            if len(hdr) < 12 or hdr[2:11] != [":", "&", "[", "&", "str", "]", "=", "&", "["]:
                fail(F_DATA, toks[i].line, "unknown static item form: %s" % " ".join(hdr))
            name = toks[i + 1].v
            o = i + 10
            c = match_close(F_DATA, toks, o)
            items = []
            j = o + 1
            while j < c:
                items.append(unstr(F_DATA, toks[j]))
                j += 1
                if j < c:
                    if toks[j].v != ",":
                        fail(F_DATA, toks[j].line, "static %s: expected `,`" % name)
                    j += 1
            if toks[c + 1].v != ";":
                fail(F_DATA, toks[c].line, "static %s: expected `;`" % name)
            if name in tables:
                fail(F_DATA, toks[i].line, "static %s defined twice" % name)
            for s in items:
                if s != s.lower():
                    fail(F_DATA, toks[i].line, "static %s: entry %r is not lowercase (the function lowercases the ids "
                         "before comparing, so this entry could never match)" % (name, s))
            tables[name] = (items, toks[i].line)
            i = c + 1
        i += 1
    if sorted(tables) != sorted(QUIRKS_TABLES):
        fail(F_DATA, 0, "expected exactly the static tables %s, found %s" % (QUIRKS_TABLES, sorted(tables)))

    o, c = find_fn(F_DATA, toks, "doctype_error_and_quirks")
    fn_toks = toks[o:c + 1]
    # signature idiom
    # -- lowercasing idiom
    body_text = norm(fn_toks)
    for needle in ("let name = opt_tendril_as_slice ( & doctype . name ) ;",
                   "let public = opt_tendril_as_slice ( & doctype . public_id ) ;",
                   "let system = opt_tendril_as_slice ( & doctype . system_id ) ;",
                   "let public = opt_to_ascii_lower ( public ) ;",
                   "let system = opt_to_ascii_lower ( system ) ;",
                   "fn opt_to_ascii_lower ( x : Option < & str > ) -> Option < String > { x . map ( | y | y . to_ascii_lowercase ( ) ) }",
                   "fn contains_pfx ( haystack : & [ & str ] , needle : & str ) -> bool { haystack . iter ( ) . any ( | & x | needle . starts_with ( x ) ) }",
                   "( err , quirk ) }"):
        if needle not in body_text:
            fail(F_DATA, toks[o].line, "doctype_error_and_quirks: expected idiom not found: %s" % needle)
    # -- error-free doctypes
    i = find_seq(toks, ["let", "err", "=", "!", "matches", "!", "("], o, c)
    if i < 0:
        fail(F_DATA, toks[o].line, "doctype_error_and_quirks: `let err = !matches!(` not found")
    mo = i + 6
    mc = match_close(F_DATA, toks, mo)
    inner = toks[mo + 1:mc]
    head = [t.v for t in inner[:8]]
    if head != ["(", "name", ",", "public", ",", "system", ")", ","]:
        fail(F_DATA, toks[i].line, "doctype_error_and_quirks: err is not matches!((name, public, system), ...)")
    alts = []
    j = 8
    while j < len(inner):
        if inner[j].v != "(":
            fail(F_DATA, inner[j].line, "err pattern: expected `(`")
        e = j
        depth = 0
        while True:
            if inner[e].v == "(":
                depth += 1
            elif inner[e].v == ")":
                depth -= 1
                if depth == 0:
                    break
            e += 1
        comps = []
        k = j + 1
        while k < e:
            if inner[k].v == "None":
                comps.append(None)
                k += 1
            elif [t.v for t in inner[k:k + 2]] == ["Some", "("] and inner[k + 2].k == "str" and inner[k + 3].v == ")":
                comps.append(unstr(F_DATA, inner[k + 2]))
                k += 4
            else:
                fail(F_DATA, inner[k].line, "err pattern: unknown component %s" % norm(inner[k:k + 4]))
            if k < e:
                if inner[k].v != ",":
                    fail(F_DATA, inner[k].line, "err pattern: expected `,`")
                k += 1
        if len(comps) != 3:
            fail(F_DATA, inner[j].line, "err pattern: expected a triple")
        alts.append(tuple(comps))
        j = e + 1
        if j < len(inner):
            if inner[j].v != "|":
                fail(F_DATA, inner[j].line, "err pattern: expected `|`")
            j += 1
    # -- decision arms
    i = find_seq(toks, ["let", "quirk", "=", "match", "(", "opt_string_as_slice", "(", "&", "public", ")", ",",
                        "opt_string_as_slice", "(", "&", "system", ")", ")", "{"], o, c)
    if i < 0:
        fail(F_DATA, toks[o].line, "doctype_error_and_quirks: `let quirk = match (public, system) {` not found")
    mo = i + 17
    mc = match_close(F_DATA, toks, mo)
    arms = []
    for pat, body in split_arms(F_DATA, toks, mo, mc):
        p, b = norm(pat), norm(body)
        line = pat[0].line
        cond = None
        if p == "_ if doctype . force_quirks":
            cond = "QcForceQuirks"
        elif p == '_ if name != Some ( "html" )':
            cond = "QcNameNotHtml"
        elif p == "_ if iframe_srcdoc":
            cond = "QcSrcdoc"
        elif p == "_":
            cond = "QcAlways"
        else:
            m = re.fullmatch(r"\( Some \( ref p \) , _ \) if (\w+) \. contains \( p \)", p)
            if m:
                cond = "QcPublicIs %s" % cstr(m.group(1))
            m = re.fullmatch(r"\( _ , Some \( ref s \) \) if (\w+) \. contains \( s \)", p)
            if m:
                cond = "QcSystemIs %s" % cstr(m.group(1))
            m = re.fullmatch(r"\( Some \( p \) , (?:_|s) \) if contains_pfx \( (\w+) , p \)", p)
            if m:
                cond = "QcPublicPrefix %s" % cstr(m.group(1))
            if m is None and cond is None:
                fail(F_DATA, line, "quirks decision: unknown arm pattern: %s" % p)
            tb = re.search(r'"(\w+)"', cond).group(1)
            if tb not in tables:
                fail(F_DATA, line, "quirks decision: unknown table %s" % tb)
        if b in QMODE:
            res = "QrMode %s" % QMODE[b]
        else:
            m = re.fullmatch(r"match s \{ None => (\w+) , Some \( _ \) => (\w+) , \}", b)
            if not m or m.group(1) not in QMODE or m.group(2) not in QMODE or not p.startswith("( Some ( p ) , s )"):
                fail(F_DATA, line, "quirks decision: unknown arm body: %s" % b)
            res = "QrBySystem %s %s" % (QMODE[m.group(1)], QMODE[m.group(2)])
        arms.append((cond, res, line))
    return {"tables": tables, "ok_doctypes": alts, "arms": arms, "fp": sha(body_text)}


# ------------------------------------------------------------------------------------------------ (c)(d)(e)(g) adjust
QUALNAME_MACRO = ('macro_rules ! qualname { ( "" , $ local : tt ) => { QualName { prefix : None , ns : ns ! ( ) , local : '
                  'local_name ! ( $ local ) , } } ; ( $ prefix : tt $ ns : tt $ local : tt ) => { QualName { prefix : Some ( '
                  'namespace_prefix ! ( $ prefix ) ) , ns : ns ! ( $ ns ) , local : local_name ! ( $ local ) , } } ; }')


def parse_adjust():
    toks = lex(F_MOD, read(F_MOD))
    res = {}
    i = find_seq(toks, ["macro_rules", "!", "qualname"])
    if i < 0:
        fail(F_MOD, 0, "macro qualname! not found")
    j = match_close(F_MOD, toks, i + 3)
    if norm(toks[i:j + 1]) != QUALNAME_MACRO:
        fail(F_MOD, toks[i].line, "definition of macro qualname! changed: %s" % norm(toks[i:j + 1])[:200])

    # --- adjust_svg_tag_name
    o, c = find_fn(F_MOD, toks, "adjust_svg_tag_name")
    pre = "let Tag { ref mut name , .. } = * tag ; match * name {"
    if not norm(toks[o + 1:c]).startswith(pre):
        fail(F_MOD, toks[o].line, "adjust_svg_tag_name: unexpected prologue")
    mo = find_seq(toks, ["match", "*", "name", "{"], o, c) + 3
    mc = match_close(F_MOD, toks, mo)
    if mc != c - 1:
        fail(F_MOD, toks[mc].line, "adjust_svg_tag_name: code after the match")
    tagmap = []
    arms = split_arms(F_MOD, toks, mo, mc)
    for k, (pat, body) in enumerate(arms):
        p, b = norm(pat), norm(body)
        if k == len(arms) - 1:
            if (p, b) != ("_", "( )"):
                fail(F_MOD, pat[0].line, "adjust_svg_tag_name: last arm is not `_ => ()`")
            continue
        m1 = re.fullmatch(r'local_name ! \( ("[^"]*") \)', p)
        m2 = re.fullmatch(r'\* name = local_name ! \( ("[^"]*") \)', b)
        if not (m1 and m2):
            fail(F_MOD, pat[0].line, "adjust_svg_tag_name: unknown arm: %s => %s" % (p, b))
        tagmap.append((m1.group(1)[1:-1], m2.group(1)[1:-1], pat[0].line))
    res["svg_tag"] = tagmap

    # --- attribute maps
    def attr_map(fname):
        o, c = find_fn(F_MOD, toks, fname)
        txt = norm(toks[o + 1:c])
        if not (txt.startswith("self . adjust_attributes ( tag , | k | match k {") and txt.endswith("} ) ;")):
            fail(F_MOD, toks[o].line, "%s: body is not `self.adjust_attributes(tag, |k| match k {..});`" % fname)
        mo = find_seq(toks, ["match", "k", "{"], o, c) + 2
        mc = match_close(F_MOD, toks, mo)
        out = []
        arms = split_arms(F_MOD, toks, mo, mc)
        for k, (pat, body) in enumerate(arms):
            p, b = norm(pat), norm(body)
            if k == len(arms) - 1:
                if (p, b) != ("_", "None"):
                    fail(F_MOD, pat[0].line, "%s: last arm is not `_ => None`" % fname)
                continue
            m1 = re.fullmatch(r'local_name ! \( ("[^"]*") \)', p)
            m2 = re.fullmatch(r'Some \( qualname ! \( "" , ("[^"]*") \) \)', b)
            m3 = re.fullmatch(r'Some \( qualname ! \( ("[^"]*") (\w+) ("[^"]*") \) \)', b)
            # the struct literal spelled out, for a name with a namespace but no prefix
            m4 = re.fullmatch(r'Some \( QualName \{ prefix : None , ns : ns ! \( (\w*) \) , local : local_name ! \( ("[^"]*") \) ,? \} \)', b)
            if not m1 or not (m2 or m3 or m4):
                fail(F_MOD, pat[0].line, "%s: unknown arm: %s => %s" % (fname, p, b))
            if m4:
                if m4.group(1):
                    cns(F_MOD, pat[0].line, m4.group(1))
                q = (None, m4.group(1), m4.group(2)[1:-1])
            elif m2:
                q = (None, "", m2.group(1)[1:-1])
            else:
                cns(F_MOD, pat[0].line, m3.group(2))
                q = (m3.group(1)[1:-1], m3.group(2), m3.group(3)[1:-1])
            out.append((m1.group(1)[1:-1], q, pat[0].line))
        return out
    res["svg_attr"] = attr_map("adjust_svg_attributes")
    res["mathml_attr"] = attr_map("adjust_mathml_attributes")
    res["foreign_attr"] = attr_map("adjust_foreign_attributes")
    # adjust_attributes itself: replaces the whole name when the map answers Some
    o, c = find_fn(F_MOD, toks, "adjust_attributes")
    want = ("for & mut Attribute { ref mut name , .. } in & mut tag . attrs { if let Some ( replacement ) = "
            "map ( name . local . clone ( ) ) { * name = replacement ; } }")
    if norm(toks[o + 1:c]) != want:
        fail(F_MOD, toks[o].line, "adjust_attributes: body changed: %s" % norm(toks[o + 1:c])[:200])
    # which adjustments are applied where (enter_foreign / foreign_start_tag)
    for fname in ("enter_foreign", "foreign_start_tag"):
        o, c = find_fn(F_MOD, toks, fname)
        res["fp_" + fname] = sha(norm(toks[o:c + 1]))
    o, c = find_fn(F_MOD, toks, "foreign_start_tag")
    txt = norm(toks[o + 1:c])
    want = ("match current_ns { ns ! ( mathml ) => self . adjust_mathml_attributes ( & mut tag ) , ns ! ( svg ) => { "
            "self . adjust_svg_tag_name ( & mut tag ) ; self . adjust_svg_attributes ( & mut tag ) ; } , _ => ( ) , } "
            "self . adjust_foreign_attributes ( & mut tag ) ;")
    if want not in txt:
        fail(F_MOD, toks[o].line, "foreign_start_tag: the adjustment sequence changed")
    o, c = find_fn(F_MOD, toks, "enter_foreign")
    txt = norm(toks[o + 1:c])
    want = ("match ns { ns ! ( mathml ) => self . adjust_mathml_attributes ( & mut tag ) , ns ! ( svg ) => "
            "self . adjust_svg_attributes ( & mut tag ) , _ => ( ) , } self . adjust_foreign_attributes ( & mut tag ) ;")
    if not txt.startswith(want):
        fail(F_MOD, toks[o].line, "enter_foreign: the adjustment sequence changed")

    # --- tokenizer_state_for_context_elem
    o, c = find_fn(F_MOD, toks, "tokenizer_state_for_context_elem")
    txt = norm(toks[o + 1:c])
    want = ("let name = match elem_name . expanded ( ) { ExpandedName { ns : & ns ! ( html ) , local , } => local , "
            "_ => return tok_state :: Data , } ; match * name {")
    if want not in txt:
        fail(F_MOD, toks[o].line, "tokenizer_state_for_context_elem: namespace test / default changed")
    mo = find_seq(toks, ["match", "*", "name", "{"], o, c) + 3
    mc = match_close(F_MOD, toks, mo)
    if mc != c - 1:
        fail(F_MOD, toks[mc].line, "tokenizer_state_for_context_elem: code after the match")
    TS = {"tok_state :: RawData ( tok_state :: Rcdata )": "TsRcdata",
          "tok_state :: RawData ( tok_state :: Rawtext )": "TsRawtext",
          "tok_state :: RawData ( tok_state :: ScriptData )": "TsScriptData",
          "tok_state :: Plaintext": "TsPlaintext", "tok_state :: Data": "TsData"}
    ctx = []
    default = None
    arms = split_arms(F_MOD, toks, mo, mc)
    for k, (pat, body) in enumerate(arms):
        p, b = norm(pat), norm(body)
        if b in TS:
            r = TS[b]
        else:
            m = re.fullmatch(r"\{ if context_element_allows_scripting \{ (.*?) \} else \{ (.*?) \} \}", b)
            if not m or m.group(1) not in TS or m.group(2) not in TS:
                fail(F_MOD, pat[0].line, "tokenizer_state_for_context_elem: unknown arm body: %s" % b)
            r = "TsIfScripting %s %s" % (TS[m.group(1)], TS[m.group(2)])
        if k == len(arms) - 1:
            if p != "_":
                fail(F_MOD, pat[0].line, "tokenizer_state_for_context_elem: last arm is not `_`")
            default = r
            continue
        names = []
        for alt in p.split(" | "):
            m = re.fullmatch(r'local_name ! \( ("[^"]*") \)', alt)
            if not m:
                fail(F_MOD, pat[0].line, "tokenizer_state_for_context_elem: unknown pattern: %s" % p)
            names.append(m.group(1)[1:-1])
        for nme in names:
            ctx.append((nme, r, pat[0].line))
    res["tokstate"] = ctx
    res["tokstate_default"] = default

    # --- is_foreign name lists
    o, c = find_fn(F_MOD, toks, "is_foreign")
    txt = norm(toks[o:c + 1])
    res["fp_is_foreign"] = sha(txt)
    m = re.search(r"if mathml_text_integration_point \( name \) \{ match \* token \{ Token :: Characters \( \.\. \) \| "
                  r"Token :: NullCharacter => return false , Token :: Tag \( Tag \{ kind : StartTag , ref name , \.\. \} \) "
                  r"if ! matches ! \( \* name , ((?:local_name ! \( \"[^\"]*\" \)(?: \| )?)+) \) => \{ return false ; \} , _ => \( \) , \} \}", txt)
    if not m:
        fail(F_MOD, toks[o].line, "is_foreign: MathML text integration point clause not recognised")
    res["mathml_tip_start_exceptions"] = re.findall(r'"([^"]*)"', m.group(1))
    if ("if svg_html_integration_point ( name ) { match * token { Token :: Characters ( .. ) | Token :: NullCharacter => "
            "return false , Token :: Tag ( Tag { kind : StartTag , .. } ) => return false , _ => ( ) , } }") not in txt:
        fail(F_MOD, toks[o].line, "is_foreign: SVG HTML integration point clause not recognised")
    m = re.search(r'if let expanded_name ! \( (\w+) ("[^"]*") \) = name \{ match \* token \{ Token :: Tag \( Tag \{ kind : '
                  r'StartTag , name : ((?:local_name ! \( "[^"]*" \)(?: \| )?)+) , \.\. \} \) => return false , Token :: Characters \( \.\. \) '
                  r'\| Token :: NullCharacter \| Token :: Tag \( Tag \{ kind : StartTag , \.\. \} \) => \{ return ! self \. sink \. '
                  r'is_mathml_annotation_xml_integration_point \( & self \. adjusted_current_node \( \) \) ; \} , _ => \{ \} , \} ; \}', txt)
    if not m:
        fail(F_MOD, toks[o].line, "is_foreign: annotation-xml clause not recognised")
    cns(F_MOD, toks[o].line, m.group(1))
    res["annotation_xml_elem"] = (m.group(1), m.group(2)[1:-1])
    res["annotation_xml_start_html"] = re.findall(r'"([^"]*)"', m.group(3))
    # --- break-out: where the popping stops
    o, c = find_fn(F_MOD, toks, "unexpected_start_tag_in_foreign_content")
    txt = norm(toks[o + 1:c])
    # optional second stop condition: the current node is an annotation-xml element that is an HTML integration point
    ANN = (r"(?P<ann> && ! \( self \. current_node_in \( \| n \| n == expanded_name ! \( mathml \"annotation-xml\" \) \) && "
           r"self \. sink \. is_mathml_annotation_xml_integration_point \( & self \. current_node \( \) \) \))?")
    m = re.fullmatch(r"self \. unexpected \( & tag \) ; while ! self \. current_node_in \( \| n \| \{ (.*?) \} \)" + ANN +
                     r" \{ self \. pop \( \) ; \} "
                     r"self \. step \( self \. mode \. get \( \) , Token :: Tag \( tag \) \)", txt)
    if not m:
        fail(F_MOD, toks[o].line, "unexpected_start_tag_in_foreign_content: body not recognised: %s" % txt[:200])
    stops = []
    if m.group("ann"):
        stops.append("annotation-xml-with-encoding")
    for part in m.group(1).split(" || "):
        if part == "* n . ns == ns ! ( html )":
            stops.append("ns:html")
        else:
            mm = re.fullmatch(r"(\w+) \( n \)", part)
            if not mm:
                fail(F_MOD, toks[o].line, "unexpected_start_tag_in_foreign_content: unknown stop condition %s" % part)
            stops.append("set:" + mm.group(1))
    res["breakout_stop"] = stops

    # --- reset_insertion_mode
    o, c = find_fn(F_MOD, toks, "reset_insertion_mode")
    txt = norm(toks[o:c + 1])
    res["fp_reset_insertion_mode"] = sha(txt)
    want = ("let name = match elem_name . expanded ( ) { ExpandedName { ns : & ns ! ( html ) , local , } => local , "
            "_ => continue , } ; match * name {")
    if want not in txt or not txt.endswith("} InsertionMode :: InBody }"):
        fail(F_MOD, toks[o].line, "reset_insertion_mode: namespace test / fall-through changed")
    mo = find_seq(toks, ["match", "*", "name", "{"], o, c) + 3
    mc = match_close(F_MOD, toks, mo)
    rarms = []
    arms = split_arms(F_MOD, toks, mo, mc)
    for k, (pat, body) in enumerate(arms):
        p, b = norm(pat), norm(body)
        if k == len(arms) - 1:
            if (p, b) != ("_", "( )"):
                fail(F_MOD, pat[0].line, "reset_insertion_mode: last arm is not `_ => ()`")
            continue
        guard = ""
        if p.endswith(" if ! last"):
            guard = "!last"
            p = p[:-len(" if ! last")]
        names = []
        for alt in p.split(" | "):
            m = re.fullmatch(r'local_name ! \( ("[^"]*") \)', alt)
            if not m:
                fail(F_MOD, pat[0].line, "reset_insertion_mode: unknown pattern: %s" % p)
            names.append(m.group(1)[1:-1])
        m = re.fullmatch(r"(?:\{ )?return InsertionMode :: (\w+)(?: ; \})?", b)
        if m:
            r = m.group(1)
        elif b == "return * self . template_modes . borrow ( ) . last ( ) . unwrap ( )":
            r = "current-template-mode"
        elif re.fullmatch(r"\{ if ! last \{ return InsertionMode :: (\w+) ; \} \}", b):
            if guard:
                fail(F_MOD, pat[0].line, "reset_insertion_mode: double guard")
            guard = "!last"
            r = re.fullmatch(r"\{ if ! last \{ return InsertionMode :: (\w+) ; \} \}", b).group(1)
        else:
            m = re.fullmatch(r"match \* self \. head_elem \. borrow \( \) \{ None => return InsertionMode :: (\w+) , "
                             r"Some \( _ \) => return InsertionMode :: (\w+) , \}", b)
            if not m:
                fail(F_MOD, pat[0].line, "reset_insertion_mode: unknown arm body: %s" % b)
            r = "head-pointer-null?%s:%s" % (m.group(1), m.group(2))
        rarms.append((names, guard, r, pat[0].line))
    res["reset_arms"] = rarms

    # --- annotation-xml integration point flag (markup5ever create_element_with_flags)
    itoks = lex(F_IFACE, read(F_IFACE))
    o, c = find_fn(F_IFACE, itoks, "create_element_with_flags")
    txt = norm(itoks[o + 1:c])
    m = re.search(r'expanded_name ! \( (\w+) ("[^"]*") \) => \{ flags \. mathml_annotation_xml_integration_point = attrs \. iter \( \) '
                  r'\. any \( \| attr \| \{ attr \. name \. expanded \( \) == expanded_name ! \( ("[^"]*") , ("[^"]*") \) && '
                  r'\( ((?:attr \. value \. eq_ignore_ascii_case \( "[^"]*" \)(?: \|\| )?)+) \) \} \) \} ,', txt)
    if not m:
        fail(F_IFACE, itoks[o].line, "create_element_with_flags: annotation-xml clause not recognised")
    if (m.group(1), m.group(2)[1:-1]) != res["annotation_xml_elem"]:
        fail(F_IFACE, itoks[o].line, "create_element_with_flags: flag is set for %s %s, is_foreign tests %s" % (
            m.group(1), m.group(2), res["annotation_xml_elem"]))
    res["annotation_xml_attr"] = (m.group(3)[1:-1], m.group(4)[1:-1])
    res["annotation_xml_encodings"] = re.findall(r'"([^"]*)"', m.group(5))

    # --- serializer lists
    stoks = lex(F_SER, read(F_SER))
    o, c = find_fn(F_SER, stoks, "start_elem")
    txt = norm(stoks[o + 1:c])
    m = re.search(r"let ignore_children = name \. ns == ns ! \( html \) && matches ! \( name \. local , "
                  r"((?:local_name ! \( \"[^\"]*\" \)(?: \| )?)+) \) ;", txt)
    if not m:
        fail(F_SER, stoks[o].line, "start_elem: void element test not recognised")
    res["ser_void"] = re.findall(r'"([^"]*)"', m.group(1))
    o, c = find_fn(F_SER, stoks, "write_text")
    txt = norm(stoks[o + 1:c])
    m = re.match(r"let escape = match self \. parent \( \) \. html_name \{ ((?:Some \( local_name ! \( \"[^\"]*\" \) \)(?: \| )?)+) "
                 r"=> false , Some \( local_name ! \( (\"[^\"]*\") \) \) => ! self \. opts \. scripting_enabled , _ => true , \} ; "
                 r"if escape \{ self \. write_escaped \( text , false \) \} else \{ self \. writer \. write_all \( text \. as_bytes \( \) \) \}$", txt)
    if not m:
        fail(F_SER, stoks[o].line, "write_text: raw-text parent test not recognised: %s" % txt[:200])
    res["ser_rawtext"] = re.findall(r'"([^"]*)"', m.group(1))
    res["ser_rawtext_if_scripting"] = [m.group(2)[1:-1]]
    return res


# ------------------------------------------------------------------------------------------------ (f) dispatch census
SPLIT = {"NotSplit": "SpNotSplit", "Whitespace": "SpWs", "NotWhitespace": "SpNonWs"}


def parse_tag_macro(path, toks):
    """tokens inside tag!( ... )  ->  [atom]"""
    atoms = []
    i = 0
    n = len(toks)
    while i < n:
        if toks[i].v != "<":
            fail(path, toks[i].line, "tag!: expected `<`, got %s" % toks[i].v)
        i += 1
        end = False
        if i < n and toks[i].v == "/":
            end = True
            i += 1
        if i < n and toks[i].v == ">":
            atoms.append("AAnyEnd" if end else "AAnyStart")
            i += 1
        else:
            if i + 1 >= n or toks[i + 1].v != ">":
                fail(path, toks[i - 1].line, "tag!: expected `<name>`: %s" % norm(toks[i - 1:i + 3]))
            t = toks[i]
            if t.k == "str":
                name = unstr(path, t)
            elif t.k in ("id", "num"):
                name = t.v
            else:
                fail(path, t.line, "tag!: unknown tag name token %r" % t.v)
            atoms.append("%s %s" % ("AEnd" if end else "AStart", cstr(name)))
            i += 2
        if i < n:
            if toks[i].v != "|":
                fail(path, toks[i].line, "tag!: expected `|`, got %s" % toks[i].v)
            i += 1
            if i >= n:
                fail(path, toks[i - 1].line, "tag!: trailing `|`")
    if not atoms:
        fail(path, 0, "tag!: empty")
    return atoms


def parse_arm_head(path, pat):
    """pattern tokens of one arm of `match token`  ->  [atom]"""
    line = pat[0].line
    if any(t.v == "if" for t in pat):
        fail(path, line, "arm head with a guard is not a recognised form: %s" % norm(pat)[:160])
    # split at top-level `|`
    alts, cur, depth = [], [], 0
    for t in pat:
        if t.k == "op":
            if t.v in OPEN:
                depth += 1
            elif t.v in CLOSE:
                depth -= 1
            elif t.v == "|" and depth == 0:
                alts.append(cur)
                cur = []
                continue
        cur.append(t)
    alts.append(cur)
    atoms = []
    for alt in alts:
        v = [t.v for t in alt]
        if not v:
            fail(path, line, "empty alternative in arm head")
        if len(v) == 1 and alt[0].k == "id" and v[0] not in ("Token",):
            atoms.append("AWild")          # `token` / `_`
            continue
        if v[:3] != ["Token", "::", v[2]] or len(v) < 3:
            fail(path, line, "unknown arm head: %s" % norm(alt)[:160])
        kind = v[2]
        rest = alt[3:]
        rv = v[3:]
        if kind == "NullCharacter" and not rest:
            atoms.append("ANull")
        elif kind == "Eof" and not rest:
            atoms.append("AEof")
        elif kind == "Comment" and len(rv) == 3 and rv[0] == "(" and rv[2] == ")" and rest[1].k == "id":
            atoms.append("AComment")
        elif kind == "Characters":
            if rv == ["(", "..", ")"]:
                atoms.append("AChars None")
            elif len(rv) == 5 and rv[0] == "(" and rv[2] == "," and rv[4] == ")" and rest[1].k == "id" and rest[3].k == "id":
                atoms.append("AChars None")     # (binder|_, binder|_)
            elif len(rv) == 7 and rv[0] == "(" and rv[1] == "SplitStatus" and rv[2] == "::" and rv[3] in SPLIT and rv[4] == "," \
                    and rest[5].k == "id" and rv[6] == ")":
                atoms.append("AChars (Some %s)" % SPLIT[rv[3]])
            else:
                fail(path, line, "unknown Token::Characters pattern: %s" % norm(alt))
        elif kind == "Tag":
            if not (rv and rv[0] == "(" and rv[-1] == ")"):
                fail(path, line, "unknown Token::Tag pattern: %s" % norm(alt)[:160])
            inner = rest[1:-1]
            iv = [t.v for t in inner]
            if iv and iv[-1] == ",":
                inner, iv = inner[:-1], iv[:-1]
            if len(iv) >= 2 and inner[0].k == "id" and iv[1] == "@":
                inner, iv = inner[2:], iv[2:]
            if not (len(iv) >= 4 and iv[0] == "tag" and iv[1] == "!" and iv[2] == "(" and iv[-1] == ")"):
                fail(path, line, "Token::Tag pattern is not tag!(...): %s" % norm(alt)[:160])
            tg = inner[3:-1]
            if tg and tg[-1].v == ",":
                tg = tg[:-1]
            atoms += parse_tag_macro(path, tg)
        else:
            fail(path, line, "unknown token kind in arm head: %s" % norm(alt)[:160])
    return atoms


TAG_MACRO_FP = None   # filled by check_tag_macro


def check_tag_macro(toks):
    """the tag! macro gives the arm heads their meaning; pin its text"""
    i = find_seq(toks, ["macro_rules", "!", "tag", "{"])
    if i < 0:
        fail(F_RULES, 0, "macro tag! not found")
    j = match_close(F_RULES, toks, i + 3)
    got = norm(toks[i:j + 1])
    want = ("macro_rules ! tag { ( < > ) => { crate :: tokenizer :: Tag { kind : crate :: tokenizer :: StartTag , .. } } ; "
            "( < > | $ ( $ tail : tt ) * ) => { tag ! ( < > ) | tag ! ( $ ( $ tail ) * ) } ; "
            "( < / > ) => { crate :: tokenizer :: Tag { kind : crate :: tokenizer :: EndTag , .. } } ; "
            "( < / > | $ ( $ tail : tt ) * ) => { tag ! ( < / > ) | tag ! ( $ ( $ tail ) * ) } ; "
            "( < $ tag : tt > ) => { crate :: tokenizer :: Tag { kind : crate :: tokenizer :: StartTag , name : local_name ! ( $ tag ) , .. } } ; "
            "( < $ tag : tt > | $ ( $ tail : tt ) * ) => { tag ! ( < $ tag > ) | tag ! ( $ ( $ tail ) * ) } ; "
            "( < / $ tag : tt > ) => { crate :: tokenizer :: Tag { kind : crate :: tokenizer :: EndTag , name : local_name ! ( $ tag ) , .. } } ; "
            "( < / $ tag : tt > | $ ( $ tail : tt ) * ) => { tag ! ( < / $ tag > ) | tag ! ( $ ( $ tail ) * ) } ; }")
    if got != want:
        fail(F_RULES, toks[i].line, "definition of macro tag! changed: %s" % got[:300])


def parse_token_match(path, toks, a, b, what):
    """toks[a..b] is the body expression of a mode arm: `match token {..}` or
    `{ let anything_else = |token: Token| {..}; match token {..} }`; returns (i_open, i_close) of the match braces"""
    if toks[a].v == "{":
        i = a + 1
        if [t.v for t in toks[i:i + 10]] == ["let", "anything_else", "=", "|", "token", ":", "Token", "|", "{", toks[i + 9].v]:
            e = match_close(path, toks, i + 8)
            if toks[e + 1].v != ";":
                fail(path, toks[e].line, "%s: `let anything_else` closure not followed by `;`" % what)
            i = e + 2
        if [t.v for t in toks[i:i + 3]] != ["match", "token", "{"]:
            fail(path, toks[i].line, "%s: expected `match token {`, got %s" % (what, norm(toks[i:i + 6])))
        mo = i + 2
        mc = match_close(path, toks, mo)
        if mc + 1 != b:
            fail(path, toks[mc].line, "%s: code after `match token {..}`" % what)
        return mo, mc
    if [t.v for t in toks[a:a + 3]] != ["match", "token", "{"]:
        fail(path, toks[a].line, "%s: expected `match token {`, got %s" % (what, norm(toks[a:a + 6])))
    mo = a + 2
    mc = match_close(path, toks, mo)
    if mc != b:
        fail(path, toks[mc].line, "%s: code after `match token {..}`" % what)
    return mo, mc


def parse_dispatch(known_names):
    toks = lex(F_RULES, read(F_RULES))
    check_tag_macro(toks)
    # enum InsertionMode
    ttoks = lex(F_TYPES, read(F_TYPES))
    i = find_seq(ttoks, ["enum", "InsertionMode", "{"])
    if i < 0:
        fail(F_TYPES, 0, "enum InsertionMode not found")
    e = match_close(F_TYPES, ttoks, i + 2)
    variants = []
    j = i + 3
    while j < e:
        if ttoks[j].k != "id" or (ttoks[j + 1].v != "," and j + 1 != e):
            fail(F_TYPES, ttoks[j].line, "enum InsertionMode: unknown variant form %s" % norm(ttoks[j:j + 3]))
        variants.append(ttoks[j].v)
        j += 2
    modes = []
    spans = rules_mode_spans(toks)
    if [m for m, _, _ in spans] != variants:
        if sorted(m for m, _, _ in spans) != sorted(variants):
            fail(F_RULES, toks[spans[0][1]].line, "fn step: the arms of `match mode` %s are not the variants of InsertionMode %s" % (
                [m for m, _, _ in spans], variants))

    def arms_of(mo, mc, what):
        arms = []
        for pat, body in split_arms(F_RULES, toks, mo, mc):
            atoms = parse_arm_head(F_RULES, pat)
            btxt = norm(body)
            is_split = btxt in ("{ ProcessResult :: SplitWhitespace ( text ) }", "ProcessResult :: SplitWhitespace ( text )")
            arms.append({"atoms": atoms, "line": pat[0].line, "split": is_split, "fp": sha(btxt),
                         "skel": skeleton(F_RULES, body, known_names), "head": norm(pat)})
        if not arms:
            fail(F_RULES, toks[mo].line, "%s: no arms" % what)
        return arms

    for (mname, a, b) in spans:
        mo, mc = parse_token_match(F_RULES, toks, a, b, "mode " + mname)
        pre = ""
        if toks[a].v == "{":
            pre = sha(norm(toks[a + 1:mo - 2]))
        modes.append((mname, arms_of(mo, mc, "mode " + mname), pre))
    # step_foreign
    o, c = find_fn(F_RULES, toks, "step_foreign")
    mo, mc = parse_token_match(F_RULES, toks, o + 1, c - 1, "step_foreign")
    farms = arms_of(mo, mc, "step_foreign")
    modes.append(("Foreign", farms, ""))
    return variants, modes, toks


def norm_eq(arm, text):
    return arm["fp"] == sha(text)


def parse_foreign_extras(modes, toks):
    farms = [m for m in modes if m[0] == "Foreign"][0][1]
    bo = [x for x in farms if norm_eq(x, "self . unexpected_start_tag_in_foreign_content ( tag )")]
    if len(bo) != 1:
        fail(F_RULES, farms[0]["line"], "step_foreign: expected exactly one arm whose body is the break-out call, found %d" % len(bo))
    starts, ends = [], []
    for a in bo[0]["atoms"]:
        m = re.fullmatch(r'(AStart|AEnd) "(.*)"', a)
        if not m:
            fail(F_RULES, bo[0]["line"], "step_foreign: break-out arm contains a non-name alternative %s" % a)
        (starts if m.group(1) == "AStart" else ends).append(m.group(2))
    # the <font> arm
    o, c = find_fn(F_RULES, toks, "step_foreign")
    txt = norm(toks[o + 1:c])
    m = re.search(r"Token :: Tag \( tag @ tag ! \( < font > \) \) => \{ let unexpected = tag \. attrs \. iter \( \) \. any \( \| attr \| \{ "
                  r"matches ! \( attr \. name \. expanded \( \) , ((?:expanded_name ! \( \"[^\"]*\" , \"[^\"]*\" \)(?: \| )?)+) \) \} \) ; "
                  r"if unexpected \{ self \. unexpected_start_tag_in_foreign_content \( tag \) \} else \{ self \. foreign_start_tag \( tag \) \} \}", txt)
    if not m:
        fail(F_RULES, toks[o].line, "step_foreign: the <font> arm is not recognised")
    font = re.findall(r'expanded_name ! \( "([^"]*)" , "([^"]*)" \)', m.group(1))
    return starts, ends, font


def parse_pretoken():
    """process_token: which insertion modes process a DOCTYPE token (all others: parse error, ignore)"""
    toks = lex(F_MOD, read(F_MOD))
    o, c = find_fn(F_MOD, toks, "process_token")
    i = find_seq(toks, ["let", "token", "=", "match", "token", "{"], o, c)
    if i < 0:
        fail(F_MOD, toks[o].line, "process_token: `let token = match token {` not found")
    mo = i + 5
    mc = match_close(F_MOD, toks, mo)
    heads = []
    dmodes = None
    for pat, body in split_arms(F_MOD, toks, mo, mc):
        p = norm(pat)
        heads.append(p)
        if p == "tokenizer :: DoctypeToken ( dt )":
            b = norm(body)
            m = re.match(r"\{ if self \. mode \. get \( \) == InsertionMode :: (\w+) \{ let \( err , quirk \) = data :: "
                         r"doctype_error_and_quirks \( & dt , self \. opts \. iframe_srcdoc \) ;", b)
            if not m or not b.endswith("return tokenizer :: TokenSinkResult :: Continue ; } }") or " else { self . sink . parse_error (" not in b:
                fail(F_MOD, pat[0].line, "process_token: DOCTYPE arm not recognised")
            dmodes = [m.group(1)]
    want = ["tokenizer :: ParseError ( e )", "tokenizer :: DoctypeToken ( dt )", "tokenizer :: TagToken ( x )",
            "tokenizer :: CommentToken ( x )", "tokenizer :: NullCharacterToken", "tokenizer :: EOFToken",
            "tokenizer :: CharacterTokens ( mut x )"]
    if heads != want or dmodes is None:
        fail(F_MOD, toks[mo].line, "process_token: arms changed: %s" % heads)
    return dmodes, sha(norm(toks[o:c + 1]))


# ------------------------------------------------------------------------------------------------ emission
def emit_tagsets(sets, known, uses):
    src = "%s + local sets of %s, %s" % (F_TAGSETS, F_MOD, F_RULES)
    out = [HEADER % src]
    for (cname, disp, elems, line, path) in sets:
        out.append("(* %s  (%s) *)\nDefinition %s : list ename := %s.\n\n" % (
            disp, path, cname, clist([cename(e) for e in elems])))
    fn_preds = ["mathml_text_integration_point", "svg_html_integration_point"] + known["__union_fns__"]
    for p in fn_preds:
        out.append("(* fn %s  (%s) *)\nDefinition ts_%s : list ename := %s.\n\n" % (
            p, F_TAGSETS, p, clist([cename(e) for e in known[p]])))
    out.append("Definition tag_sets : list (string * list ename) := %s.\n\n" % clist(
        ["(%s, %s)" % (cstr(s[0]), s[0]) for s in sets] +
        ["(%s, ts_%s)" % (cstr("ts_" + p), p) for p in fn_preds]))
    out.append("(* census of uses: per fn of tree_builder/mod.rs the ordered mentions of tag sets (s:), local names (n:),\n"
               "   expanded names (e:ns:local), namespaces (ns:) and insertion modes (m:); no theorem depends on it *)\n")
    out.append("Definition tagset_uses : list (string * list string) := %s.\n" % clist(
        ["(%s, %s)" % (cstr(f), clist([cstr(x) for x in sk], "    ")) for f, sk in uses]))
    return "".join(out)


def emit_quirks(q):
    out = [HEADER % F_DATA]
    for name in QUIRKS_TABLES:
        items, line = q["tables"][name]
        out.append("(* static %s  (%s) *)\nDefinition %s : list string := %s.\n\n" % (
            name, F_DATA, name.lower(), clist([cstr(s) for s in items])))
    out.append("Definition quirks_tables : list (string * list string) := %s.\n\n" % clist(
        ["(%s, %s)" % (cstr(n), n.lower()) for n in QUIRKS_TABLES]))
    out.append("(* the arms of `let quirk = match (public, system) {..}` in order; both ids are ASCII-lowercased before *)\n")
    out.append("Definition quirks_arms : list (qcond * qres) := %s.\n\n" % clist(["(%s, %s)" % (c, r) for c, r, _ in q["arms"]]))
    out.append("(* (name, public id, system id) triples for which no parse error is reported (`let err = !matches!(..)`) *)\n")
    out.append("Definition doctype_ok_triples : list (option string * option string * option string) := %s.\n\n" % clist(
        ["(%s, %s, %s)" % (copt(a), copt(b), copt(c)) for a, b, c in q["ok_doctypes"]]))
    out.append("(* sha256 prefix of the normalised token stream of fn doctype_error_and_quirks *)\n")
    out.append("Definition quirks_fn_fingerprint : string := %s.\n" % cstr(q["fp"]))
    return "".join(out)


def cq(q):
    return "(%s, %s, %s)" % (copt(q[0]), NS_COQ[q[1]], cstr(q[2]))


def emit_adjust(a, starts, ends, font):
    out = [HEADER % ("%s, %s, %s, %s" % (F_MOD, F_RULES, F_SER, F_IFACE))]
    out.append("(* fn adjust_svg_tag_name *)\nDefinition svg_tag_adjust : list (string * string) := %s.\n\n" % clist(
        ["(%s, %s)" % (cstr(x), cstr(y)) for x, y, _ in a["svg_tag"]]))
    for key, nm in (("svg_attr", "svg_attr_adjust"), ("mathml_attr", "mathml_attr_adjust"), ("foreign_attr", "foreign_attr_adjust")):
        out.append("(* fn adjust_%sibutes: attribute local name -> (prefix, namespace, local name) *)\n" % key)
        out.append("Definition %s : list (string * qname) := %s.\n\n" % (nm, clist(["(%s, %s)" % (cstr(x), cq(q)) for x, q, _ in a[key]])))
    out.append("(* fn tokenizer_state_for_context_elem: context element must be in the HTML namespace; default below *)\n")
    out.append("Definition tokstate_for_context : list (string * tsel) := %s.\n" % clist(
        ["(%s, %s)" % (cstr(x), r if " " not in r else "(%s)" % r) for x, r, _ in a["tokstate"]]))
    out.append("Definition tokstate_default : tsel := %s.\nDefinition tokstate_context_ns : ns := NsHtml.\n\n" % a["tokstate_default"])
    out.append("(* fn step_foreign: the arm that breaks out of foreign content; the <font> attribute test *)\n")
    out.append("Definition foreign_breakout_start : list string := %s.\n" % clist([cstr(x) for x in starts]))
    out.append("Definition foreign_breakout_end : list string := %s.\n" % clist([cstr(x) for x in ends]))
    out.append("Definition foreign_font_attrs : list ename := %s.\n" % clist([cename(e) for e in font]))
    out.append("(* fn unexpected_start_tag_in_foreign_content pops until the current node satisfies one of: *)\n")
    out.append("Definition foreign_breakout_stop : list string := %s.\n\n" % clist([cstr(x) for x in a["breakout_stop"]]))
    out.append("(* fn is_foreign *)\n")
    out.append("Definition is_foreign_mathml_tip_start_exceptions : list string := %s.\n" % clist([cstr(x) for x in a["mathml_tip_start_exceptions"]]))
    out.append("Definition is_foreign_annotation_xml_elem : ename := %s.\n" % cename(a["annotation_xml_elem"]))
    out.append("Definition is_foreign_annotation_xml_start_html : list string := %s.\n" % clist([cstr(x) for x in a["annotation_xml_start_html"]]))
    out.append("Definition is_foreign_fingerprint : string := %s.\n\n" % cstr(a["fp_is_foreign"]))
    out.append("(* markup5ever create_element_with_flags: annotation-xml is an HTML integration point when it has the attribute\n"
               "   below with a value that is an ASCII case-insensitive match for one of the strings *)\n")
    out.append("Definition annotation_xml_attr : ename := %s.\n" % cename(a["annotation_xml_attr"]))
    out.append("Definition annotation_xml_encodings : list string := %s.\n\n" % clist([cstr(x) for x in a["annotation_xml_encodings"]]))
    out.append("(* fn reset_insertion_mode: (names of HTML elements, guard, result) in order; other namespaces are skipped,\n"
               "   the fall-through result is InBody *)\n")
    out.append("Definition reset_mode_arms : list (list string * string * string) := %s.\n" % clist(
        ["(%s, %s, %s)" % (clist([cstr(x) for x in ns_], "    "), cstr(g), cstr(r)) for ns_, g, r, _ in a["reset_arms"]]))
    out.append("Definition reset_mode_fingerprint : string := %s.\n\n" % cstr(a["fp_reset_insertion_mode"]))
    out.append("(* serialize/mod.rs: HTML elements whose children and end tag are not written; parents whose text is written raw *)\n")
    out.append("Definition ser_void_elements : list string := %s.\n" % clist([cstr(x) for x in a["ser_void"]]))
    out.append("Definition ser_rawtext_parents : list string := %s.\n" % clist([cstr(x) for x in a["ser_rawtext"]]))
    out.append("Definition ser_rawtext_parents_if_scripting : list string := %s.\n\n" % clist([cstr(x) for x in a["ser_rawtext_if_scripting"]]))
    out.append("Definition enter_foreign_fingerprint : string := %s.\nDefinition foreign_start_tag_fingerprint : string := %s.\n" % (
        cstr(a["fp_enter_foreign"]), cstr(a["fp_foreign_start_tag"])))
    return "".join(out)


def emit_dispatch(variants, modes, dmodes, pfp):
    out = [HEADER % ("%s (fn step, fn step_foreign), %s (enum InsertionMode), %s (fn process_token)" % (F_RULES, F_TYPES, F_MOD))]
    out.append("Definition insertion_modes : list string := %s.\n\n" % clist([cstr(v) for v in variants]))
    for mname, arms, pre in modes:
        out.append("Definition arms_%s : list arm := [\n" % mname)
        for k, a in enumerate(arms):
            out.append("  (* %2d *) %s%s\n" % (k, clist(a["atoms"], "      ").replace("[\n       ", "[", 1), ";" if k + 1 < len(arms) else ""))
        out.append("].\n\n")
    out.append("Definition dispatch : list (string * list arm) := %s.\n\n" % clist(
        ["(%s, arms_%s)" % (cstr(m), m) for m, _, _ in modes]))
    out.append("(* arms whose body is exactly `ProcessResult::SplitWhitespace(text)` *)\n")
    out.append("Definition split_arms : list (string * list nat) := %s.\n\n" % clist(
        ["(%s, %s)" % (cstr(m), clist([str(k) for k, a in enumerate(arms) if a["split"]], "    ")) for m, arms, _ in modes]))
    out.append("(* insertion modes in which process_token hands a DOCTYPE token to doctype_error_and_quirks;\n"
               "   in every other mode it is a parse error and the token is dropped *)\n")
    out.append("Definition doctype_processed_in : list string := %s.\n" % clist([cstr(x) for x in dmodes]))
    out.append("Definition process_token_fingerprint : string := %s.\n\n" % cstr(pfp))
    out.append("(* per arm: fingerprint of the body and its skeleton of names (n:), tag sets (s:), modes (m:);\n"
               "   change detector for the hand-modelled arm bodies, no theorem depends on it *)\n")
    out.append("Definition arm_body_fingerprints : list (string * list string) := %s.\n\n" % clist(
        ["(%s, %s)" % (cstr(m), clist([cstr(a["fp"]) for a in arms], "    ")) for m, arms, _ in modes]))
    out.append("Definition arm_body_skeletons : list (string * list (list string)) := %s.\n" % clist(
        ["(%s, %s)" % (cstr(m), clist([clist([cstr(x) for x in a["skel"]], "      ") for a in arms], "    ")) for m, arms, _ in modes]))
    return "".join(out)


def main():
    sets, known, ndecl = parse_tag_sets()
    known_names = set(known) | set(s[1].split("::")[-1] for s in sets)
    uses = tagset_uses(known_names)
    q = parse_quirks()
    a = parse_adjust()
    variants, modes, rtoks = parse_dispatch(known_names)
    starts, ends, font = parse_foreign_extras(modes, rtoks)
    dmodes, pfp = parse_pretoken()
    gen = os.path.join(ROOT, "coq", "Gen")
    ch = {}
    ch["GenTagSets.v"] = write_if_changed(os.path.join(gen, "GenTagSets.v"), emit_tagsets(sets, known, uses))
    ch["GenQuirks.v"] = write_if_changed(os.path.join(gen, "GenQuirks.v"), emit_quirks(q))
    ch["GenAdjust.v"] = write_if_changed(os.path.join(gen, "GenAdjust.v"), emit_adjust(a, starts, ends, font))
    ch["GenDispatch.v"] = write_if_changed(os.path.join(gen, "GenDispatch.v"), emit_dispatch(variants, modes, dmodes, pfp))
    os.makedirs(os.path.join(ROOT, "build"), exist_ok=True)
    side = {
        "tag_sets": [{"coq": s[0], "name": s[1], "elems": s[2], "line": s[3], "file": s[4]} for s in sets],
        "quirks_tables": {k: {"n": len(v[0]), "line": v[1]} for k, v in q["tables"].items()},
        "quirks_arms": [{"cond": c, "res": r, "line": l} for c, r, l in q["arms"]],
        "dispatch": {m: [{"idx": k, "line": x["line"], "head": x["head"], "atoms": x["atoms"]} for k, x in enumerate(arms)]
                     for m, arms, _ in modes},
        "svg_tag": a["svg_tag"], "svg_attr": a["svg_attr"], "foreign_attr": a["foreign_attr"],
    }
    write_if_changed(os.path.join(ROOT, "build", "treetables.json"), json.dumps(side, indent=1, sort_keys=True))
    narms = sum(len(arms) for _, arms, _ in modes)
    ntags = sum(sum(1 for at in x["atoms"] if at.startswith(("AStart", "AEnd"))) for _, arms, _ in modes for x in arms)
    print(json.dumps({"tag_sets": len(sets), "declare_tag_set": ndecl, "quirks_prefixes": len(q["tables"]["QUIRKY_PUBLIC_PREFIXES"][0]),
                      "quirks_arms": len(q["arms"]), "svg_tags": len(a["svg_tag"]), "svg_attrs": len(a["svg_attr"]),
                      "foreign_attrs": len(a["foreign_attr"]), "modes": len(modes), "arms": narms, "named_tags": ntags,
                      "changed": [k for k, v in ch.items() if v]}))


if __name__ == "__main__":
    try:
        main()
    except TranslateError as e:
        print("TRANSLATE-ERROR: %s" % e)
        sys.exit(3)
