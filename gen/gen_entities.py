#!/usr/bin/env python3
"""gen/gen_entities.py - regenerate coq/Gen/GenEntities.v and coq/Gen/GenC1.v from /repo.

GenEntities.v : `entities : list (list N * (N * N))` - the COMPILED phf map
                web_atoms::NAMED_ENTITIES (dumped by harness bin `dump_entities`, so
                build.rs's prefix-closure step and phf are covered), names as code
                point lists, sorted by name.
GenC1.v       : `c1_replacements : list (option N)` - web_atoms::C1_REPLACEMENTS as
                compiled (same dump), and `finish_numeric_arms` - the ordered arms of
                `match self.num { ... }` in html5ever/src/tokenizer/char_ref/mod.rs
                `finish_numeric`, parsed from the source text by the small fail-closed
                parser below (anything outside the recognised arm forms aborts).

Files are rewritten only when their content changes.  Exit status 0 = ok,
2 = the source could not be translated (broken tie), 3 = build/dump failed.
"""
import os
import re
import subprocess
import sys

ROOT = os.path.dirname(os.path.dirname(os.path.abspath(__file__)))
sys.path.insert(0, os.path.join(ROOT, "lib"))
REPO = os.environ.get("VERIF_REPO", "/repo")
TARGET = os.path.join(ROOT, "build", "target")
GEN = os.path.join(ROOT, "coq", "Gen")
CHARREF_RS = os.path.join(REPO, "html5ever", "src", "tokenizer", "char_ref", "mod.rs")


class TranslateError(Exception):
    pass


def write_if_changed(path, text):
    try:
        if open(path).read() == text:
            return False
    except OSError:
        pass
    os.makedirs(os.path.dirname(path), exist_ok=True)
    tmp = path + ".tmp%d" % os.getpid()
    with open(tmp, "w") as f:
        f.write(text)
    os.replace(tmp, path)
    return True


# ---------------------------------------------------------------- dump of the compiled tables
def run_dump():
    os.makedirs(os.path.join(ROOT, "build"), exist_ok=True)
    env = dict(os.environ)
    env.update({"CARGO_NET_OFFLINE": "true", "CARGO_TARGET_DIR": TARGET})
    lock = os.path.join(ROOT, "build", ".cargo.lock")
    p = subprocess.run(["flock", lock, "cargo", "build", "--release", "--offline", "--bin", "dump_entities"],
                       cwd=os.path.join(ROOT, "harness"), env=env, stdout=subprocess.PIPE,
                       stderr=subprocess.STDOUT, text=True, timeout=1500)
    if p.returncode != 0:
        sys.stderr.write(p.stdout[-3000:])
        raise SystemExit(3)
    p = subprocess.run([os.path.join(TARGET, "release", "dump_entities")], stdout=subprocess.PIPE,
                       stderr=subprocess.PIPE, text=True, timeout=300)
    if p.returncode != 0:
        sys.stderr.write(p.stderr[-3000:])
        raise SystemExit(3)
    return p.stdout


def parse_dump(text):
    ents, c1 = [], {}
    n_decl = l_decl = None
    for line in text.splitlines():
        w = line.split()
        if not w:
            continue
        if w[0] == "N":
            n_decl = int(w[1])
        elif w[0] == "L":
            l_decl = int(w[1])
        elif w[0] == "E":
            bar = w.index("|")
            name = [int(x) for x in w[1:bar]]
            c = [int(x) for x in w[bar + 1:]]
            if len(c) != 2:
                raise TranslateError("bad entity row: " + line)
            ents.append((name, c[0], c[1]))
        elif w[0] == "C":
            c1[int(w[1])] = None if w[2] == "-" else int(w[2])
        else:
            raise TranslateError("unknown dump line: " + line)
    if n_decl != len(ents):
        raise TranslateError("dump declares %s entries, %d rows seen" % (n_decl, len(ents)))
    if l_decl != len(c1) or sorted(c1) != list(range(len(c1))):
        raise TranslateError("C1 table rows inconsistent")
    return ents, [c1[i] for i in range(len(c1))]


# ---------------------------------------------------------------- finish_numeric arms
NUM = r"(0[xX][0-9A-Fa-f_]+|[0-9][0-9_]*)"


def num(s):
    s = s.replace("_", "")
    return int(s, 16) if s.lower().startswith("0x") else int(s)


def strip_comments(src):
    out = []
    for line in src.splitlines():
        # char_ref/mod.rs has no string literal containing "//" inside the block we read
        i = line.find("//")
        out.append(line if i < 0 else line[:i])
    return "\n".join(out)


def matching_brace(s, i):
    """s[i] == '{' ; index of the matching '}' (the block has no braces in literals except '\\u{..}')"""
    depth = 0
    j = i
    while j < len(s):
        c = s[j]
        if c == "'" and s.startswith("'\\u{", j):
            j = s.index("}'", j) + 2
            continue
        if c == "{":
            depth += 1
        elif c == "}":
            depth -= 1
            if depth == 0:
                return j
        j += 1
    raise TranslateError("unbalanced braces in finish_numeric")


def split_arms(body):
    """split `PAT => RES, PAT => RES { .. }, ...` at top-level commas"""
    arms, depth, cur, j = [], 0, "", 0
    while j < len(body):
        c = body[j]
        if c == "'" and body.startswith("'\\u{", j):
            k = body.index("}'", j) + 2
            cur += body[j:k]
            j = k
            continue
        if c in "{([":
            depth += 1
        elif c in "})]":
            depth -= 1
        if c == "," and depth == 0:
            if cur.strip():
                arms.append(cur.strip())
            cur = ""
        else:
            cur += c
        j += 1
    if cur.strip():
        arms.append(cur.strip())
    return arms


def parse_char(s):
    m = re.fullmatch(r"'\\u\{([0-9a-fA-F]+)\}'", s.strip())
    if not m:
        raise TranslateError("unrecognised char literal %r" % s)
    return int(m.group(1), 16)


def parse_bool(s):
    s = s.strip()
    if s not in ("true", "false"):
        raise TranslateError("unrecognised bool %r" % s)
    return s


def parse_pat(p, scrut):
    p = " ".join(p.split())
    m = re.fullmatch(r"n if \(n > %s\) \|\| self\.num_too_big" % NUM, p)
    if m:
        return "PTooBig %d" % num(m.group(1))
    m = re.fullmatch(r"n if \(n & %s\) == %s" % (NUM, NUM), p)
    if m:
        return "PMask %d %d" % (num(m.group(1)), num(m.group(2)))
    if p == "n":
        return "PAny"
    rs = []
    for alt in p.split("|"):
        alt = alt.strip()
        m = re.fullmatch(r"%s\s*\.\.=\s*%s" % (NUM, NUM), alt)
        if m:
            rs.append((num(m.group(1)), num(m.group(2))))
            continue
        m = re.fullmatch(NUM, alt)
        if m:
            rs.append((num(m.group(1)), num(m.group(1))))
            continue
        raise TranslateError("unrecognised pattern %r in finish_numeric" % p)
    return "PRanges [%s]" % "; ".join("(%d, %d)" % r for r in rs)


def parse_res(r):
    r = " ".join(r.split())
    m = re.fullmatch(r"\((.+), (true|false)\)", r)
    if m:
        e = m.group(1).strip()
        if e in ("conv(n)", "conv(self.num)"):
            return "RConv %s" % m.group(2)
        return "RChar %d %s" % (parse_char(e), m.group(2))
    m = re.fullmatch(r"match data::C1_REPLACEMENTS\[\(self\.num - %s\) as usize\] \{(.*)\}" % NUM, r)
    if m:
        base = num(m.group(1))
        inner = split_arms(m.group(2))
        if len(inner) != 2:
            raise TranslateError("C1 arm: expected Some/None arms")
        ms = re.fullmatch(r"Some\(c\) => \(c, (true|false)\)", " ".join(inner[0].split()))
        mn = re.fullmatch(r"None => \(conv\(self\.num\), (true|false)\)", " ".join(inner[1].split()))
        if not ms or not mn:
            raise TranslateError("C1 arm: unrecognised inner arms %r" % inner)
        return "RC1 %d %s %s" % (base, ms.group(1), mn.group(1))
    raise TranslateError("unrecognised arm result %r in finish_numeric" % r)


def parse_finish_numeric(src):
    src = strip_comments(src)
    i = src.find("fn finish_numeric")
    if i < 0:
        raise TranslateError("fn finish_numeric not found")
    j = src.find("fn ", i + 10)
    # the nested `fn conv` comes first; skip it and check it is the expected one
    conv = re.search(r"fn conv\(n: u32\) -> char \{\s*from_u32\(n\)\.expect\(\"[^\"]*\"\)\s*\}", src[i:])
    if not conv:
        raise TranslateError("nested fn conv has an unexpected shape")
    head = "let (c, error) = match self.num {"
    k = src.find(head, i)
    if k < 0:
        raise TranslateError("`%s` not found in finish_numeric" % head)
    ob = k + len(head) - 1
    cb = matching_brace(src, ob)
    if not src[cb:cb + 2] == "};":
        raise TranslateError("match block does not end with `};`")
    # what follows must deliver `c` unchanged:  ...; self.finish_one(c) }
    tail = src[cb + 2:]
    endfn = tail.find("\n    }\n")
    tail = " ".join(tail[:endfn].split())
    if not re.fullmatch(r"if error \{.*tokenizer\.emit_error\(msg\); \} self\.finish_one\(c\)", tail):
        raise TranslateError("unexpected code after the match in finish_numeric: %r" % tail[:200])
    arms = []
    for a in split_arms(src[ob + 1:cb]):
        if "=>" not in a:
            raise TranslateError("arm without => : %r" % a)
        p, r = a.split("=>", 1)
        arms.append("(%s, %s)" % (parse_pat(p, "self.num"), parse_res(r)))
    if not arms:
        raise TranslateError("no arms")
    return arms


# ---------------------------------------------------------------- output
HEADER = "(* GENERATED by gen/gen_entities.py from /repo - do not edit. *)\n"


def coq_entities(ents):
    rows = ["  ([%s], (%d, %d))" % ("; ".join(map(str, n)), a, b) for n, a, b in ents]
    return (HEADER +
            "(* web_atoms::NAMED_ENTITIES as compiled (phf map incl. the prefix entries of build.rs), %d keys *)\n"
            "From Coq Require Import List NArith.\nImport ListNotations.\nOpen Scope N_scope.\n\n"
            "Definition entities : list (list N * (N * N)) := [\n%s\n].\n" % (len(ents), ";\n".join(rows)))


def coq_c1(c1, arms):
    opt = ["Some %d" % c if c is not None else "None" for c in c1]
    return (HEADER +
            "(* web_atoms::C1_REPLACEMENTS as compiled, and the ordered arms of `match self.num` in\n"
            "   html5ever/src/tokenizer/char_ref/mod.rs finish_numeric (parsed from the source text) *)\n"
            "From Coq Require Import List NArith.\nFrom HV Require Import CharRef.CRModel.\n"
            "Import ListNotations.\nOpen Scope N_scope.\n\n"
            "Definition c1_replacements : list (option N) := [\n  %s\n].\n\n"
            "Definition finish_numeric_arms : list (num_pat * num_res) := [\n  %s\n].\n"
            % (";\n  ".join(opt), ";\n  ".join(arms)))


def regenerate():
    """returns (status, info): status 0 ok / 2 untranslatable; info has ents, c1, arms, changed, error"""
    info = {"ents": None, "c1": None, "arms": None, "changed": [], "error": None}
    try:
        ents, c1 = parse_dump(run_dump())
        info["ents"], info["c1"] = ents, c1
        arms = parse_finish_numeric(open(CHARREF_RS).read())
        info["arms"] = arms
    except TranslateError as e:
        info["error"] = str(e)
        return 2, info
    if write_if_changed(os.path.join(GEN, "GenEntities.v"), coq_entities(ents)):
        info["changed"].append("GenEntities.v")
    if write_if_changed(os.path.join(GEN, "GenC1.v"), coq_c1(c1, arms)):
        info["changed"].append("GenC1.v")
    return 0, info


def main():
    rc, info = regenerate()
    if rc != 0:
        sys.stderr.write("gen_entities: cannot translate: %s\n" % info["error"])
        return rc
    ch = info["changed"]
    print("gen_entities: %d map entries, %d C1 entries, %d numeric arms; %s" % (
        len(info["ents"]), len(info["c1"]), len(info["arms"]), ("rewrote " + ", ".join(ch)) if ch else "unchanged"))
    return 0


if __name__ == "__main__":
    sys.exit(main())
