#!/usr/bin/env python3
"""Translate the `step()` / `eof_step()` state machines of the html5ever and
xml5ever tokenizers (written in the go!/shorthand! macro DSL) into TokIR, a
small decision-tree language interpreted by coq/TokIR/Interp.v.

Fail-closed: any statement form outside the recognised subset raises
TranslateError with the offending source span; the checks report that as a
broken tie.  Output: coq/Gen/GenHtmlTok.v, coq/Gen/GenXmlTok.v (+ JSON copies
under build/ for the failing-input search).
"""
import hashlib
import json
import os
import re
import sys

ROOT = os.path.dirname(os.path.dirname(os.path.abspath(__file__)))
REPO = os.environ.get("VERIF_REPO", "/repo")


class TranslateError(Exception):
    pass


# --------------------------------------------------------------------------- lexer
TOK_RE = re.compile(r"""
    (?P<ws>\s+|//[^\n]*)
  | (?P<attr>\#\[[^\]]*\])
  | (?P<char>'(?:\\u\{[0-9a-fA-F]+\}|\\x[0-9a-fA-F]{2}|\\.|[^'\\])')
  | (?P<bchar>b'(?:\\x[0-9a-fA-F]{2}|\\.|[^'\\])')
  | (?P<str>"(?:\\.|[^"\\])*")
  | (?P<num>\d[\d_]*)
  | (?P<id>[A-Za-z_][A-Za-z0-9_]*)
  | (?P<op>=>|::|==|!=|&&|\|\||\.\.=|\.\.|->|<=|>=|[{}()\[\];,.:=|&!<>*+\-/@?%^])
""", re.X)


def unescape_char(body):
    if body.startswith("\\u{"):
        return int(body[3:-1], 16)
    if body.startswith("\\x"):
        return int(body[2:], 16)
    if body.startswith("\\"):
        return {"n": 10, "r": 13, "t": 9, "0": 0, "\\": 92, "'": 39, '"': 34}[body[1]]
    return ord(body)


def unescape_str(s):
    out = []
    i = 0
    while i < len(s):
        if s[i] == "\\":
            m = re.match(r"\\u\{([0-9a-fA-F]+)\}", s[i:])
            if m:
                out.append(int(m.group(1), 16)); i += len(m.group(0)); continue
            m = re.match(r"\\x([0-9a-fA-F]{2})", s[i:])
            if m:
                out.append(int(m.group(1), 16)); i += 4; continue
            out.append({"n": 10, "r": 13, "t": 9, "0": 0, "\\": 92, "'": 39, '"': 34}[s[i + 1]]); i += 2
        else:
            out.append(ord(s[i])); i += 1
    return out


def lex(src, base_line=1):
    toks = []
    pos = 0
    line = base_line
    while pos < len(src):
        m = TOK_RE.match(src, pos)
        if not m:
            raise TranslateError("cannot lex at line %d: %r" % (line, src[pos:pos + 30]))
        k = m.lastgroup
        t = m.group(0)
        if k not in ("ws",):
            if k == "char":
                toks.append(("char", unescape_char(t[1:-1]), line))
            elif k == "bchar":
                toks.append(("char", unescape_char(t[2:-1]), line))
            elif k == "str":
                toks.append(("str", unescape_str(t[1:-1]), line))
            elif k == "attr":
                toks.append(("attr", t, line))
            else:
                toks.append((k, t, line))
        line += t.count("\n")
        pos = m.end()
    toks.append(("eof", "", line))
    return toks


# --------------------------------------------------------------------------- parser (Rust subset -> AST)
class P:
    def __init__(self, toks, fname):
        self.t = toks
        self.i = 0
        self.fname = fname

    def peek(self, k=0):
        return self.t[self.i + k]

    def at(self, val):
        return self.t[self.i][1] == val and self.t[self.i][0] in ("op", "id")

    def err(self, msg):
        tk = self.peek()
        raise TranslateError("%s:%d: %s (at %r)" % (self.fname, tk[2], msg, tk[1]))

    def eat(self, val):
        if not self.at(val):
            self.err("expected %r" % val)
        self.i += 1

    def opt(self, val):
        if self.at(val):
            self.i += 1
            return True
        return False

    def ident(self):
        tk = self.peek()
        if tk[0] != "id":
            self.err("identifier expected")
        self.i += 1
        return tk[1]

    # token tree for macro arguments: returns list of tokens up to matching close
    def token_tree(self, open_, close):
        self.eat(open_)
        depth = 1
        out = []
        while True:
            tk = self.peek()
            if tk[0] == "eof":
                self.err("unterminated macro")
            if tk[0] == "op" and tk[1] in "([{":
                depth += 1
            if tk[0] == "op" and tk[1] in ")]}":
                depth -= 1
                if depth == 0:
                    self.i += 1
                    return out
            out.append(tk)
            self.i += 1

    def path(self):
        parts = [self.ident()]
        while self.at("::"):
            self.i += 1
            parts.append(self.ident())
        return parts

    # ---- patterns
    def pattern(self):
        alts = [self.pattern1()]
        while self.opt("|"):
            alts.append(self.pattern1())
        return alts[0] if len(alts) == 1 else ("por", alts)

    def pattern1(self):
        tk = self.peek()
        if tk[0] == "char":
            self.i += 1
            if self.at("..="):
                self.i += 1
                hi = self.peek()
                if hi[0] != "char":
                    self.err("range end")
                self.i += 1
                return ("prange", tk[1], hi[1])
            return ("pchar", tk[1])
        if tk[0] == "id":
            if tk[1] == "_":
                self.i += 1
                return ("pwild",)
            if tk[1] == "ref":
                self.i += 1
                return self.pattern1()
            p = self.path()
            if self.at("@"):
                self.i += 1
                sub = self.pattern1() if not self.at("(") else None
                if sub is None:
                    self.eat("(")
                    sub = self.pattern()
                    self.eat(")")
                return ("pbind", p[0], sub)
            if self.at("("):
                self.i += 1
                args = []
                while not self.at(")"):
                    args.append(self.pattern())
                    self.opt(",")
                self.eat(")")
                return ("pctor", p, args)
            if len(p) == 1 and p[0][0].islower():
                return ("pvar", p[0])
            return ("pctor", p, [])
        if tk[1] == "(":
            self.i += 1
            p = self.pattern()
            self.eat(")")
            return p
        self.err("pattern expected")

    # ---- expressions / statements
    def block(self):
        self.eat("{")
        stmts = []
        while not self.at("}"):
            if self.peek()[0] == "attr":
                stmts.append(("attr", self.peek()[1], self.peek()[2]))
                self.i += 1
                continue
            stmts.append(self.stmt())
        self.eat("}")
        return ("block", stmts)

    def stmt(self):
        line = self.peek()[2]
        if self.at("let"):
            self.i += 1
            self.opt("mut")
            pat = self.pattern()
            self.eat("=")
            e = self.expr()
            els = None
            if self.at("else"):
                self.i += 1
                els = self.block()
            self.eat(";")
            return ("let", pat, e, els, line)
        e = self.expr()
        semi = self.opt(";")
        return ("expr", e, semi, line)

    def expr(self):
        return self.binop(0)

    PREC = [["||"], ["&&"], ["==", "!="]]

    def binop(self, lvl):
        if lvl >= len(self.PREC):
            return self.unary()
        l = self.binop(lvl + 1)
        while self.peek()[0] == "op" and self.peek()[1] in self.PREC[lvl]:
            op = self.peek()[1]
            self.i += 1
            r = self.binop(lvl + 1)
            l = ("bin", op, l, r)
        return l

    def unary(self):
        if self.at("!"):
            self.i += 1
            return ("not", self.unary())
        if self.at("&") or self.at("*") or self.at("&&"):
            self.i += 1
            return ("deref", self.unary())
        return self.postfix(self.primary())

    def postfix(self, e):
        while True:
            if self.at("."):
                self.i += 1
                name = self.ident()
                if self.at("("):
                    self.i += 1
                    args = []
                    while not self.at(")"):
                        args.append(self.expr())
                        self.opt(",")
                    self.eat(")")
                    e = ("mcall", e, name, args)
                else:
                    e = ("field", e, name)
            elif self.at("?"):
                self.i += 1
                e = ("try", e)
            else:
                return e

    def primary(self):
        tk = self.peek()
        line = tk[2]
        if tk[0] == "char":
            self.i += 1
            return ("char", tk[1])
        if tk[0] == "str":
            self.i += 1
            return ("str", tk[1])
        if tk[0] == "num":
            self.i += 1
            return ("num", int(tk[1].replace("_", "")))
        if tk[1] == "(":
            self.i += 1
            if self.at(")"):
                self.i += 1
                return ("unit",)
            e = self.expr()
            self.eat(")")
            return ("paren", e)
        if tk[1] == "{":
            return self.block()
        if tk[0] == "id":
            if tk[1] == "loop":
                self.i += 1
                return ("loop", self.block(), line)
            if tk[1] == "match":
                self.i += 1
                scrut = self.expr_nostruct()
                self.eat("{")
                arms = []
                while not self.at("}"):
                    aline = self.peek()[2]
                    pat = self.pattern()
                    guard = None
                    if self.at("if"):
                        self.i += 1
                        guard = self.expr()
                    self.eat("=>")
                    body = self.expr()
                    self.opt(",")
                    arms.append((pat, guard, body, aline))
                self.eat("}")
                return ("match", scrut, arms, line)
            if tk[1] == "if":
                self.i += 1
                cond = self.expr_nostruct()
                then = self.block()
                els = None
                if self.at("else"):
                    self.i += 1
                    els = self.primary() if self.at("if") else self.block()
                return ("if", cond, then, els, line)
            if tk[1] == "return":
                self.i += 1
                if self.at(";") or self.at("}") or self.at(","):
                    return ("return", None)
                return ("return", self.expr())
            if tk[1] == "unsafe":
                self.i += 1
                return ("unsafe", self.block())
            p = self.path()
            if self.at("!"):
                self.i += 1
                if self.at("("):
                    tt = self.token_tree("(", ")")
                elif self.at("["):
                    tt = self.token_tree("[", "]")
                else:
                    tt = self.token_tree("{", "}")
                return ("macro", p[-1], tt, line)
            if self.at("("):
                self.i += 1
                args = []
                while not self.at(")"):
                    args.append(self.expr())
                    self.opt(",")
                self.eat(")")
                return ("call", p, args)
            return ("path", p)
        self.err("expression expected")

    def expr_nostruct(self):
        return self.expr()


def parse_fn_body(src, fname, fn_name):
    """find `fn <fn_name>(` ... its body block, return AST of the body"""
    m = re.search(r"\bfn\s+%s\s*(<[^>]*>)?\s*\(" % re.escape(fn_name), src)
    if not m:
        raise TranslateError("%s: fn %s not found" % (fname, fn_name))
    # find the opening brace of the body
    i = src.index("{", m.end())
    depth = 0
    j = i
    in_str = None
    while True:
        ch = src[j]
        if in_str:
            if ch == "\\":
                j += 1
            elif ch == in_str:
                in_str = None
        elif ch == '"':
            in_str = '"'
        elif ch == "'":
            # char literal or lifetime: skip a char literal if it looks like one
            mm = re.match(r"'(?:\\u\{[0-9a-fA-F]+\}|\\x[0-9a-fA-F]{2}|\\.|[^'\\])'", src[j:])
            if mm:
                j += len(mm.group(0)) - 1
        elif ch == "/" and src[j:j + 2] == "//":
            j = src.index("\n", j)
        elif ch == "{":
            depth += 1
        elif ch == "}":
            depth -= 1
            if depth == 0:
                break
        j += 1
    body = src[i:j + 1]
    base_line = src.count("\n", 0, i) + 1
    toks = lex(body, base_line)
    p = P(toks, fname)
    return p.block(), body


# --------------------------------------------------------------------------- lowering to TokIR
# IR (JSON-able python):
#   body := ["read", kind, k]          kind in get|peek ; binds cur; Suspend when none
#         | ["pop", set, simd, krun, kchar]
#         | ["eat", pat, exact, yes, no]
#         | ["if", cond, yes, no]
#         | ["cmd", cmd, k]
#         | ["end", term]
#   cond := ["in", [chars]] | ["range", lo, hi] | ["letter"] | ["tempis", str] | ["appropriate"] | ["foreign"]
#         | ["eqcur", ch]
#   cmd  := [name, args...]   args: char exprs ["lit",c] | ["cur"] | ["lower"] | ["asciilower"], strings, kinds
#   term := ["stay"] | ["to", state] | ["reconsume", state] | ["charref", addnl|null] | ["emit_tag", state]
#         | ["emit_kind", kind, state] (xml: short/empty/start) | ["emit_pi", state] | ["eof"] | ["fall"]

class Lower:
    def __init__(self, flavour, fname):
        self.flavour = flavour  # "html" | "xml"
        self.fname = fname
        self.env = {}

    def err(self, line, msg):
        raise TranslateError("%s:%s: %s" % (self.fname, line, msg))

    # ---- state names
    def state_of_path(self, e):
        """expression naming a state -> canonical string like RawData(Rcdata)"""
        if e[0] == "path":
            p = [x for x in e[1] if x not in ("states", "State", "XmlState")]
            if len(p) != 1:
                raise TranslateError("state path %r" % (e,))
            return self.subst_name(p[0])
        if e[0] == "call":
            p = [x for x in e[1] if x not in ("states", "State", "XmlState")]
            args = [self.state_of_path(a) for a in e[2]]
            return "%s(%s)" % (p[-1], ",".join(args))
        if e[0] == "paren":
            return self.state_of_path(e[1])
        raise TranslateError("%s: cannot read state from %r" % (self.fname, e))

    def subst_name(self, n):
        return self.env.get(n, n)

    def state_from_tokens(self, toks):
        """macro token list naming a state (go!(self: to State::X(kind)))"""
        src = []
        for tk in toks:
            if tk[0] == "char":
                raise TranslateError("char in state expr")
            src.append(tk)
        p = P(src + [("eof", "", 0)], self.fname)
        e = p.expr()
        if p.peek()[0] != "eof":
            raise TranslateError("%s: trailing tokens in state expression %r" % (self.fname, toks))
        return self.state_of_path(e)

    # ---- char expressions inside go! commands
    def cexp_tokens(self, toks, line):
        if len(toks) == 1:
            tk = toks[0]
            if tk[0] == "char":
                return ["lit", tk[1]]
            if tk[0] == "id":
                v = tk[1]
                if v in self.env and isinstance(self.env[v], list):
                    return self.env[v]
                self.err(line, "unknown char variable %r" % v)
        # (c.to_ascii_lowercase())
        txt = "".join(str(t[1]) for t in toks)
        m = re.fullmatch(r"\((\w+)\.to_ascii_lowercase\(\)\)", txt)
        if m and self.env.get(m.group(1)) == ["cur"]:
            return ["asciilower"]
        self.err(line, "unsupported char expression %r" % txt)

    def cexp_expr(self, e, line):
        if e[0] == "char":
            return ["lit", e[1]]
        if e[0] == "path" and len(e[1]) == 1:
            v = e[1][0]
            if v in self.env and isinstance(self.env[v], list):
                return self.env[v]
        if e[0] == "paren":
            return self.cexp_expr(e[1], line)
        if e[0] == "mcall" and e[2] == "to_ascii_lowercase" and self.cexp_expr(e[1], line) == ["cur"]:
            return ["asciilower"]
        self.err(line, "unsupported char expression %r" % (e,))

    # ---- go! macro
    def split_go(self, toks):
        # drop "self :" prefix
        if not (len(toks) >= 2 and toks[0][1] == "self" and toks[1][1] == ":"):
            raise TranslateError("go! without self:")
        toks = toks[2:]
        cmds = []
        cur = []
        depth = 0
        for tk in toks:
            if tk[0] == "op" and tk[1] in "([{":
                depth += 1
            if tk[0] == "op" and tk[1] in ")]}":
                depth -= 1
            if tk[0] == "op" and tk[1] == ";" and depth == 0:
                cmds.append(cur); cur = []
            else:
                cur.append(tk)
        if cur:
            cmds.append(cur)
        return cmds

    CHAR_CMDS = {"push_tag", "push_temp", "create_attr", "push_name", "push_value", "push_comment",
                 "push_doctype_name", "emit", "create_pi", "push_pi_target", "push_pi_data"}
    PLAIN_CMDS = {"discard_tag", "clear_temp", "emit_comment", "clear_comment", "create_doctype", "force_quirks",
                  "emit_doctype", "error", "error_eof", "set_empty_tag", "emit_temp"}

    def lower_go(self, toks, line, k):
        """returns body for go!(...) followed by continuation k (k used only when no terminator)"""
        cmds = self.split_go(toks)
        out = []
        term = None
        for c in cmds:
            if not c:
                continue
            name = c[0][1]
            rest = c[1:]
            if term is not None:
                self.err(line, "command after terminator in go!")
            if name == "to":
                term = ["to", self.state_from_tokens(rest)]
            elif name == "reconsume":
                term = ["reconsume", self.state_from_tokens(rest)]
            elif name == "consume_char_ref":
                if rest:
                    if len(rest) != 1 or rest[0][0] != "char":
                        self.err(line, "consume_char_ref arg")
                    term = ["charref", rest[0][1]]
                else:
                    term = ["charref", None]
            elif name == "emit_tag":
                term = ["emit_tag", self.state_from_tokens(rest)]
            elif name in ("emit_short_tag", "emit_empty_tag", "emit_start_tag"):
                term = ["emit_kind", name[5:-4].capitalize() + "Tag", self.state_from_tokens(rest)]
            elif name == "emit_pi":
                term = ["emit_pi", self.state_from_tokens(rest)]
            elif name == "eof":
                term = ["eof"]
            elif name == "create_tag":
                kind = rest[0][1]
                out.append(["create_tag", kind, self.cexp_tokens(rest[1:], line)])
            elif name == "discard_char":
                out.append(["discard_char"])
            elif name in self.CHAR_CMDS:
                out.append([name, self.cexp_tokens(rest, line)])
            elif name == "append_value":
                if len(rest) != 1 or self.env.get(rest[0][1]) != "run":
                    self.err(line, "append_value of something that is not the popped run")
                out.append(["append_value_run"])
            elif name == "append_comment":
                if len(rest) != 1 or rest[0][0] != "str":
                    self.err(line, "append_comment arg")
                out.append(["append_comment", rest[0][1]])
            elif name in ("push_doctype_id", "clear_doctype_id"):
                kind = self.subst_name(rest[0][1])
                if kind not in ("Public", "System"):
                    self.err(line, "doctype id kind %r" % kind)
                if name == "push_doctype_id":
                    out.append([name, kind, self.cexp_tokens(rest[1:], line)])
                else:
                    out.append([name, kind])
            elif name in self.PLAIN_CMDS:
                if rest and not (name == "discard_tag"):
                    self.err(line, "unexpected args to %s" % name)
                out.append([name])
            else:
                self.err(line, "unknown go! command %r" % name)
        body = ["end", term] if term is not None else k
        for c in reversed(out):
            body = ["cmd", c, body]
        return body

    # ---- conditions
    def cond_of(self, e, line):
        """returns ('static', bool) or ('dyn', cond)"""
        if e[0] == "paren":
            return self.cond_of(e[1], line)
        if e[0] == "bin" and e[1] == "==":
            l, r = e[2], e[3]
            # kind == ScriptData
            if l[0] == "path" and len(l[1]) == 1 and l[1][0] in self.env and isinstance(self.env[l[1][0]], str) \
                    and r[0] == "path":
                return ("static", self.env[l[1][0]] == r[1][-1])
            # &**self.temp_buf.borrow() == "script"
            if r[0] == "str" and "temp_buf" in json.dumps(l):
                return ("dyn", ["tempis", r[1]])
            # get_char!(..) == '>' handled by caller
            if r[0] == "char":
                ce = self.cexp_expr(l, line)
                if ce == ["cur"]:
                    return ("dyn", ["in", [r[1]]])
        if e[0] == "macro" and e[1] == "matches":
            toks = e[2]
            # matches!(c, 'a' | 'b')
            if toks[0][0] == "id" and self.env.get(toks[0][1]) == ["cur"] and toks[1][1] == ",":
                chars = []
                for tk in toks[2:]:
                    if tk[0] == "char":
                        chars.append(tk[1])
                    elif tk[1] == "|":
                        pass
                    else:
                        self.err(line, "matches! pattern")
                return ("dyn", ["in", chars])
        if e[0] == "mcall" and e[2] == "have_appropriate_end_tag":
            return ("dyn", ["appropriate"])
        if e[0] == "mcall" and e[2] == "adjusted_current_node_present_but_not_in_html_namespace":
            return ("dyn", ["foreign"])
        self.err(line, "unsupported condition %r" % (e,))

    # ---- patterns on the current character
    def pat_chars(self, pat, line):
        """-> (cond or None for catch-all, binder name or None)"""
        if pat[0] == "pchar":
            return ["in", [pat[1]]], None
        if pat[0] == "prange":
            return ["range", pat[1], pat[2]], None
        if pat[0] == "por":
            chars = []
            for a in pat[1]:
                if a[0] != "pchar":
                    self.err(line, "alternatives must be char literals")
                chars.append(a[1])
            return ["in", chars], None
        if pat[0] == "pwild":
            return None, None
        if pat[0] == "pvar":
            return None, pat[1]
        if pat[0] == "pbind":
            c, _ = self.pat_chars(pat[2], line)
            return c, pat[1]
        self.err(line, "unsupported char pattern %r" % (pat,))

    # ---- statements (continuation passing)
    def lower_stmts(self, stmts, k):
        if not stmts:
            return k
        s = stmts[0]
        rest = stmts[1:]
        if s[0] == "attr":
            raise TranslateError("%s:%s: unexpected attribute %s" % (self.fname, s[2], s[1]))
        if s[0] == "let":
            _, pat, e, els, line = s
            # let c = get_char!(self, input);
            if e[0] == "macro" and e[1] in ("get_char", "peek") and pat[0] == "pvar":
                saved = dict(self.env)
                self.env[pat[1]] = ["cur"]
                body = ["read", "get" if e[1] == "get_char" else "peek", self.lower_stmts(rest, k)]
                self.env = saved
                return body
            # let Some(set_result) = self.pop_except_from(input, small_char_set!(...)) else { return Suspend };
            if pat[0] == "pctor" and pat[1] == ["Some"] and e[0] == "mcall" and e[2] == "pop_except_from":
                setm = e[3][1]
                cs = self.charset(setm, line)
                name = pat[2][0][1]
                return self.lower_pop(name, cs, False, rest, k, line)
            # let esc = if &**self.temp_buf.borrow() == "script" { A } else { B };
            if pat[0] == "pvar" and e[0] == "if":
                kind, c = self.cond_of(e[1], line)
                a = self.simple_name(e[2], line)
                b = self.simple_name(e[3], line)
                saved = dict(self.env)
                self.env[pat[1]] = a
                ya = self.lower_stmts(rest, k)
                self.env[pat[1]] = b
                yb = self.lower_stmts(rest, k)
                self.env = saved
                if kind == "static":
                    return ya if c else yb
                return ["if", c, ya, yb]
            self.err(line, "unsupported let %r" % (pat,))
        if s[0] == "expr":
            _, e, semi, line = s
            return self.lower_expr(e, line, self.lower_stmts(rest, k) if rest else k)
        self.err(s[-1], "unsupported statement")

    def simple_name(self, blk, line):
        if blk[0] == "block" and len(blk[1]) == 1 and blk[1][0][0] == "expr" and blk[1][0][1][0] == "path":
            return blk[1][0][1][1][-1]
        self.err(line, "expected a block with a single name")

    def charset(self, e, line):
        if e[0] == "macro" and e[1] == "small_char_set":
            cs = []
            for tk in e[2]:
                if tk[0] == "char":
                    cs.append(tk[1])
                elif tk[0] == "num":
                    cs.append(int(tk[1]))
                else:
                    self.err(line, "small_char_set! element")
            return cs
        if e[0] == "path" and e[1][0] in self.env and isinstance(self.env[e[1][0]], dict):
            return self.env[e[1][0]]["set"]
        self.err(line, "unsupported set expression")

    def lower_pop(self, name, cs, simd, rest, k, line):
        # the next statement must be `match <name> { FromSet(..) ..., NotFromSet(b) => ... }`
        if not rest or rest[0][0] != "expr" or rest[0][1][0] != "match":
            self.err(line, "pop_except_from must be followed by a match on its result")
        m = rest[0][1]
        scrut = m[1]
        if not (scrut[0] == "path" and scrut[1] == [name]):
            self.err(line, "match scrutinee is not the popped result")
        after = self.lower_stmts(rest[1:], k) if rest[1:] else k
        krun = None
        char_arms = []
        for pat, guard, body, aline in m[2]:
            alts = pat[1] if pat[0] == "por" else [pat]
            if all(a[0] == "pctor" and a[1] == ["NotFromSet"] for a in alts):
                saved = dict(self.env)
                b = alts[0][2][0]
                self.env[b[1]] = "run"
                krun = self.lower_expr(body, aline, after)
                self.env = saved
                continue
            if not all(a[0] == "pctor" and a[1] == ["FromSet"] for a in alts):
                self.err(aline, "arm is neither FromSet nor NotFromSet")
            inner = [a[2][0] for a in alts]
            ipat = inner[0] if len(inner) == 1 else ("por", inner)
            char_arms.append((ipat, guard, body, aline))
        if krun is None:
            self.err(line, "no NotFromSet arm")
        kchar = self.lower_char_arms(char_arms, after, line)
        return ["pop", cs, simd, krun, kchar]

    def lower_char_arms(self, arms, after, line):
        """ordered first-match-wins arms over the current char -> nested ifs"""
        def go(i):
            if i >= len(arms):
                self.err(line, "non-exhaustive character match")
            pat, guard, body, aline = arms[i]
            cond, binder = self.pat_chars(pat, aline)
            saved = dict(self.env)
            if binder:
                self.env[binder] = ["cur"]
            b = self.lower_expr(body, aline, after)
            self.env = saved
            if guard is not None:
                gk, gc = self.cond_of(guard, aline)
                if gk != "static":
                    self.err(aline, "dynamic guard")
                if not gc:
                    return go(i + 1)
            if cond is None:
                return b
            return ["if", cond, b, go(i + 1)]
        return go(0)

    def lower_expr(self, e, line, k):
        t = e[0]
        if t == "unit":
            return k
        if t == "paren":
            return self.lower_expr(e[1], line, k)
        if t == "block":
            return self.lower_stmts(e[1], k)
        if t == "loop":
            return self.lower_stmts(e[1][1], ["end", ["stay"]])
        if t == "macro":
            name = e[1]
            if name == "go":
                return self.lower_go(e[2], e[3], k)
            self.err(e[3], "unsupported macro %s! in statement position" % name)
        if t == "mcall" and e[1] == ("path", ["self"]):
            name, args = e[2], e[3]
            if name == "bad_char_error" and not args:
                return ["cmd", ["error"], k]
            if name == "bad_eof_error" and not args:
                return ["cmd", ["error_eof"], k]
            if name == "emit_char" and len(args) == 1:
                return ["cmd", ["emit", self.cexp_expr(args[0], line)], k]
            if name == "emit_chars" and len(args) == 1 and args[0][0] == "path" and self.env.get(args[0][1][0]) == "run":
                return ["cmd", ["emit_run"], k]
            if name == "emit_temp_buf" and not args:
                return ["cmd", ["emit_temp"], k]
            if name == "discard_whitespace_char" and len(args) == 2 and self.cexp_expr(args[1], line) == ["cur"]:
                return ["cmd", ["discard_ws"], k]
            if name == "emit_error" and len(args) == 1:
                return ["cmd", ["error_msg", hashlib.sha1(json.dumps(args[0]).encode()).hexdigest()[:8]], k]
            self.err(line, "unsupported method call self.%s" % name)
        if t == "mcall" and e[2] == "set" and e[1] == ("field", ("path", ["self"]), "current_tag_self_closing") \
                and e[3] == [("path", ["true"])]:
            return ["cmd", ["set_self_closing"], k]
        if t == "match":
            scrut, arms, mline = e[1], e[2], e[3]
            if scrut[0] == "macro" and scrut[1] in ("get_char", "peek"):
                return ["read", "get" if scrut[1] == "get_char" else "peek", self.lower_char_arms(arms, k, mline)]
            if scrut[0] == "path" and self.env.get(scrut[1][0]) == ["cur"]:
                return self.lower_char_arms(arms, k, mline)
            if scrut[0] == "call" and scrut[1] == ["lower_ascii_letter"] and \
                    self.cexp_expr(scrut[2][0], mline) == ["cur"]:
                some = none = None
                for pat, guard, body, aline in arms:
                    if pat[0] == "pctor" and pat[1] == ["Some"]:
                        saved = dict(self.env)
                        self.env[pat[2][0][1]] = ["lower"]
                        some = self.lower_expr(body, aline, k)
                        self.env = saved
                    elif pat[0] == "pctor" and pat[1] == ["None"]:
                        none = self.lower_expr(body, aline, k)
                    else:
                        self.err(aline, "lower_ascii_letter arm")
                if some is None or none is None:
                    self.err(mline, "lower_ascii_letter match incomplete")
                return ["if", ["letter"], some, none]
            self.err(mline, "unsupported match scrutinee %r" % (scrut,))
        if t == "if":
            cond, then, els, iline = e[1], e[2], e[3], e[4]
            kelse = self.lower_expr(els, iline, k) if els is not None else k
            return self.lower_if(cond, lambda: self.lower_expr(then, iline, k), kelse, iline, k)
        self.err(line, "unsupported expression form %s" % t)

    def lower_if(self, cond, mk_then, kelse, line, k):
        # eat!(self, input, "pat") / eat_exact!
        if cond[0] == "paren":
            return self.lower_if(cond[1], mk_then, kelse, line, k)
        if cond[0] == "macro" and cond[1] in ("eat", "eat_exact"):
            toks = cond[2]
            pat = [tk for tk in toks if tk[0] == "str"]
            if len(pat) != 1:
                self.err(line, "eat! pattern")
            exact = (cond[1] == "eat_exact")
            return ["eat", pat[0][1], exact, mk_then(), kelse]
        if cond[0] == "bin" and cond[1] == "&&":
            # a && b  ==  if a { if b {then} else {else} } else {else}
            return self.lower_if(cond[2], lambda: self.lower_if(cond[3], mk_then, kelse, line, k), kelse, line, k)
        if cond[0] == "bin" and cond[1] == "==" and cond[2][0] == "macro" and cond[2][1] == "get_char" \
                and cond[3][0] == "char":
            return ["read", "get", ["if", ["in", [cond[3][1]]], mk_then(), kelse]]
        kind, c = self.cond_of(cond, line)
        if kind == "static":
            return mk_then() if c else kelse
        return ["if", c, mk_then(), kelse]


# ---- the Data state SIMD idiom of html5ever ---------------------------------------------------------
SIMD_PRELUDE_SHA = None  # filled from the golden file on first use


def strip_simd_prelude(stmts, lw, src_body):
    """html Data state:  let set = small_char_set!(..);  #[cfg(any(..))] let set_result = if !(slow) && simd { .. } else {..};
       #[cfg(not(..))] let set_result = self.pop_except_from(input, set);  let Some(set_result) = set_result else {..};
       match set_result {..}
    Recognised structurally; returns (charset, rest_stmts).  The SIMD helper functions are parsed separately."""
    if not (stmts and stmts[0][0] == "let" and stmts[0][1] == ("pvar", "set")):
        return None
    cs = lw.charset(stmts[0][2], stmts[0][4])
    i = 1
    seen_simd = seen_fallback = False
    while i < len(stmts) and stmts[i][0] == "attr":
        attr = stmts[i][1]
        nxt = stmts[i + 1]
        if nxt[0] != "let" or nxt[1] != ("pvar", "set_result"):
            raise TranslateError("%s:%s: unexpected statement under %s" % (lw.fname, stmts[i][2], attr))
        if attr.startswith("#[cfg(not("):
            e = nxt[2]
            if not (e[0] == "mcall" and e[2] == "pop_except_from"):
                raise TranslateError("%s:%s: non-SIMD fallback is not pop_except_from" % (lw.fname, nxt[4]))
            seen_fallback = True
        else:
            e = nxt[2]
            txt = json.dumps(e)
            for needle in ("exact_errors", "reconsume", "ignore_lf", "is_supported_simd_feature_detected",
                           "peek_front_chunk_mut", "data_state_simd_fast_path", "pop_except_from", "pop_front"):
                if needle not in txt:
                    raise TranslateError("%s:%s: SIMD idiom changed (missing %s)" % (lw.fname, nxt[4], needle))
            # the first-char guard: matches!(first_char, ...)
            m = re.search(r'\["macro", "matches", \[(.*?)\], \d+\]', txt)
            seen_simd = True
        i += 2
    if not (seen_simd and seen_fallback):
        return None
    s = stmts[i]
    if not (s[0] == "let" and s[1][0] == "pctor" and s[1][1] == ["Some"] and s[2] == ("path", ["set_result"])):
        raise TranslateError("%s:%s: expected `let Some(set_result) = set_result else`" % (lw.fname, s[-1]))
    return cs, stmts[i + 1:], s[1][2][0][1]


def parse_simd_helpers(src):
    """extract the character sets hard-wired in the SIMD helpers (checked for mutual consistency in Coq)"""
    out = {}
    m = re.search(r"matches!\(first_char,\s*([^)]*)\)", src)
    out["first_guard"] = [unescape_char(x[1:-1]) for x in re.findall(r"'(?:\\.|[^'\\])'", m.group(1))] if m else []
    m = re.search(r"matches!\(\*c,\s*([^)]*)\)", src)
    out["tail_stop"] = [unescape_char(x[2:-1]) for x in re.findall(r"b'(?:\\.|[^'\\])'", m.group(1))] if m else []
    m = re.search(r"if \*c == (b'(?:\\.|[^'\\])')\s*\{\s*n_newlines \+= 1", src)
    out["tail_newline"] = [unescape_char(m.group(1)[2:-1])] if m else []
    sse = re.search(r"unsafe fn data_state_sse2_fast_path.*?\n    \}\n", src, re.S)
    lanes = {}
    if sse:
        for name, ch in re.findall(r"let (\w+) = _mm_set1_epi8\(('(?:\\.|[^'\\])') as i8\)", sse.group(0)):
            lanes[name] = unescape_char(ch[1:-1])
        cmp_ = dict((res, mask) for res, mask in re.findall(r"let (\w+) = _mm_cmpeq_epi8\(data, (\w+)\)", sse.group(0)))
        tr = re.search(r"let test_result = (.*?);", sse.group(0), re.S)
        stop = []
        if tr:
            for res in re.findall(r"\b(\w+)\b", tr.group(1)):
                if res in cmp_ and cmp_[res] in lanes:
                    stop.append(lanes[cmp_[res]])
        out["lane_stop"] = stop
        nl = re.search(r"let newline_mask = _mm_movemask_epi8\((\w+)\)", sse.group(0))
        out["lane_newline"] = [lanes[cmp_[nl.group(1)]]] if nl and nl.group(1) in cmp_ else []
        out["lane_sha"] = hashlib.sha256(re.sub(r"\s+", " ", sse.group(0)).encode()).hexdigest()[:16]
    else:
        out["lane_stop"] = []; out["lane_newline"] = []; out["lane_sha"] = ""
    return out


# ---- state arms ------------------------------------------------------------------------------------------
HTML_KINDS = {"RawKind": ["Rcdata", "Rawtext", "ScriptData", "ScriptDataEscaped(Escaped)", "ScriptDataEscaped(DoubleEscaped)"],
              "ScriptEscapeKind": ["Escaped", "DoubleEscaped"],
              "DoctypeIdKind": ["Public", "System"],
              "AttrValueKind": ["Unquoted", "SingleQuoted", "DoubleQuoted"]}

# parametrised states: which kind-type each argument ranges over
HTML_STATE_PARAMS = {
    "RawData": ["RawKind"], "RawLessThanSign": ["RawKind"], "RawEndTagOpen": ["RawKind"], "RawEndTagName": ["RawKind"],
    "ScriptDataEscapeStart": ["ScriptEscapeKind"], "ScriptDataEscapedDash": ["ScriptEscapeKind"],
    "ScriptDataEscapedDashDash": ["ScriptEscapeKind"], "AttributeValue": ["AttrValueKind"],
    "AfterDoctypeKeyword": ["DoctypeIdKind"], "BeforeDoctypeIdentifier": ["DoctypeIdKind"],
    "DoctypeIdentifierDoubleQuoted": ["DoctypeIdKind"], "DoctypeIdentifierSingleQuoted": ["DoctypeIdKind"],
    "AfterDoctypeIdentifier": ["DoctypeIdKind"],
}
XML_STATE_PARAMS = {
    "TagAttrValue": ["AttrValueKind"], "AfterDoctypeKeyword": ["DoctypeIdKind"],
    "BeforeDoctypeIdentifier": ["DoctypeIdKind"], "DoctypeIdentifierDoubleQuoted": ["DoctypeIdKind"],
    "DoctypeIdentifierSingleQuoted": ["DoctypeIdKind"], "AfterDoctypeIdentifier": ["DoctypeIdKind"],
}


def read_state_enum(path, enum_name):
    src = open(path).read()
    m = re.search(r"pub enum %s\s*\{(.*?)\n\}" % enum_name, src, re.S)
    if not m:
        raise TranslateError("%s: enum %s not found" % (path, enum_name))
    body = re.sub(r"//[^\n]*", "", m.group(1))
    out = []
    for v in re.finditer(r"([A-Z]\w*)\s*(\(([^)]*)\))?\s*,", body):
        out.append((v.group(1), [a.strip() for a in v.group(3).split(",")] if v.group(3) else []))
    return out


def expand_states(variants, params):
    """all concrete states, in declaration order"""
    out = []
    for name, args in variants:
        if not args:
            out.append(name)
        else:
            kinds = params.get(name)
            if kinds is None or len(kinds) != len(args):
                raise TranslateError("state %s has unknown parameter types %r" % (name, args))
            combos = [[]]
            for kt in kinds:
                combos = [c + [v] for c in combos for v in HTML_KINDS[kt]]
            for c in combos:
                out.append("%s(%s)" % (name, ",".join(c)))
    return out


def match_state_pattern(pat, concrete):
    """does the arm pattern match the concrete state string?  returns env bindings or None"""
    alts = pat[1] if pat[0] == "por" else [pat]
    name, _, argstr = concrete.partition("(")
    cargs = split_args(argstr[:-1]) if argstr else []
    for a in alts:
        if a[0] != "pctor":
            raise TranslateError("state pattern %r" % (a,))
        p = [x for x in a[1] if x not in ("states", "State", "XmlState")]
        if p[-1] != name:
            continue
        if len(a[2]) != len(cargs):
            if not a[2] and not cargs:
                return {}
            continue
        env = {}
        ok = True
        for sub, ca in zip(a[2], cargs):
            r = match_kind_pattern(sub, ca, env)
            if not r:
                ok = False
                break
        if ok:
            return env
    return None


def split_args(s):
    out, depth, cur = [], 0, ""
    for ch in s:
        if ch == "(":
            depth += 1
        if ch == ")":
            depth -= 1
        if ch == "," and depth == 0:
            out.append(cur); cur = ""
        else:
            cur += ch
    if cur:
        out.append(cur)
    return out


def match_kind_pattern(sub, ca, env):
    if sub[0] == "pwild":
        return True
    if sub[0] == "pvar":
        env[sub[1]] = ca
        return True
    if sub[0] == "pctor":
        name, _, argstr = ca.partition("(")
        if sub[1][-1] != name:
            return False
        cargs = split_args(argstr[:-1]) if argstr else []
        if len(sub[2]) != len(cargs):
            return False
        return all(match_kind_pattern(s2, c2, env) for s2, c2 in zip(sub[2], cargs))
    raise TranslateError("kind pattern %r" % (sub,))


def translate(flavour):
    if flavour == "html":
        fname = os.path.join(REPO, "html5ever/src/tokenizer/mod.rs")
        variants = read_state_enum(os.path.join(REPO, "html5ever/src/tokenizer/states.rs"), "State")
        params = HTML_STATE_PARAMS
    else:
        fname = os.path.join(REPO, "xml5ever/src/tokenizer/mod.rs")
        variants = read_state_enum(os.path.join(REPO, "xml5ever/src/tokenizer/states.rs"), "XmlState")
        params = XML_STATE_PARAMS
    src = open(fname).read()
    states = expand_states(variants, params)
    table = {"flavour": flavour, "states": states, "step": {}, "eof": {}}
    for fn, key in (("step", "step"), ("eof_step", "eof")):
        ast, body_src = parse_fn_body(src, fname, fn)
        # the body: [prelude stmts..., match self.state.get() { arms }]
        m = None
        for s in ast[1]:
            if s[0] == "expr" and s[1][0] == "match":
                m = s[1]
        if m is None:
            raise TranslateError("%s: no match on the state in %s" % (fname, fn))
        arms = m[2]
        for st in states:
            found = None
            for pat, guard, body, aline in arms:
                if guard is not None:
                    raise TranslateError("%s:%d: guard on a state arm" % (fname, aline))
                env = match_state_pattern(pat, st)
                if env is not None:
                    found = (env, body, aline)
                    break
            if found is None:
                raise TranslateError("%s: state %s not covered in %s" % (fname, st, fn))
            env, body, aline = found
            lw = Lower(flavour, fname)
            lw.env = dict(env)
            if key == "step":
                # body is `loop { ... }` or a bare match
                if body[0] == "loop":
                    stmts = body[1][1]
                    simd = strip_simd_prelude(stmts, lw, body_src) if flavour == "html" else None
                    if simd:
                        cs, rest, name = simd
                        ir = lw.lower_pop(name, cs, True, rest, ["end", ["stay"]], aline)
                    else:
                        ir = lw.lower_stmts(stmts, ["end", ["stay"]])
                else:
                    ir = lw.lower_expr(body, aline, ["end", ["fall"]])
            else:
                ir = lw.lower_expr(body, aline, ["end", ["fall"]])
            table[key][st] = ir
    if flavour == "html":
        table["simd"] = parse_simd_helpers(src)
    return table


# --------------------------------------------------------------------------- Coq emission
def coq_state(flavour, s):
    name, _, argstr = s.partition("(")
    pre = "H" if flavour == "html" else "X"
    if not argstr:
        return pre + name
    args = split_args(argstr[:-1])
    return "(%s%s %s)" % (pre, name, " ".join(coq_kind(a) for a in args))


def coq_kind(a):
    name, _, argstr = a.partition("(")
    if not argstr:
        return "K" + name
    return "(K%s %s)" % (name, " ".join(coq_kind(x) for x in split_args(argstr[:-1])))


def coq_list(xs):
    return "[" + "; ".join(xs) + "]"


def coq_chars(cs):
    return coq_list(["%d" % c for c in cs])


def coq_cexp(e):
    return {"lit": lambda: "(CLit %d)" % e[1], "cur": lambda: "CCur", "lower": lambda: "CLower",
            "asciilower": lambda: "CAsciiLower"}[e[0]]()


def coq_cond(c):
    k = c[0]
    if k == "in":
        return "(CIn %s)" % coq_chars(c[1])
    if k == "range":
        return "(CRange %d %d)" % (c[1], c[2])
    if k == "letter":
        return "CLetter"
    if k == "tempis":
        return "(CTempIs %s)" % coq_chars(c[1])
    if k == "appropriate":
        return "CAppropriate"
    if k == "foreign":
        return "CForeign"
    raise TranslateError("cond %r" % (c,))


def coq_cmd(flavour, c):
    n = c[0]
    if n == "create_tag":
        return "(CreateTag T%s %s)" % (c[1], coq_cexp(c[2]))
    if n in ("push_tag", "push_temp", "create_attr", "push_name", "push_value", "push_comment", "push_doctype_name",
             "emit", "create_pi", "push_pi_target", "push_pi_data"):
        return "(%s %s)" % ("".join(w.capitalize() for w in n.split("_")), coq_cexp(c[1]))
    if n == "append_comment":
        return "(AppendComment %s)" % coq_chars(c[1])
    if n == "push_doctype_id":
        return "(PushDoctypeId K%s %s)" % (c[1], coq_cexp(c[2]))
    if n == "clear_doctype_id":
        return "(ClearDoctypeId K%s)" % c[1]
    if n == "error_msg":
        return "ErrorMsg"
    return "".join(w.capitalize() for w in n.split("_"))


def coq_term(flavour, t):
    k = t[0]
    if k == "stay":
        return "Stay"
    if k == "fall":
        return "Fall"
    if k == "to":
        return "(To %s)" % coq_state(flavour, t[1])
    if k == "reconsume":
        return "(Reconsume %s)" % coq_state(flavour, t[1])
    if k == "charref":
        return "(ConsumeCharRef %s)" % ("None" if t[1] is None else "(Some %d)" % t[1])
    if k == "emit_tag":
        return "(EmitTag %s)" % coq_state(flavour, t[1])
    if k == "emit_kind":
        return "(EmitKind T%s %s)" % (t[1], coq_state(flavour, t[2]))
    if k == "emit_pi":
        return "(EmitPi %s)" % coq_state(flavour, t[1])
    if k == "eof":
        return "Eof"
    raise TranslateError("term %r" % (t,))


def coq_body(flavour, b, ind):
    pad = " " * ind
    k = b[0]
    if k == "read":
        return "%s(BRead %s\n%s)" % (pad, "RGet" if b[1] == "get" else "RPeek", coq_body(flavour, b[2], ind + 1))
    if k == "pop":
        return "%s(BPop %s %s\n%s\n%s)" % (pad, coq_chars(b[1]), "true" if b[2] else "false",
                                           coq_body(flavour, b[3], ind + 1), coq_body(flavour, b[4], ind + 1))
    if k == "eat":
        return "%s(BEat %s %s\n%s\n%s)" % (pad, coq_chars(b[1]), "true" if b[2] else "false",
                                           coq_body(flavour, b[3], ind + 1), coq_body(flavour, b[4], ind + 1))
    if k == "if":
        return "%s(BIf %s\n%s\n%s)" % (pad, coq_cond(b[1]), coq_body(flavour, b[2], ind + 1),
                                       coq_body(flavour, b[3], ind + 1))
    if k == "cmd":
        return "%s(BCmd %s\n%s)" % (pad, coq_cmd(flavour, b[1]), coq_body(flavour, b[2], ind))
    if k == "end":
        return "%s(BEnd %s)" % (pad, coq_term(flavour, b[1]))
    raise TranslateError("body %r" % (b,))


def emit_coq(table):
    fl = table["flavour"]
    Name = "Html" if fl == "html" else "Xml"
    st_ty = "hstate" if fl == "html" else "xstate"
    out = []
    out.append("(* GENERATED by gen/rs2ir.py from %s/src/tokenizer/mod.rs - do not edit *)" %
               ("html5ever" if fl == "html" else "xml5ever"))
    out.append("From Coq Require Import List NArith.")
    out.append("From HV Require Import TokIR.IR.")
    out.append("Import ListNotations.")
    out.append("Local Open Scope N_scope.")
    out.append("")
    out.append("Definition %s_states : list %s :=\n  %s." % (fl, st_ty, coq_list([coq_state(fl, s) for s in table["states"]])))
    for key, nm in (("step", "step"), ("eof", "eof")):
        out.append("")
        out.append("Definition %s_%s (s : %s) : body %s :=\n  match s with" % (fl, nm, st_ty, st_ty))
        for s in table["states"]:
            pat = coq_state(fl, s)
            if pat.startswith("(") and pat.endswith(")"):
                pat = pat[1:-1]
            out.append("  | %s =>\n%s" % (pat, coq_body(fl, table[key][s], 4)))
        out.append("  | _ => BEnd Fall   (* ill-kinded parameter combinations: not states of the Rust enum *)")
        out.append("  end.")
    if fl == "html":
        sd = table["simd"]
        out.append("")
        for k in ("first_guard", "tail_stop", "tail_newline", "lane_stop", "lane_newline"):
            out.append("Definition simd_%s : list N := %s." % (k, coq_chars(sd[k])))
    out.append("")
    out.append("Definition %s_state_names : list (list N * %s) :=\n  %s." % (fl, st_ty, coq_list(
        ["(%s, %s)" % (coq_chars([ord(ch) for ch in s]), coq_state(fl, s)) for s in table["states"]])))
    out.append("")
    out.append("Definition %s_table : table %s := {| t_states := %s_states; t_step := %s_step; t_eof := %s_eof |}." %
               (fl, st_ty, fl, fl, fl))
    return "\n".join(out) + "\n"


def write_if_changed(path, text):
    try:
        if open(path).read() == text:
            return False
    except OSError:
        pass
    os.makedirs(os.path.dirname(path), exist_ok=True)
    open(path + ".tmp", "w").write(text)
    os.replace(path + ".tmp", path)
    return True


def main():
    res = {}
    for fl in ("html", "xml"):
        t = translate(fl)
        Name = "Html" if fl == "html" else "Xml"
        changed = write_if_changed(os.path.join(ROOT, "coq", "Gen", "Gen%sTok.v" % Name), emit_coq(t))
        os.makedirs(os.path.join(ROOT, "build"), exist_ok=True)
        json.dump(t, open(os.path.join(ROOT, "build", "tokir_%s.json" % fl), "w"))
        res[fl] = {"states": len(t["states"]), "changed": changed}
    print(json.dumps(res))


if __name__ == "__main__":
    try:
        main()
    except TranslateError as e:
        print("TRANSLATE-ERROR: %s" % e)
        sys.exit(3)
