#!/usr/bin/env python3
"""gen/regen_all.py - run every translator gen/gen_*.py present (each regenerates its
coq/Gen/*.v files from /repo, rewriting only on change).  Called by setup.sh.
Exit status: 0 if all succeeded, 1 otherwise (each failure is printed)."""
import glob
import os
import subprocess
import sys

HERE = os.path.dirname(os.path.abspath(__file__))


def main():
    rc = 0
    for script in sorted(glob.glob(os.path.join(HERE, "gen_*.py"))):
        p = subprocess.run([sys.executable, script], cwd=os.path.dirname(HERE))
        if p.returncode != 0:
            print("regen_all: %s failed with status %d" % (os.path.basename(script), p.returncode))
            rc = 1
    return rc


if __name__ == "__main__":
    sys.exit(main())
